"""G07 (growth specification, DESIGN.md section 7) - the command-line layer, toasty/cli.py entrypoint(args).

Spec: spec/CliBinding.tla (+ spec/MCCliBinding.tla, MCCliBinding.cfg).  The CLI is modelled as a BINDING
(subcommand, option assignment) |-> effective library call(s): Eff(sub, asg, proc) transcribes argparse and the
<sub>_impl functions of cascade, check-avm, make-thumbnail, tile-allsky, tile-healpix, tile-multi-tan, tile-study,
tile-wwtl, transform fx3-to-rgb / u8-to-rgb and view (local mode); the declaration table D(sub) is the contract
(option -> kind, argparse default, library parameter, library default).

TLC (a) walks the whole (subcommand x option subset x value) space (values incl. tokens argparse / the loaders must
refuse, one undeclared option per assignment) and checks the theorems: undeclared options and refused tokens are
rejected before anything is called; every accepted option reaches exactly its library parameter with the documented
conversion; omitted options reach the library as the library's own default; within one invocation an option moves
nothing but its own destination; the call-selecting options select what they say; (b) prints, in the same run, a
witness state for each "ideal" statement the code does not keep (negative controls; in the thorough tier each is also
refuted as an INVARIANT, the counterexample being the failing command line); (c) checks on histories of invocations
in one process that no invocation influences a later one (NoCarryOver, ProcStable), and refutes it for the Leaky
variant; (d) evaluates Eff for every case of the harness's case list - the expected effective calls.

Binding (spec -> code): every case is rendered to argv and run through the real toasty.cli.entrypoint in-process,
with the library entry points wrapped by recording spies (PyramidIO / Builder / SimpleFitsCollection /
MultiTanProcessor / FitsTiler / StudyTiling constructors and methods, cascade_images, f16x3_to_rgb, u8_to_rgb, the
sampler factories, ImageLoader.create_from_args / load_path / load_stream, AVM.from_image, preview_wtml,
resolve_parallelism).  A spy binds what it received to the callee's signature and applies the callee's defaults, so
the comparison is over the parameters the library ACTUALLY gets (a keyword swallowed by **kwargs shows as the
parameter not having received the option's value, and as a non-empty kwargs).  "shallow" cases replace the heavy
stages by the recorder; "deep" cases call through on tiny inputs and additionally compare the value that reaches
resolve_parallelism and the artefacts (index_rel.wtml name / dataset type / levels, thumbnail kind, output file).
Cases run back to back in long-lived worker processes in a seeded shuffled order (every case is preceded by an
arbitrary history of other invocations); the process state the model names (loader class attributes, PIL's
MAX_IMAGE_PIXELS, par_util's message flag) and cwd / environ / warning filters are compared after every invocation.
"""
import contextlib
import io
import json
import os
import shutil
import sys
import time

from lib import repo, tla

# ------------------------------------------------------------------------------------------------
# TLA+ literals of tagged values (inputs only: the tables come from TLC)
# ------------------------------------------------------------------------------------------------


def val_tla(v):
    (k, x), = v.items()
    if k == "int":
        return "I(%d)" % x
    if k == "str":
        return "S(%s)" % tla.lit(x)
    if k == "flag":
        return "Flag"
    if k == "junk":
        return "Junk(%s)" % tla.lit(x)
    if k == "ints":
        return "Ints(%s)" % tla.lit(tuple(x))
    if k == "keys":
        return "Keys(%s)" % tla.lit(tuple(x))
    if k == "dec":
        return "Dec(%d, %d)" % (x[0], x[1])
    if k == "path":
        return "Path(%s)" % tla.lit(x)
    if k == "dir":
        return "Dir(%s)" % tla.lit(x)
    if k == "list":
        return "L(<<%s>>)" % ", ".join(val_tla(e) for e in x)
    raise ValueError(v)


def asg_tla(asg):
    if not asg:
        return "Empty"
    return " @@ ".join("(%s :> %s)" % (tla.lit(o), val_tla(v)) for o, v in asg)


def case_tla(c):
    return "[sub |-> %s, asg |-> %s]" % (tla.lit(c["sub"]), asg_tla(c["asg"]))


def case_key(c):
    return (c["sub"], tuple((o, json.dumps(v, sort_keys=True)) for o, v in sorted(c["asg"])), c.get("mode", "shallow"))


def cfg_text(spec, level, foreign, invariants, leaky=False, maxinv=0, invs="MCNoInvs"):
    lines = ["SPECIFICATION %s" % spec, "CONSTANTS", " Level = %d" % level, " ForeignUpTo = %d" % foreign,
             " Leaky = %s" % ("TRUE" if leaky else "FALSE"), " MaxInv = %d" % maxinv, " Invs <- %s" % invs]
    lines += ["INVARIANT %s" % i for i in invariants]
    lines.append("CHECK_DEADLOCK FALSE")
    return "\n".join(lines) + "\n"


SPACE_INVARIANTS = ["TypeOK", "EffIsEff", "UndeclaredRejected", "BadTokenRejected", "BadValueDoesNoWork", "OnlyOkFinishes", "AcceptedReaches",
                    "ExactlyOneParameter", "OmittedAsBuilt", "NeededOptionStops", "OptionsIndependent", "ThumbnailSelect", "ProjectionSelect",
                    "AstrometrySelect", "TileOnlySelect", "ExitCodeSelect", "Wiring"]
IDEALS = ["OmittedAlwaysLibraryDefault", "NothingSuppressed", "MissingNeedDiesCleanly", "CropAlwaysShrinksImage", "OmittedNameKeepsAvmTitle",
          "StudyAlwaysTiles"]

# ------------------------------------------------------------------------------------------------
# case lists (INPUTS: which command lines to try; what they must do comes from TLC)
# ------------------------------------------------------------------------------------------------


def build_cases(tables, rng, n_random, pair_values):
    cases, seen = [], set()

    def add(sub, asg, mode="shallow", why=""):
        c = {"sub": sub, "asg": sorted(asg.items()), "mode": mode, "why": why}
        k = case_key(c)
        if k not in seen:
            seen.add(k)
            cases.append(c)

    for sub in sorted(tables["subs"]):
        decls = tables["subs"][sub]["decls"]
        pos = [d for d in decls if d["pos"]]
        opt = [d for d in decls if not d["pos"]]
        base = dict((d["o"], d["okvals"][0]) for d in pos)
        add(sub, base, why="positionals only")
        for d in pos:                                   # a positional missing; every value of every positional
            add(sub, dict((k, v) for k, v in base.items() if k != d["o"]), why="missing positional")
            for v in d["vals"]:
                b = dict(base)
                b[d["o"]] = v
                add(sub, b, why="positional value")
        for d in opt:                                   # every option alone, every value (accepted and refused), every positional value
            for v in d["vals"]:
                for p in pos:
                    for pv in (p["okvals"] if len(p["okvals"]) <= 3 else p["okvals"][:3]):
                        b = dict(base)
                        b[p["o"]] = pv
                        b[d["o"]] = v
                        add(sub, b, why="single option")
        for i, d1 in enumerate(opt):                    # every pair of options
            for d2 in opt[i + 1:]:
                v1s = d1["okvals"] if pair_values else d1["okvals"][:1]
                v2s = d2["okvals"] if pair_values else d2["okvals"][:1]
                for v1 in v1s:
                    for v2 in v2s:
                        b = dict(base)
                        b[d1["o"]] = v1
                        b[d2["o"]] = v2
                        add(sub, b, why="pair")
        for rot in range(3):                            # everything at once, and with one option taken away
            full = dict(base)
            for d in opt:
                if d["okvals"]:
                    full[d["o"]] = d["okvals"][rot % len(d["okvals"])]
            for p in pos:
                full[p["o"]] = p["okvals"][rot % len(p["okvals"])]
            add(sub, full, why="all options")
            for d in opt:
                add(sub, dict((k, v) for k, v in full.items() if k != d["o"]), why="all but one")
        for o, v in sorted(tables["subs"][sub]["foreign"].items()):     # undeclared options
            b = dict(base)
            b[o] = v
            add(sub, b, why="undeclared option")
            if opt and opt[0]["okvals"]:
                b = dict(b)
                b[opt[0]["o"]] = opt[0]["okvals"][0]
                add(sub, b, why="undeclared option")
        for _ in range(n_random):                       # seeded random assignments (accepted values mostly)
            b = {}
            for d in decls:
                if d["pos"] or rng.random() < 0.5:
                    pool = d["okvals"] if (rng.random() < 0.93 and d["okvals"]) else d["vals"]
                    b[d["o"]] = rng.choice(sorted(pool, key=lambda x: json.dumps(x, sort_keys=True)))
            add(sub, b, why="random")
    return cases


DEEP_SUBS = ("cascade", "check-avm", "make-thumbnail", "tile-allsky", "tile-multi-tan", "tile-study", "tile-wwtl",
             "transform fx3-to-rgb", "transform u8-to-rgb")


def deep_candidates(tables, rng, per_sub):
    """Cases that are run end to end on tiny inputs.  Inputs only; kept to what finishes in well under a second."""
    out = []
    for sub in DEEP_SUBS:
        decls = tables["subs"][sub]["decls"]
        pos = [d for d in decls if d["pos"]]
        opt = [d for d in decls if not d["pos"]]
        got = set()
        tries = 0
        while len(got) < per_sub and tries < per_sub * 30:
            tries += 1
            b = {}
            for d in pos:
                b[d["o"]] = rng.choice(sorted(d["okvals"], key=lambda x: json.dumps(x, sort_keys=True)))
            for d in opt:
                if d["okvals"] and rng.random() < 0.55:
                    b[d["o"]] = rng.choice(sorted(d["okvals"], key=lambda x: json.dumps(x, sort_keys=True)))
            if tries <= 2:
                for d in opt:        # the first two: nothing optional / everything
                    b.pop(d["o"], None)
                    if tries == 2 and d["okvals"]:
                        b[d["o"]] = d["okvals"][0]
            # keep the run small and inside what the tiny inputs support
            if "DEPTH" in b and b["DEPTH"].get("int", 0) > 1:
                b["DEPTH"] = {"int": 1}
            for o in ("--start",):
                if o in b and b[o].get("int", 0) > 1:
                    b[o] = {"int": 1}
            if sub.startswith("transform") and "--start" not in b and tries % 4:
                b["--start"] = {"int": 1}
            if sub == "cascade" and "--start" not in b and tries % 4:
                b["--start"] = {"int": 1}
            if "--parallelism" in b and b["--parallelism"].get("int", 0) > 2:
                b["--parallelism"] = {"int": 2}
            if sub.startswith("transform") and "--start" not in b:
                b["--parallelism"] = {"int": 1}      # depth None fails after the workers were started: keep that serial
            if sub == "tile-study" and ("--avm" in b or "--avm-from" in b):
                b.pop("--crop", None)                # pyavm refuses tags whose aspect ratio differs from the (cropped) image: not modelled
            if sub == "cascade":
                b.pop("--format", None) if rng.random() < 0.5 else None
            if sub == "tile-multi-tan" and b.get("--wcs-key", {}).get("str") not in (None, "A"):
                b["--wcs-key"] = {"str": "A"}             # the input files carry the solutions " " and "A"
            if sub == "tile-multi-tan" and b.get("--hdu-index", {}).get("int", 0) > 2:
                b["--hdu-index"] = {"int": 2}             # ... and three image HDUs
            k = tuple(sorted((o, json.dumps(v, sort_keys=True)) for o, v in b.items()))
            if k in got:
                continue
            got.add(k)
            out.append({"sub": sub, "asg": sorted(b.items()), "mode": "deep", "why": "end to end"})
    return out


# ------------------------------------------------------------------------------------------------
# input files (as the FileInfo table of the spec describes them)
# ------------------------------------------------------------------------------------------------
WWTL_XML = """\ufeff<?xml version='1.0' encoding='UTF-8'?>
<LayerContainer ID="55cb0cce-c44a-4a44-a509-ea66fce643a5">
  <Layers>
    <Layer Id="7ecb6411-e4ee-4dfa-90ef-77d6f486c7d2" Type="TerraViewer.ImageSetLayer" Name="Layer Name" ReferenceFrame="Sky"
           Color="NamedColor:White" Opacity="1" StartTime="1/1/0001 12:00:00 AM" EndTime="12/31/9999 11:59:59 PM"
           FadeSpan="00:00:00" FadeType="None" Extension=".png" OverrideDefault="False">
      <ImageSet DataSetType="Sky" BandPass="Visible" Name="Layer Name" Projection="SkyImage" ReferenceFrame=""
                CenterX="85.5" CenterY="-2.5" OffsetX="30" OffsetY="20" Rotation="0" BaseDegreesPerTile="0.002"
                QuadTreeMap="" Url="X:\\InternalPath.png" DemUrl="" FileType=".png" BaseTileLevel="0" TileLevels="0"
                WidthFactor="1" MeanRadius="0" BottomsUp="False" Sparse="False" ElevationModel="False" StockSet="False" Generic="False">
        <ThumbnailUrl />
      </ImageSet>
    </Layer>
  </Layers>
</LayerContainer>
"""
WCS_CRVAL = {"map.fits": (30.0, 40.0), "wcs.fits": (100.0, -20.0)}


def _tan_header(header, crval, crpix, cdelt, key=""):
    header["CTYPE1" + key] = "RA---TAN"
    header["CTYPE2" + key] = "DEC--TAN"
    header["CRVAL1" + key] = crval[0]
    header["CRVAL2" + key] = crval[1]
    header["CRPIX1" + key] = crpix[0]
    header["CRPIX2" + key] = crpix[1]
    header["CDELT1" + key] = cdelt[0]
    header["CDELT2" + key] = cdelt[1]
    header["CUNIT1" + key] = "deg"
    header["CUNIT2" + key] = "deg"


def make_inputs(root, tables):
    """-> {abstract file name: path}.  Everything is written once, before the workers are forked; nothing is modified later."""
    import warnings
    import numpy as np
    from PIL import Image as PILImage
    from astropy.io import fits
    files = {}
    os.makedirs(root)
    rs = np.random.RandomState(7)
    info = tables["files"]
    for name, f in sorted(info.items()):
        path = os.path.join(root, name)
        files[name] = path
        if f["fmt"] == "png":
            a = (64 + rs.rand(f["h"], f["w"], 3) * 190).astype(np.uint8)
            a[:4, :4] = 0               # a few pure black pixels (black-to-transparent has something to do)
            plain = os.path.join(root, "plain-" + name)
            PILImage.fromarray(a).save(plain)
            if f["avm"] == "none":
                os.replace(plain, path)
            else:
                from pyavm import AVM
                with warnings.catch_warnings():
                    warnings.simplefilter("ignore")
                    avm = AVM()
                    avm.Title = tables["avm_title"]["str"]
                    if f["avm"] == "full":
                        avm.Spatial.CoordinateFrame = "ICRS"
                        avm.Spatial.ReferenceValue = [10.0, 20.0]
                        avm.Spatial.ReferenceDimension = [f["w"], f["h"]]
                        avm.Spatial.ReferencePixel = [f["w"] / 2.0, f["h"] / 2.0]
                        avm.Spatial.Scale = [-0.01, 0.01]
                        avm.Spatial.Rotation = 0.0
                        avm.Spatial.CoordsystemProjection = "TAN"
                    avm.embed(plain, path)
                os.remove(plain)
        else:
            data = (rs.rand(f["h"], f["w"]) + 0.5).astype(np.float32)
            hdu = fits.PrimaryHDU(data)
            _tan_header(hdu.header, WCS_CRVAL[name], (f["w"] / 2.0, f["h"] / 2.0), (-0.002, 0.002))
            hdu.writeto(path)
    # multi-TAN inputs: two 32 x 32 images on one tangent plane; HDUs 0, 1, 2 hold different data, key "A" is a second solution
    for i, name in enumerate(("f1.fits", "f2.fits")):
        path = os.path.join(root, name)
        files[name] = path
        hdus = []
        for j in range(3):
            data = np.full((32, 32), 1.0 + i + 10 * j, dtype=np.float32)
            hdu = fits.PrimaryHDU(data) if j == 0 else fits.ImageHDU(data)
            _tan_header(hdu.header, (10.0, 20.0), (16.5 - 32 * i, 16.5), (-0.01, 0.01))
            _tan_header(hdu.header, (50.0, -30.0), (16.5 - 32 * i, 16.5), (-0.01, 0.01), key="A")
            hdus.append(hdu)
        fits.HDUList(hdus).writeto(path)
    files["hp.fits"] = os.path.join(root, "hp.fits")
    open(files["hp.fits"], "wb").close()                      # never read: the HEALPix sampler factory is always the recorder (no healpy here)
    from wwt_data_formats.filecabinet import FileCabinetWriter
    fw = FileCabinetWriter()
    fw.add_file_with_data("55cb0cce-c44a-4a44-a509-ea66fce643a5.wwtxml", WWTL_XML.encode("utf-8"))
    with open(files["sky.png"], "rb") as f:
        fw.add_file_with_data("55cb0cce-c44a-4a44-a509-ea66fce643a5\\7ecb6411-e4ee-4dfa-90ef-77d6f486c7d2.png", f.read())
    files["layer.wwtl"] = os.path.join(root, "layer.wwtl")
    with open(files["layer.wwtl"], "wb") as f:
        fw.emit(f)
    # pyramid templates for cascade / transform: four level-1 tiles
    for tname, make in (("pyr-f16x3", lambda: (rs.rand(256, 256, 3) * 0.9).astype(np.float16)),
                        ("pyr-u8", lambda: (rs.rand(256, 256) * 255).astype(np.uint8))):
        for y in range(2):
            for x in range(2):
                d = os.path.join(root, tname, "1", str(y))
                os.makedirs(d, exist_ok=True)
                np.save(os.path.join(d, "%d_%d.npy" % (y, x)), make())
    return files


# ------------------------------------------------------------------------------------------------
# the recorder and the spies (run inside the worker processes)
# ------------------------------------------------------------------------------------------------
STUB_SHALLOW = {"Builder.toast_base", "Builder.execute_study_tiling", "cascade_images", "f16x3_to_rgb", "u8_to_rgb",
                "MultiTanProcessor.compute_global_pixelization", "MultiTanProcessor.tile", "FitsTiler", "FitsTiler.tile", "preview_wtml",
                "healpix_fits_file_sampler", "Builder.apply_avm_info"}
STUB_DEEP = {"FitsTiler", "FitsTiler.tile", "preview_wtml", "healpix_fits_file_sampler"}
# calls whose presence / absence the command line decides: the set made must be exactly the set specified
STRICT = {"cascade_images", "f16x3_to_rgb", "u8_to_rgb", "Builder.toast_base", "Builder.execute_study_tiling", "MultiTanProcessor.tile", "FitsTiler.tile",
          "preview_wtml", "Builder.set_name", "Builder.write_index_rel_wtml", "Builder.make_placeholder_thumbnail", "Builder.make_thumbnail_from_other",
          "AVM.from_image", "Builder.apply_avm_info", "Builder.apply_wcs_info", "Builder.default_tiled_study_astrometry", "PyramidIO", "PyramidIO#2",
          "Builder.load_from_wwtl", "SimpleFitsCollection", "healpix_fits_file_sampler", "sampler"}
LOADER_ATTRS = ("black_to_transparent", "colorspace_processing", "crop", "psd_single_layer")
COLL_ATTRS = ("blankval", "hdu_index", "wcs_key")


class Recorder(object):
    def __init__(self):
        self.mode = "shallow"
        self.calls = {}        # label -> {param: normalised value}
        self.order = []
        self.objs = {}         # id(object) -> (label, object)   (the object is kept alive so that ids are not reused)
        self.counts = {}
        self.paths = {}        # real path -> ("path" | "dir", abstract name)
        self.resolve = []
        self.image = None
        self.tiler_dir = None
        self.stack = []

    def reset(self, mode):
        self.mode = mode
        self.calls, self.order, self.objs, self.counts, self.resolve, self.image, self.stack = {}, [], {}, {}, [], None, []

    def stubbed(self, name):
        return name in (STUB_DEEP if self.mode == "deep" else STUB_SHALLOW)

    def register(self, obj, label):
        self.objs[id(obj)] = (label, obj)

    def label_of(self, obj):
        e = self.objs.get(id(obj))
        return e[0] if e is not None and e[1] is obj else None

    def norm(self, v):
        import argparse
        import enum
        from fractions import Fraction
        if v is None:
            return {"none": True}
        if isinstance(v, bool):
            return {"bool": v}
        if isinstance(v, enum.Enum):
            return {"enum": v.name}
        if isinstance(v, int):
            return {"int": v}
        if isinstance(v, float):
            fr = Fraction(v).limit_denominator(10000)
            return {"dec": [fr.numerator, fr.denominator]}
        if isinstance(v, str):
            e = self.paths.get(v)
            if e is not None:
                return {e[0]: e[1]}
            return {"str": v}
        lab = self.label_of(v)
        if lab is not None:
            return {"obj": lab}
        if isinstance(v, (list, tuple)):
            return {"list": [self.norm(x) for x in v]}
        if isinstance(v, dict):
            return {"list": [{"str": k} for k in sorted(v)]}
        if isinstance(v, argparse.Namespace):
            return {"obj": "settings"}
        try:
            from astropy.wcs import WCS
            if isinstance(v, WCS):
                cr = tuple(float(x) for x in v.wcs.crval[:2])
                for name, want in WCS_CRVAL.items():
                    if abs(cr[0] - want[0]) < 1e-6 and abs(cr[1] - want[1]) < 1e-6:
                        return {"wcs": name}
                return {"wcs": "?%r" % (cr,)}
        except Exception:  # noqa
            pass
        try:
            import numpy as np
            if isinstance(v, np.ndarray) and self.image is not None and v.shape[:2] == (self.image.height, self.image.width):
                return {"obj": "image"}
        except Exception:  # noqa
            pass
        if callable(v) and hasattr(v, "__name__"):
            return {"fn": v.__name__}
        return {"other": type(v).__name__}

    def record(self, name, args, kw_extra=None):
        n = self.counts.get(name, 0) + 1
        self.counts[name] = n
        label = name if n == 1 else "%s#%d" % (name, n)
        d = dict((k, self.norm(v)) for k, v in args.items())
        if kw_extra:
            for k, v in kw_extra.items():
                d[k] = self.norm(v)
        self.calls[label] = d
        self.order.append(label)
        return label


R = Recorder()


def loader_attrs(loader):
    return dict((a, getattr(loader, a)) for a in LOADER_ATTRS)


def install_spies():
    import inspect
    import toasty.builder
    import toasty.collection
    import toasty.fits_tiler
    import toasty.image
    import toasty.merge
    import toasty.multi_tan
    import toasty.par_util
    import toasty.pyramid
    import toasty.samplers
    import toasty.study
    import toasty.toast
    import toasty.transform
    import wwt_data_formats.server
    import pyavm
    if getattr(toasty.merge, "_g07_spied", False):
        return
    toasty.merge._g07_spied = True

    def spy(owner, attr, name, stub=None, init=False, ret=None, flatten=None, drop_self=False, after=None, nested=False):
        raw = owner.__dict__[attr] if isinstance(owner, type) else getattr(owner, attr)
        is_cm = isinstance(raw, classmethod)
        orig = raw.__func__ if is_cm else raw
        sig = inspect.signature(orig)
        var_kw = [p.name for p in sig.parameters.values() if p.kind == p.VAR_KEYWORD]
        down = inspect.signature(flatten) if flatten is not None else None

        def wrapper(*a, **k):
            extra = None
            if R.stack and not nested:        # a call the library makes for itself, not one the command line makes
                return orig(*a, **k)
            try:
                ba = sig.bind(*a, **k)
                ba.apply_defaults()
                args = dict(ba.arguments)
            except TypeError:
                return orig(*a, **k)          # let the real callee complain
            if init or drop_self or is_cm:
                args.pop("self", None)
                args.pop("cls", None)
            if flatten is not None and var_kw:
                # the callee hands **kwargs on to `flatten`: the effective parameters are those of the downstream signature
                kws = args.pop(var_kw[0])
                extra = {}
                unknown = {}
                for p in down.parameters.values():
                    if p.name in kws:
                        extra[p.name] = kws[p.name]
                    elif p.default is not p.empty and p.name not in args:
                        extra[p.name] = p.default
                for kk, vv in kws.items():
                    if kk not in down.parameters:
                        unknown[kk] = vv
                extra["kwargs_unknown"] = sorted(unknown)
            label = R.record(name, args, extra)
            if init:
                R.register(a[0], label)
            R.stack.append(name)
            try:
                if stub is not None and R.stubbed(name):
                    res = stub(*a, **k)
                else:
                    res = orig(*a, **k)
            finally:
                R.stack.pop()
            if ret is not None and res is not None:
                R.register(res, ret if isinstance(ret, str) else label)
            if after is not None:
                after(res, a, k)
            return res
        wrapper.__name__ = getattr(orig, "__name__", attr)
        wrapper._g07_orig = orig
        setattr(owner, attr, classmethod(wrapper) if is_cm else wrapper)

    B = toasty.builder.Builder
    spy(toasty.pyramid.PyramidIO, "__init__", "PyramidIO", init=True)
    spy(B, "__init__", "Builder", init=True)
    spy(B, "toast_base", "Builder.toast_base", stub=lambda self, *a, **k: self, flatten=toasty.toast.sample_layer)
    spy(B, "set_name", "Builder.set_name")
    spy(B, "make_placeholder_thumbnail", "Builder.make_placeholder_thumbnail")
    spy(B, "make_thumbnail_from_other", "Builder.make_thumbnail_from_other")
    spy(B, "prepare_study_tiling", "Builder.prepare_study_tiling")
    spy(B, "execute_study_tiling", "Builder.execute_study_tiling", stub=lambda self, *a, **k: self, flatten=toasty.study.StudyTiling.tile_image)
    spy(B, "apply_avm_info", "Builder.apply_avm_info", stub=lambda self, *a, **k: self)
    spy(B, "apply_wcs_info", "Builder.apply_wcs_info")
    spy(B, "default_tiled_study_astrometry", "Builder.default_tiled_study_astrometry")
    spy(B, "load_from_wwtl", "Builder.load_from_wwtl")
    spy(B, "write_index_rel_wtml", "Builder.write_index_rel_wtml")
    spy(toasty.study.StudyTiling, "__init__", "StudyTiling", init=True, nested=True)
    spy(toasty.merge, "cascade_images", "cascade_images", stub=lambda *a, **k: None)
    spy(toasty.transform, "f16x3_to_rgb", "f16x3_to_rgb", stub=lambda *a, **k: None, flatten=toasty.transform._do_a_transform)
    spy(toasty.transform, "u8_to_rgb", "u8_to_rgb", stub=lambda *a, **k: None, flatten=toasty.transform._do_a_transform)
    spy(toasty.collection.SimpleFitsCollection, "__init__", "SimpleFitsCollection", init=True)
    M = toasty.multi_tan.MultiTanProcessor
    spy(M, "__init__", "MultiTanProcessor", init=True)
    spy(M, "compute_global_pixelization", "MultiTanProcessor.compute_global_pixelization", stub=lambda self, *a, **k: None)
    spy(M, "tile", "MultiTanProcessor.tile", stub=lambda self, *a, **k: None)
    F = toasty.fits_tiler.FitsTiler

    def tiler_init(self, coll, out_dir=None, tiling_method=None, add_place_for_toast=True):
        self.coll, self.tiling_method, self.add_place_for_toast = coll, tiling_method, add_place_for_toast
        self.out_dir = R.tiler_dir
    spy(F, "__init__", "FitsTiler", init=True, stub=tiler_init)
    spy(F, "tile", "FitsTiler.tile", stub=lambda self, *a, **k: self)
    spy(wwt_data_formats.server, "preview_wtml", "preview_wtml", stub=lambda *a, **k: None)

    def dummy_sampler(*a, **k):
        def vec2pix(lon, lat):
            raise RuntimeError("G07 harness: the HEALPix sampler is a recorder")
        return vec2pix
    spy(toasty.samplers, "healpix_fits_file_sampler", "healpix_fits_file_sampler", stub=dummy_sampler, ret=True)
    for fname in ("plate_carree_sampler", "plate_carree_galactic_sampler", "plate_carree_ecliptic_sampler", "plate_carree_planet_sampler",
                  "plate_carree_planet_zeroleft_sampler", "plate_carree_zeroright_sampler"):
        orig = getattr(toasty.samplers, fname)

        def factory(data, _orig=orig, _fname=fname):
            R.record("sampler", {"data": data}, {"factory": _orig})
            res = _orig(data)
            R.register(res, "sampler")
            return res
        factory.__name__ = fname
        setattr(toasty.samplers, fname, factory)
    L = toasty.image.ImageLoader
    cfa = L.__dict__["create_from_args"].__func__

    def by_command_line():
        return not R.stack or R.stack == ["Builder.load_from_wwtl"]

    def create_from_args(cls, settings):
        loader = cfa(cls, settings)
        if by_command_line():
            R.record("ImageLoader", loader_attrs(loader))
            R.register(loader, "ImageLoader")
        return loader
    L.create_from_args = classmethod(create_from_args)

    def loaded(res, a, k):
        if R.image is None:                      # the image the command line names (tiles the library reads back later are not)
            R.image = res
            R.register(res, "image")
    for meth in ("load_path", "load_stream"):
        orig = L.__dict__[meth]

        def load(self, arg, _orig=orig, _meth=meth):
            if not by_command_line():
                return _orig(self, arg)
            if R.label_of(self) is None:         # a loader made without create_from_args (check-avm)
                R.record("ImageLoader", loader_attrs(self))
                R.register(self, "ImageLoader")
            if _meth == "load_path" or "ImageLoader.load_path" not in R.calls:
                R.record("ImageLoader." + _meth, {"self": self, ("path" if _meth == "load_path" else "stream"): arg})
            res = _orig(self, arg)
            loaded(res, None, None)
            return res
        setattr(L, meth, load)
    spy(pyavm.AVM, "from_image", "AVM.from_image", ret=True)
    rp = toasty.par_util.resolve_parallelism

    def resolve_parallelism(parallel):
        R.resolve.append(R.norm(parallel))
        return rp(parallel)
    toasty.par_util.resolve_parallelism = resolve_parallelism


def proc_snapshot():
    import warnings
    import toasty.collection
    import toasty.image
    import toasty.par_util
    from PIL import Image as pil_image
    return {"loader": dict((a, R.norm(getattr(toasty.image.ImageLoader, a))) for a in LOADER_ATTRS),
            "coll": dict((a, R.norm(getattr(toasty.collection.CollectionLoader, a))) for a in COLL_ATTRS),
            "maxpix": pil_image.MAX_IMAGE_PIXELS,
            "infomsg": toasty.par_util.SHOW_INFORMATIONAL_MESSAGES,
            "cwd": os.getcwd(), "environ": sorted(os.environ.items()), "nfilters": len(warnings.filters), "argv": list(sys.argv)}


# ------------------------------------------------------------------------------------------------
# rendering a case to argv, running it, describing what happened
# ------------------------------------------------------------------------------------------------
def token(v, files, dirs):
    (k, x), = v.items()
    if k in ("int",):
        return [str(x)]
    if k in ("str", "junk"):
        return [x]
    if k == "dec":
        return [repr(x[0] / float(x[1]))]
    if k in ("ints", "keys"):
        return [",".join(str(e) for e in x)]
    if k == "path":
        return [files[x]]
    if k == "dir":
        return [dirs[x]]
    if k == "list":
        out = []
        for e in x:
            out += token(e, files, dirs)
        return out
    raise ValueError(v)


def render(case, tables, files, dirs, rng):
    decls = dict((d["o"], d) for d in tables["subs"][case["sub"]]["decls"])
    order = [d["o"] for d in tables["subs"][case["sub"]]["decls"]]
    opts, pos = [], []
    for o, v in case["asg"]:
        d = decls.get(o)
        if d is not None and d["pos"]:
            continue
        name = o
        alias = tables["aliases"].get(o)
        if alias and d is not None and rng.random() < 0.3:
            name = alias
        if "flag" in v:
            opts.append([name])
        else:
            t = token(v, files, dirs)
            if name.startswith("--") and len(t) == 1 and rng.random() < 0.4:
                opts.append([name + "=" + t[0]])
            else:
                opts.append([name] + t)
    rng.shuffle(opts)
    asg = dict(case["asg"])
    for o in order:
        if decls[o]["pos"] and o in asg:
            pos += token(asg[o], files, dirs)
    flat = [t for o in opts for t in o]
    body = flat + pos if (rng.random() < 0.6 or not pos) else pos + flat
    return case["sub"].split(" ") + body


def run_case(case, argv, files, dirs_for):
    """Runs entrypoint(argv) under the spies; -> observation dict (everything normalised, JSON-able)."""
    from toasty import cli
    mode = case["mode"]
    R.reset(mode)
    import signal
    before = proc_snapshot()
    out, err = io.StringIO(), io.StringIO()
    exit_code, exc = 0, None

    def on_alarm(_s, _f):
        raise TimeoutError("G07 harness: the invocation did not finish within 180 s")
    old = signal.signal(signal.SIGALRM, on_alarm)
    signal.alarm(180)
    try:
        with contextlib.redirect_stdout(out), contextlib.redirect_stderr(err):
            cli.entrypoint(list(argv))
    except SystemExit as e:
        exit_code = 0 if e.code is None else (e.code if isinstance(e.code, int) else 1)
    except BaseException as e:  # noqa
        if isinstance(e, KeyboardInterrupt):
            raise
        exit_code, exc = 99, "%s: %s" % (type(e).__name__, str(e)[:300])
    finally:
        signal.alarm(0)
        signal.signal(signal.SIGALRM, old)
    after = proc_snapshot()
    obs = {"exit": exit_code, "exc": exc, "calls": R.calls, "order": R.order, "resolve": list(R.resolve), "stderr": err.getvalue()[-400:],
           "proc_changed": [k for k in before if before[k] != after[k]], "proc": {"loader": after["loader"], "coll": after["coll"],
                                                                                 "maxpix": after["maxpix"], "infomsg": after["infomsg"]},
           "proc_was": dict((k, (before[k], after[k])) for k in before if before[k] != after[k] and k != "environ")}
    img = R.image
    if img is not None:
        obs["image"] = {"mode": {"str": img.mode.value}, "width": {"int": int(img.width)}, "height": {"int": int(img.height)},
                        "default_format": {"str": img.default_format}}
    obs["tiler_index"] = os.path.join(R.tiler_dir, "index_rel.wtml")
    return obs


def short_token(t):
    if os.sep not in t:
        return t
    if t.startswith("-") and "=" in t:
        return t.split("=", 1)[0] + "=" + os.path.basename(t.split("=", 1)[1])
    return os.path.basename(t)


def read_wtml(d):
    import xml.etree.ElementTree as ET
    path = os.path.join(d, "index_rel.wtml")
    if not os.path.exists(path):
        return None
    root = ET.parse(path).getroot()
    sets = list(root.iter("ImageSet"))
    places = list(root.iter("Place"))
    e = sets[0] if sets else None
    res = {"n": len(sets), "name": e.get("Name") if e is not None else None, "dataset_type": e.get("DataSetType") if e is not None else None,
           "levels": e.get("TileLevels") if e is not None else None, "place_name": places[0].get("Name") if places else None,
           "folder_name": root.get("Name")}
    thumb = os.path.join(d, "thumb.jpg")
    if os.path.exists(thumb):
        import numpy as np
        from PIL import Image as PILImage
        with PILImage.open(thumb) as im:
            res["thumb"] = "placeholder" if int(np.asarray(im).max()) < 16 else "image"
            res["thumb_size"] = list(im.size)
    return res


# ------------------------------------------------------------------------------------------------
# worker
# ------------------------------------------------------------------------------------------------
_W = {}


def _worker_setup(wid, scratch, files, tables):
    repo.setup()
    import warnings
    warnings.simplefilter("ignore")
    os.environ["SLURM_NPROCS"] = "2"          # an unrequested parallelism resolves to 2 workers, not to every core of the box
    root = os.path.join(scratch, "w%d" % wid)
    os.makedirs(os.path.join(root, "cwd"), exist_ok=True)
    os.chdir(os.path.join(root, "cwd"))
    install_spies()
    R.tiler_dir = os.path.join(root, "tiled")
    os.makedirs(R.tiler_dir, exist_ok=True)
    R.paths = dict((p, ("path", n)) for n, p in files.items())
    _W.update(root=root, files=dict(files), tables=tables)
    for n in ("outA", "outB", "pyr"):
        R.paths[os.path.join(root, n)] = ("dir", n)
    files = _W["files"]
    files["thumb-out.jpg"] = os.path.join(root, "thumb-out.jpg")
    R.paths[files["thumb-out.jpg"]] = ("path", "thumb-out.jpg")


def _fresh_dirs(sub, deep):
    root = _W["root"]
    dirs = dict((n, os.path.join(root, n)) for n in ("outA", "outB", "pyr"))
    for n in ("outA", "outB"):
        shutil.rmtree(dirs[n], ignore_errors=True)
    for fn in os.listdir(os.path.join(root, "cwd")):
        p = os.path.join(root, "cwd", fn)
        shutil.rmtree(p, ignore_errors=True) if os.path.isdir(p) else os.remove(p)
    if os.path.exists(_W["files"]["thumb-out.jpg"]):
        os.remove(_W["files"]["thumb-out.jpg"])
    if deep or not os.path.isdir(dirs["pyr"]):
        shutil.rmtree(dirs["pyr"], ignore_errors=True)
        src = "pyr-u8" if sub == "transform u8-to-rgb" else "pyr-f16x3"
        shutil.copytree(os.path.join(os.path.dirname(_W["files"]["sky.png"]), src), dirs["pyr"])
    return dirs


def replay_chunk(job):
    """job = (wid, scratch, files, tables, seed, [(index, case)])  ->  [(index, argv, obs, artefacts)]"""
    import random
    wid, scratch, files, tables, seed, items = job
    if not _W:
        _worker_setup(wid, scratch, files, tables)
    rng = random.Random(seed * 1000 + wid)
    out = []
    for index, case in items:
        deep = case["mode"] == "deep"
        dirs = _fresh_dirs(case["sub"], deep)
        argv = render(case, tables, _W["files"], dirs, rng)
        t0 = time.time()
        obs = run_case(case, argv, _W["files"], dirs)
        obs["wall"] = round(time.time() - t0, 3)
        art = {}
        asg = dict(case["asg"])
        where = dirs[asg["--outdir"]["dir"]] if "--outdir" in asg and "dir" in asg["--outdir"] else os.path.join(_W["root"], "cwd")
        art["wtml"] = read_wtml(where)
        art["wtml_dir"] = where
        art["stray"] = sorted(n for n in ("outA", "outB") if os.path.isdir(dirs[n]) and dirs[n] != where and os.listdir(dirs[n]))
        tpath = _W["files"]["thumb-out.jpg"]
        if os.path.exists(tpath):
            from PIL import Image as PILImage
            with PILImage.open(tpath) as im:
                art["written"] = {"format": im.format, "size": list(im.size)}
        art["pngs_in"] = dict((n, sum(1 for _r, _d, fs in os.walk(dirs[n]) for f in fs if f.endswith((".png", ".jpg")))) for n in ("pyr", "outA", "outB") if os.path.isdir(dirs[n]))
        out.append((index, argv, obs, art))
    return out


def _warm():
    time.sleep(0.3)
    return os.getpid()


def _quiet_worker():
    devnull = os.open(os.devnull, os.O_WRONLY)
    os.dup2(devnull, 1)
    os.dup2(devnull, 2)


# ------------------------------------------------------------------------------------------------
# comparison of one case with TLC's expectation
# ------------------------------------------------------------------------------------------------
def same(a, b):
    if a == b:
        return True
    for x, y in ((a, b), (b, a)):
        if "int" in x and "dec" in y and list(y["dec"]) == [x["int"], 1]:
            return True
    if "list" in a and "list" in b and len(a["list"]) == len(b["list"]):
        return all(same(x, y) for x, y in zip(a["list"], b["list"]))
    return False


def resolve_ref(v, obs):
    if "ref" not in v:
        return v
    what = v["ref"]
    if what.startswith("image.") and obs.get("image"):
        return obs["image"][what.split(".", 1)[1]]
    if what == "tiler.index_rel":
        return {"str": obs["tiler_index"]}
    return {"unresolved": what}


def option_of(tables, sub, call, param):
    for d in tables["subs"][sub]["decls"]:
        if [call, param] in d["dest"]:
            return d["o"]
    return None


def compare(case, exp, obs, art, tables):
    """-> list of (severity 'V' | 'D', key, message)"""
    sub, eff = case["sub"], exp["eff"]
    out = []
    deep = case["mode"] == "deep"
    asg = dict(case["asg"])
    want_exit = eff["exit"]
    stubbed_raise = eff["status"] == "raise" and eff["by"] in (STUB_DEEP if deep else STUB_SHALLOW)
    if stubbed_raise:
        want_exit = 0
    if obs["exit"] != want_exit:
        kind = {"usage": "rejection", "die": "clean-error", "raise": "failure", "ok": "completion"}[eff["status"]]
        out.append(("V", "G07:%s:%s" % (sub, kind), "specified: %s (exit %s%s); the command ended with exit %s%s"
                    % (eff["status"], want_exit, ", raised by " + eff["by"] if eff["by"] else "", obs["exit"],
                       " - " + obs["exc"] if obs["exc"] else (" - " + obs["stderr"].strip().splitlines()[-1] if obs["stderr"].strip() else ""))))
        if eff["status"] in ("usage",) or obs["exit"] == 2:
            return out
    ecalls = eff["calls"] if isinstance(eff["calls"], dict) else {}
    acalls = obs["calls"]
    for name in sorted((set(ecalls) | set(acalls)) & STRICT):
        if name in ecalls and name not in acalls:
            out.append(("V", "G07:%s:call-missing" % sub, "the library entry point %s was not called" % name))
        elif name in acalls and name not in ecalls:
            out.append(("V", "G07:%s:call-unexpected" % sub, "the library entry point %s was called (received %s); the specified command does not call it"
                        % (name, json.dumps(acalls[name], sort_keys=True)[:200])))
    for name, eargs in sorted(ecalls.items()):
        if name not in acalls:
            if name not in STRICT:
                out.append(("D", "call-missing", "%s was not called" % name))
            continue
        aargs = acalls[name]
        for p, ev in sorted(eargs.items()):
            if p == "kwargs":
                continue                      # judged below
            ev = resolve_ref(ev, obs)
            if p not in aargs:
                out.append(("D", "parameter-unknown", "%s has no parameter %s any more" % (name, p)))
                continue
            if not same(ev, aargs[p]):
                o = option_of(tables, sub, name, p)
                msg = "%s received %s = %s, specified %s" % (name, p, json.dumps(aargs[p], sort_keys=True), json.dumps(ev, sort_keys=True))
                if o is not None:
                    how = "given as %s" % json.dumps(asg[o], sort_keys=True) if o in asg else "omitted"
                    out.append(("V", "G07:%s:%s" % (sub, o), "%s (option %s, %s)" % (msg, o, how)))
                elif p in ("self", "pio", "pio_out", "image", "thumbnail_image", "tiling", "collection", "coll", "builder", "sampler", "avm", "data", "wcs"):
                    out.append(("V", "G07:%s:wiring" % sub, msg))
                else:
                    out.append(("D", "fixed-parameter", msg))
        for kw in ("kwargs", "kwargs_unknown"):
            got = aargs.get(kw)
            if got and got != {"list": []} and got != []:
                out.append(("V", "G07:%s:swallowed-keyword" % sub, "%s was handed keyword(s) %s that it does not know and swallows in **kwargs"
                            % (name, json.dumps(got))))
    efacts = eff["facts"] if isinstance(eff["facts"], dict) else {}
    if "image" in efacts and obs.get("image") is not None:
        for k, ev in sorted(efacts["image"].items()):
            if not same(ev, obs["image"][k]):
                out.append(("V", "G07:%s:loaded-image" % sub, "the loaded image has %s = %s, specified %s (loader options %s)"
                            % (k, json.dumps(obs["image"][k]), json.dumps(ev), json.dumps(acalls.get("ImageLoader"), sort_keys=True))))
    if "written" in efacts and eff["status"] == "ok":
        w = art.get("written")
        if not w or w["format"] != "JPEG" or w["size"][0] > 96 or w["size"][1] > 45:
            out.append(("V", "G07:%s:output-file" % sub, "the output file holds %r, expected a JPEG thumbnail of at most 96 x 45" % (w,)))
    if deep and eff["status"] in ("ok", "raise"):
        if "resolve_parallelism" in efacts and (eff["status"] == "ok" or not stubbed_raise):
            want = efacts["resolve_parallelism"]["list"]
            if len(want) != len(obs["resolve"]) or not all(same(a, b) for a, b in zip(want, obs["resolve"])):
                out.append(("V", "G07:%s:--parallelism" % sub, "resolve_parallelism received %s, specified %s" % (json.dumps(obs["resolve"]), json.dumps(want))))
    if eff["status"] == "ok" and "wtml" in efacts:
        w = art["wtml"]
        ew = efacts["wtml"]
        if w is None:
            out.append(("V", "G07:%s:--outdir" % sub, "no index_rel.wtml in the output directory %s" % art["wtml_dir"]))
        else:
            if w["name"] != ew["name"]["str"]:
                out.append(("V", "G07:%s:--name" % sub, "index_rel.wtml names the image set %r, specified %r" % (w["name"], ew["name"]["str"])))
            if "thumb" in ew and w.get("thumb") != ew["thumb"]["str"]:
                out.append(("V", "G07:%s:--placeholder-thumbnail" % sub, "thumb.jpg is %r, specified %r" % (w.get("thumb"), ew["thumb"]["str"])))
            if deep and "dataset_type" in ew and w["dataset_type"] != ew["dataset_type"]["str"]:
                out.append(("V", "G07:%s:--projection" % sub, "index_rel.wtml has DataSetType %r, specified %r" % (w["dataset_type"], ew["dataset_type"]["str"])))
            if deep and "levels" in ew and str(w["levels"]) != str(ew["levels"]["int"]):
                out.append(("V", "G07:%s:DEPTH" % sub, "index_rel.wtml has TileLevels %r, specified %r" % (w["levels"], ew["levels"]["int"])))
        if art["stray"]:
            out.append(("V", "G07:%s:--outdir" % sub, "files were written into %s, which the command line does not name" % art["stray"]))
    if deep and eff["status"] == "ok" and sub.startswith("transform"):
        target = "outA" if asg.get("--outdir", {}).get("dir") == "outA" else ("outB" if "--outdir" in asg else "pyr")
        n = art["pngs_in"].get(target, 0)
        others = dict((k, v) for k, v in art["pngs_in"].items() if k != target and v)
        if (asg.get("--start", {}).get("int", 0) >= 1 and n == 0) or others:
            out.append(("V", "G07:%s:--outdir" % sub, "transformed tiles per directory: %r; they belong in %s" % (art["pngs_in"], target)))
    # the process after the invocation
    if obs["proc_changed"]:
        out.append(("V", "G07:process-state", "the invocation changed %s of the process: %s" % (obs["proc_changed"], json.dumps(obs["proc_was"], default=repr)[:300])))
    ep = exp["after"]
    if obs["proc"]["loader"] != ep["loader"] or obs["proc"]["coll"] != ep["coll"] or obs["proc"]["infomsg"] != ep["infomsg"]:
        out.append(("V", "G07:process-state", "class attributes after the invocation: %s; specified %s"
                    % (json.dumps(obs["proc"], sort_keys=True, default=repr)[:300], json.dumps(ep, sort_keys=True)[:300])))
    return out


# ------------------------------------------------------------------------------------------------
def run(ctx):
    repo.setup(ctx)
    import concurrent.futures as cf
    import multiprocessing as mp
    quick = ctx.quick
    t0 = time.time()
    bfs_level, bfs_foreign = (0, 1) if quick else (1, 99)
    case_level = 1 if quick else 2
    n_random = 30 if quick else 500
    deep_per_sub = 4 if quick else 60
    n_hist_inv, maxinv = (14, 2) if quick else (22, 3)
    nworkers = 6
    ctx.rule = ("TLC: every (subcommand, option subset, value) of the 11 modelled subcommands - values incl. tokens argparse / the loaders refuse, plus one "
                "undeclared option - all theorems as invariants (quick: value level 0; thorough: level 1 with an undeclared option on every assignment and "
                "level 2); witnesses for the six refuted ideals; histories of %d invocations in one process.  Replay: for every subcommand the positionals "
                "alone, each positional missing, every option alone with every value, every pair of options, all options, all but one, every undeclared "
                "option, seeded random assignments (shallow: heavy stages recorded) and seeded end-to-end cases on tiny inputs (deep); expected effective "
                "calls evaluated by TLC for every case.  distinct = distinct (subcommand, assignment, mode)" % maxinv)

    # ---- 1. the tables (inputs are enumerated from them)
    tdir = ctx.mkdtemp("tables")
    tout = os.path.join(tdir, "tables.json")
    name = "MCG07Tables"
    ctx.tlc(name, extra={name + ".tla": tla.module(name, ["MCCliBinding", "IOUtils"], ["ASSUME JsonSerialize(IOEnv.OUT, Tables)"])},
            cfg_text=cfg_text("HistSpec", case_level, 99, []), env={"OUT": tout}, workers=1, timeout=300, count=False)
    tables = json.load(open(tout))
    files = make_inputs(os.path.join(ctx.scratch, "inputs"), tables)

    # worker processes (forked before any thread exists)
    pool = cf.ProcessPoolExecutor(max_workers=nworkers, mp_context=mp.get_context("fork"), initializer=_quiet_worker)
    try:
        set(f.result() for f in [pool.submit(_warm) for _ in range(nworkers)])
        tex = cf.ThreadPoolExecutor(max_workers=8)
        # ---- 2. the theorems over the whole space (background)
        def tlc_space(level, foreign, tag):
            nm = "MCG07Space" + tag
            return ctx.tlc(nm, extra={nm + ".tla": tla.module(nm, ["MCCliBinding"], [])},
                           cfg_text=cfg_text("SpaceSpec", level, foreign, SPACE_INVARIANTS + ["Witness"]), workers=4 if quick else 8, timeout=7200)
        f_space = [tex.submit(tlc_space, bfs_level, bfs_foreign, "L%d" % bfs_level)]
        if not quick:
            f_space.append(tex.submit(tlc_space, 2, 2, "L2"))

        # ---- 3. cases and their expected effective calls
        cases = build_cases(tables, ctx.rng, n_random, pair_values=not quick)
        deep = deep_candidates(tables, ctx.rng, deep_per_sub)
        known = set(case_key(c) for c in cases)
        cases += [c for c in deep if case_key(c) not in known]
        # the harness's renderings assume that no undeclared option is an abbreviation of a declared one
        for sub, t in tables["subs"].items():
            for o in t["foreign"]:
                if any(d["o"].startswith(o) for d in t["decls"]):
                    ctx.machinery("undeclared option %s is a prefix of an option %s declares: argparse would accept it as an abbreviation" % (o, sub))
        name = "MCG07Cases"
        eout = os.path.join(tdir, "expected.json")
        defs = [("Cases", "<<" + ",\n  ".join(case_tla(c) for c in cases) + ">>"), "ASSUME JsonSerialize(IOEnv.OUT, Expected(Cases))"]
        ctx.tlc(name, extra={name + ".tla": tla.module(name, ["MCCliBinding", "IOUtils"], defs)}, cfg_text=cfg_text("HistSpec", case_level, 99, []),
                env={"OUT": eout}, workers=1, timeout=1800, count=False)
        expected = json.load(open(eout))
        if len(expected) != len(cases):
            ctx.machinery("TLC evaluated %d cases, %d were given" % (len(expected), len(cases)))
        outside = [c for c, e in zip(cases, expected) if not e["inspace"]]
        if outside:
            ctx.machinery("%d cases lie outside the space the specification walks, e.g. %s" % (len(outside), outside[0]))

        # ---- 4. histories: invocations drawn from the case list (rich and minimal assignments of every subcommand)
        inv_idx = []
        by_sub = {}
        for i, (c, e) in enumerate(zip(cases, expected)):
            if c["mode"] == "shallow" and c["why"] in ("all options", "single option", "positionals only"):
                by_sub.setdefault(c["sub"], []).append(i)
        for sub in sorted(by_sub):
            lst = by_sub[sub]
            inv_idx += [lst[-1], lst[len(lst) // 2]] if len(lst) > 1 else lst
        crop_first = [i for i in inv_idx if any(o == "--crop" for o, _v in cases[i]["asg"]) and expected[i]["eff"]["status"] == "ok"]
        inv_idx = (crop_first + [i for i in inv_idx if i not in crop_first])[:n_hist_inv]
        invs_def = ("MCInvs", "<<" + ",\n  ".join(case_tla(cases[i]) for i in inv_idx) + ">>")

        def tlc_hist(leaky):
            nm = "MCG07Hist" + ("Leaky" if leaky else "")
            return ctx.tlc(nm, extra={nm + ".tla": tla.module(nm, ["MCCliBinding"], [invs_def])},
                           cfg_text=cfg_text("HistSpec", case_level, 99, ["NoCarryOver"] + ([] if leaky else ["ProcStable"]), leaky=leaky, maxinv=maxinv, invs="MCInvs"),
                           workers=2, timeout=3600, expect_violation=leaky, count=not leaky)
        f_hist = tex.submit(tlc_hist, False)
        f_leaky = tex.submit(tlc_hist, True)

        # ---- 5. replay
        order = list(range(len(cases)))
        ctx.rng.shuffle(order)
        # explicit histories: triples of the history invocations, back to back in one process
        hist_runs = []
        for _ in range(30 if quick else 200):
            hist_runs.append([ctx.rng.choice(inv_idx) for _k in range(3)])
        shallow = [i for i in order if cases[i]["mode"] == "shallow"]
        deeps = [i for i in order if cases[i]["mode"] == "deep"]
        chunks = [[] for _ in range(nworkers)]
        for n, i in enumerate(shallow):
            chunks[n % nworkers].append((i, cases[i]))
        for n, h in enumerate(hist_runs):
            chunks[n % nworkers] += [(i, cases[i]) for i in h]
        for n, i in enumerate(deeps):               # deep cases are interleaved with the shallow ones
            ch = chunks[n % nworkers]
            ch.insert(ctx.rng.randrange(len(ch) + 1), (i, cases[i]))
        futs = [pool.submit(replay_chunk, (w, ctx.scratch, files, tables, ctx.seed, chunks[w])) for w in range(nworkers)]
        results = []
        for f in futs:
            results += f.result()
        t_replay = time.time() - t0

        nviol = {}
        stats = {"shallow": 0, "deep": 0, "by_status": {}, "by_sub": {}}
        prev_by_worker = {}
        observations = {"uninterpolated_messages": set(), "slowest": (0, None)}
        for w in range(nworkers):
            prev = []
            for (index, case) in chunks[w]:
                prev_by_worker[(w, len(prev))] = list(prev[-2:])
                prev.append(index)
        pos_in = {}
        for w in range(nworkers):
            for n, (index, case) in enumerate(chunks[w]):
                pos_in.setdefault(index, []).append((w, n))
        seen_pos = {}
        for (index, argv, obs, art) in results:
            case, exp = cases[index], expected[index]
            k = seen_pos.get(index, 0)
            seen_pos[index] = k + 1
            w, n = pos_in[index][min(k, len(pos_in[index]) - 1)]
            before = [" ".join(short_token(t) for t in render(cases[j], tables, dict((a, a) for a in list(files) + ["thumb-out.jpg"]),
                                                                     {"outA": "outA", "outB": "outB", "pyr": "pyr"}, __import__("random").Random(1)))
                      for j in prev_by_worker.get((w, n), [])]
            ctx.count()
            ctx.trace_ok()
            ctx.distinct(repr(case_key(case)))
            stats[case["mode"]] += 1
            st = exp["eff"]["status"]
            stats["by_status"][st] = stats["by_status"].get(st, 0) + 1
            stats["by_sub"][case["sub"]] = stats["by_sub"].get(case["sub"], 0) + 1
            if obs["exc"] and "{settings." in obs["exc"]:
                observations["uninterpolated_messages"].add(obs["exc"][:160])
            if obs["wall"] > observations["slowest"][0]:
                observations["slowest"] = (obs["wall"], " ".join(argv[:3]))
            shown = " ".join(short_token(t) for t in argv)
            for sev, key, msg in compare(case, exp, obs, art, tables):
                text = "toasty %s [%s]: %s%s" % (shown, case["mode"], msg, (" (earlier in this process: %s)" % "; ".join(before)) if before else "")
                if sev == "V":
                    nviol[key] = nviol.get(key, 0) + 1
                    ctx.violation(key, text, {"argv": argv, "case": case, "expected": exp["eff"], "observed_calls": obs["calls"], "exit": obs["exit"],
                                              "exception": obs["exc"], "previous_invocations_in_process": before})
                else:
                    ctx.drift("%s: %s" % (key, text))
        if len(results) != sum(len(c) for c in chunks):
            ctx.machinery("replayed %d of %d invocations" % (len(results), sum(len(c) for c in chunks)))
        for need in ("ok", "usage", "raise", "die"):
            if stats["by_status"].get(need, 0) < 5:
                ctx.machinery("only %d replayed cases are specified to end %r: the case list has lost that class" % (stats["by_status"].get(need, 0), need))

        # ---- 6. TLC results
        r_hist = f_hist.result()
        r_leaky = f_leaky.result()
        if r_leaky.violated != "NoCarryOver":
            ctx.machinery("the Leaky variant (loader attributes stored on the class) does not refute NoCarryOver (TLC says %r): the history theorem has lost its teeth"
                          % r_leaky.violated)
        spaces = [f.result() for f in f_space]
        wit = {}
        for r in spaces[:1]:
            for rec in r.json_lines("R"):
                cur = wit.get(rec["ideal"])
                n = len(rec["asg"]) if isinstance(rec["asg"], dict) else 0
                if cur is None or n < cur[0]:
                    wit[rec["ideal"]] = (n, rec)
        refuted = {}
        for ideal in IDEALS:
            if ideal not in wit:
                ctx.machinery("no reachable state refutes the ideal statement %s: the model has lost the as-built deviation it is meant to expose" % ideal)
            rec = wit[ideal][1]
            asg = sorted(rec["asg"].items()) if isinstance(rec["asg"], dict) else []
            refuted[ideal] = {"witness_command": "toasty " + " ".join(render({"sub": rec["sub"], "asg": asg}, tables, dict((a, a) for a in list(files) + ["thumb-out.jpg"]),
                                                                             {"outA": "outA", "outB": "outB", "pyr": "pyr"}, __import__("random").Random(1))),
                              "ends": rec["status"] + (" in " + rec["by"] if rec["by"] else "")}
        if not quick:
            def tlc_refute(ideal):
                nm = "MCG07Not" + ideal
                return ctx.tlc(nm, extra={nm + ".tla": tla.module(nm, ["MCCliBinding"], [])}, cfg_text=cfg_text("SpaceSpec", 0, 0, [ideal]),
                               workers=1, timeout=1800, expect_violation=True, count=False)
            for ideal, r in zip(IDEALS, list(tex.map(tlc_refute, IDEALS))):
                if r.violated != ideal:
                    ctx.machinery("TLC does not refute %s as an invariant (it reports %r)" % (ideal, r.violated))
                refuted[ideal]["refuted_as_invariant"] = True
        tex.shutdown(wait=True)
    finally:
        pool.shutdown(wait=True, cancel_futures=True)

    ctx.exhaustive = False      # TLC walks the whole space; the replayed cases are a covering subset of it (rule above)
    ctx.note("tlc_space", [{"level": lv, "undeclared_option_on_assignments_of_up_to": fo, "distinct_states": r.distinct, "invariants": SPACE_INVARIANTS}
                           for (lv, fo), r in zip([(bfs_level, bfs_foreign), (2, 2)], spaces)])
    ctx.note("tlc_histories", {"invocations": len(inv_idx), "max_per_process": maxinv, "distinct_states": r_hist.distinct, "invariants": ["NoCarryOver", "ProcStable"],
                               "leaky_variant_refutes": r_leaky.violated})
    ctx.note("tlc_refuted_ideals", refuted)
    ctx.note("replayed", {"cases": len(cases), "invocations": len(results), "shallow": stats["shallow"], "deep": stats["deep"],
                          "explicit_histories_of_3": len(hist_runs), "by_specified_status": stats["by_status"], "by_subcommand": stats["by_sub"],
                          "slowest_invocation_s": observations["slowest"]})
    ctx.note("as_built_deviations", {
        "default_not_library_default": "view passes wcs_key=None where SimpleFitsCollection defaults to ' ' (None is treated alike); until commit 4ee13a7 tile-multi-tan passed hdu_index=0 where the library default None means 'first HDU holding an image'",
        "suppressed_options": "view --browser/--appurl have no effect with --tile-only; tile-study --fits-wcs has none with --avm/--avm-from (no message)",
        "needed_option": "transform fx3-to-rgb / u8-to-rgb without --start call the library with depth None: TypeError after the parallelism was decided (cascade dies with a message)",
        "crop_ignored_for_arrays": "--crop / --black-to-transparent are accepted and unused for FITS (and .npy / .exr) inputs",
        "name_default_overrides_avm_title": "tile-study --avm without --name writes Name='Toasty': set_name(settings.name) overwrites the Title apply_avm_info stored",
        "study_fits_thumbnail": "tile-study of a FITS image without --placeholder-thumbnail raises 'cannot thumbnail-ify non-RGB Image'",
        "uninterpolated_error_messages": sorted(observations["uninterpolated_messages"])[:4]})
    ctx.note("phase_wall_s", {"replay_done": round(t_replay, 1), "all_done": round(time.time() - t0, 1)})
    picks = [i for i in range(len(cases)) if cases[i]["why"] in ("all options", "end to end")]
    for i in picks[:2] + picks[len(picks) // 2: len(picks) // 2 + 2] + picks[-2:]:
        ctx.sample({"subcommand": cases[i]["sub"], "options": dict(cases[i]["asg"]), "mode": cases[i]["mode"], "specified": {"status": expected[i]["eff"]["status"],
                    "calls": expected[i]["eff"]["calls"], "facts": expected[i]["eff"]["facts"]}})
    ctx.assume("the heavy stages are replaced by recorders in shallow cases; deep cases run them on tiny inputs (60 x 40 PNG, 48 x 32 / 32 x 32 FITS, four level-1 tiles) "
               "with SLURM_NPROCS=2; `toasty view` is exercised in local mode with FitsTiler and preview_wtml recorded; tile-healpix with the sampler factory recorded "
               "(no healpy here); --tunnel, pipeline-* and show are outside the model")
    ctx.assume("AVM tags whose aspect ratio differs from the cropped image (pyavm refuses them) are outside the model: apply_avm_info is recorded in shallow cases and "
               "deep cases do not combine --crop with --avm")
