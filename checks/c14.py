"""C14 - FITS pyramids carry the leaves' true data range up to the root and the WTML.

Spec: the range part of spec/Cascade.tla (tile record field `rng`; LeafRange0 = what Image.save records for a leaf
written without an explicit range; KidsRange = TileMerger._get_min_max_of_children; invariants RangeRule, LeafRangeRule:
in every state reachable under ANY admissible merge order the range recorded in a completed tile is <<min, max>> of
the FINITE leaf values beneath it - not of the averaged pixels; no range when there is no finite value).  TLC checks them (together with the C02 theorems)
for every case and emits the terminal directory with the expected range of every tile.

Binding (spec -> code): the FITS runs of the C02 harness (checks/c02.py: abstract leaves lifted to real 256x256
float32 / float64 / int16 / int32 tiles with NaNs and +/-inf pixels, sparse populations, entirely-NaN leaves that toasty does not
store, leaves whose only defined pixels are infinite (no range recorded), leaves written twice,
stale parents; written with the real PyramidIO; cascaded by cascade_images / the CLI entry point / Builder.cascade with
parallel = 1 and with 2-3 real worker processes).  The DATAMIN / DATAMAX cards of EVERY tile file are read with
astropy (not toasty) and compared at float32 precision with TLC's range; for the Builder runs the ImageSet's
data_min / data_max and the DataMin / DataMax attributes of the written index_rel.wtml are compared with the root's
expected range.
"""
from lib import repo

from checks import c02 as base

PLAN = [("fits", "f4", 40, 16), ("fits", "f8", 14, 6), ("fits", "i2", 10, 5), ("fits", "i4", 4, 2)]
PARALLEL_PLAN = [("fits", "f4", "par2"), ("fits", "f4", "par3"), ("fits", "f8", "par2"), ("fits", "i2", "cli-par2"),
                 ("fits", "f4", "filter-par2"), ("fits", "f4", "par2")]

ENUM_EXPR_QUICK = ("EnumCases(\"Float\", TRUE, FALSE, LeafMapsOver({%s}), <<4>>, TRUE)" % ", ".join(base.ENUM_MATRICES_QUICK))
# thorough: 8 matrices with different extremes (zero as minimum / as maximum, negative, a single defined pixel, ...)
ENUM_MATRICES_THOROUGH = base.ENUM_MATRICES_QUICK + [
    "<<<<<<>>, <<3>>>>, <<<<>>, <<>>>>>>",            # one defined pixel
    "<<<<<<-5>>, <<-2>>>>, <<<<0>>, <<>>>>>>",        # non-positive data, maximum exactly 0
    "<<<<<<1000>>, <<>>>>, <<<<>>, <<-1000>>>>>>",    # the widest range, mean 0
    "<<<<<<2>>, <<2>>>>, <<<<2>>, <<2>>>>>>",         # constant
    "<<<<<<>>, <<>>>>, <<<<1>>, <<4>>>>>>",           # one row
    "<<<<<<1, 0>>, <<>>>>, <<<<>>, <<1, 0>>>>>>",     # +inf only besides NaN: no finite value, no range
    "<<<<<<-1, 0>>, <<3>>>>, <<<<>>, <<>>>>>>",       # -inf beside one finite value
]
ENUM_EXPR_THOROUGH = ("EnumCases(\"Float\", TRUE, FALSE, LeafMapsOver({%s}), <<6>>, TRUE)" % ", ".join(ENUM_MATRICES_THOROUGH))


def run(ctx):
    repo.setup(ctx)
    ctx.rule = ("FITS cases = (data type, start depth 1-2, sparse leaf population, leaf matrices with NaNs incl. entirely-NaN leaves, stale "
                "parents, live set of a tile filter) enumerated by the harness or by TLC (depth-1 family); TLC checks RangeRule under every "
                "admissible merge order and emits every tile's expected range; the real pyramid is written and cascaded (cascade_images, CLI, "
                "Builder.cascade; serial and 2-3 real processes) and DATAMIN/DATAMAX of every tile + ImageSet + WTML compared. "
                "distinct = (dtype, depth, run, leaves+stale digest); non-trivial = at least one tile above the start level expected")
    quick = ctx.quick
    tasks = [{"name": "MCC14enum", "T": 2, "depth": 1, "expr": ENUM_EXPR_QUICK if quick else ENUM_EXPR_THOROUGH,
              "family": "each of the 4 leaves absent or one of %s, bottom-up" % ("3 matrices" if quick else "10 matrices (11^4 populations)")}]
    tasks += base.plan_binding(ctx, "C14", PLAN, PARALLEL_PLAN, only_fits=True, builder_runs=14 if quick else 150,
                               allow_keepu=False, rewrite_p=0.35)
    def enum_jobs(t, recs):
        js = []
        step = 1 if quick else 2
        for i, rec in enumerate(recs):
            if i % step:
                continue
            meta = base.enum_meta(rec, i, ctx.scratch)
            has_root = any(tl["pos"] == [0, 0, 0] and tl["rng"] for tl in rec["final"])    # a root with a finite value beneath it
            if has_root and i % 2 == 0:
                meta["run"] = "builder"
            js.append((meta, rec))
        return js
    jobs, results = base.run_pipeline(ctx, tasks, enum_jobs)
    ctx.exhaustive = False
    if not jobs:
        ctx.machinery("no cases")
    base.report(ctx, "C14", jobs, results)
    nb = len([1 for m, _r in jobs if m["run"].startswith("builder")])
    ctx.note("replayed", {"cases": len(jobs), "builder_runs_with_imageset_and_wtml": nb,
                          "parallel_runs": len([1 for m, _r in jobs if m["run"].endswith(("par2", "par3"))]),
                          "tiles_with_range_compared": sum(len([t for t in r["final"] if t["rng"]]) for _m, r in jobs)})
    for meta, rec in jobs[:1] + jobs[len(jobs) // 2: len(jobs) // 2 + 3]:
        ctx.sample({"meta": base._plain(meta), "given": [[g["pos"], g["stored"]] for g in rec["given"]][:8],
                    "expected_ranges": [[t["pos"], t["rng"]] for t in rec["final"]][:10]})
    ctx.assume("leaves are written by toasty (PyramidIO.write_image without an explicit range, some of them twice via update_image); "
               "pixels are finite, NaN or +/-inf; the range is over the FINITE values only (a tile with no finite value beneath it must carry no "
               "DATAMIN/DATAMAX card); finite values are exactly representable in float32, so 'to single-precision rounding' is equality of "
               "the float32 values; pyramids in which a whole tile vanishes only because +inf and -inf cancel are outside the domain")
    ctx.assume("integer FITS tiles: every stored value (0 included) counts as a data value")
