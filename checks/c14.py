"""C14 - FITS pyramids carry the leaves' true data range up to the root and the WTML.

Spec: the range part of spec/Cascade.tla (tile record field `rng`; LeafRange0 = what Image.save records for a leaf
written without an explicit range; KidsRange = TileMerger._get_min_max_of_children; invariants RangeRule, LeafRangeRule:
in every state reachable under ANY admissible merge order the range recorded in a completed tile is <<min, max>> of
the FINITE leaf values beneath it - not of the averaged pixels; no range when there is no finite value).  TLC checks them (together with the C02 theorems)
for every case and emits the terminal directory with the expected range of every tile.

Binding (spec -> code): the FITS runs of the C02 harness (checks/c02.py: abstract leaves lifted to real 256x256
float32 / float64 / int16 / int32 tiles with NaNs and +/-inf pixels, sparse populations, entirely-NaN leaves that toasty does not
store, leaves whose only defined pixels are infinite (no range recorded), leaves written twice,
stale parents; written with the real PyramidIO; cascaded by cascade_images / the CLI entry point / Builder.cascade with
parallel = 1 and with 2-3 real worker processes).  The DATAMIN / DATAMAX cards of EVERY tile file are read with
astropy (not toasty) and compared at float32 precision with TLC's range; for the Builder runs the ImageSet's
data_min / data_max and the DataMin / DataMax attributes of the written index_rel.wtml are compared with the root's
expected range.

Workflow binding: toasty.tile_fits / FitsTiler in TOAST mode on 2-3 tiny FITS images far apart on the sky with distinct
value ranges, every input order.  The finite range of every LEAF file on disk is read back and handed to TLC as the
leaf table of a Cascade.tla case; TLC computes the expected range of every ancestor and the root (RangeRule), which is
compared with the cards of every tile, the returned Builder's data_min / data_max and the WTML.
"""
from lib import repo

from checks import c02 as base

PLAN = [("fits", "f4", 40, 16), ("fits", "f8", 14, 6), ("fits", "i2", 10, 5), ("fits", "i4", 4, 2)]
PARALLEL_PLAN = [("fits", "f4", "par2"), ("fits", "f4", "par3"), ("fits", "f8", "par2"), ("fits", "i2", "cli-par2"),
                 ("fits", "f4", "filter-par2"), ("fits", "f4", "par2")]

ENUM_EXPR_QUICK = ("EnumCases(\"Float\", TRUE, FALSE, LeafMapsOver({%s}), <<4>>, TRUE)" % ", ".join(base.ENUM_MATRICES_QUICK))
# thorough: 8 matrices with different extremes (zero as minimum / as maximum, negative, a single defined pixel, ...)
ENUM_MATRICES_THOROUGH = base.ENUM_MATRICES_QUICK + [
    "<<<<<<>>, <<3>>>>, <<<<>>, <<>>>>>>",            # one defined pixel
    "<<<<<<-5>>, <<-2>>>>, <<<<0>>, <<>>>>>>",        # non-positive data, maximum exactly 0
    "<<<<<<1000>>, <<>>>>, <<<<>>, <<-1000>>>>>>",    # the widest range, mean 0
    "<<<<<<2>>, <<2>>>>, <<<<2>>, <<2>>>>>>",         # constant
    "<<<<<<>>, <<>>>>, <<<<1>>, <<4>>>>>>",           # one row
    "<<<<<<1, 0>>, <<>>>>, <<<<>>, <<1, 0>>>>>>",     # +inf only besides NaN: no finite value, no range
    "<<<<<<-1, 0>>, <<3>>>>, <<<<>>, <<>>>>>>",       # -inf beside one finite value
]
ENUM_EXPR_THOROUGH = ("EnumCases(\"Float\", TRUE, FALSE, LeafMapsOver({%s}), <<6>>, TRUE)" % ", ".join(ENUM_MATRICES_THOROUGH))


# ------------------------------------------------------------------------------------------------
# the tile_fits / FitsTiler workflow in TOAST mode (several images of disjoint footprints)
# ------------------------------------------------------------------------------------------------

def workflow_cases(ctx, quick):
    """Run the workflow on the real code (2 and 3 images, every input order) and turn what the leaf files hold into
    Cascade.tla cases: every stored leaf becomes an abstract leaf holding its observed finite minimum and maximum
    (as ranks in the sorted table of observed values: min / max commute with the order-preserving map), so that TLC
    computes the expected range of every ancestor and the root by the spec's rule."""
    import concurrent.futures as cf
    import itertools
    import multiprocessing as mp
    runs = []
    for nimg in (2, 3):
        for order in itertools.permutations(range(nimg)):
            # start level 3: at level 2 the samplers' bounding-box filters are still too coarse to tell the images apart
            runs.append((ctx.scratch, order, 3, 1))
    if not quick:
        runs += [(ctx.scratch, order, 4, 1) for order in itertools.permutations(range(3))]
        runs += [(ctx.scratch, order, 2, 1) for order in itertools.permutations(range(2))]
        runs += [(ctx.scratch, (0, 1), 3, 2), (ctx.scratch, (2, 0, 1), 4, 2)]
    # the TAN route: one image that fits into a single 256 x 256 tile (a depth-0 pyramid: the leaf IS the root) and one that
    # needs one more level
    runs += [(ctx.scratch, (0,), 0, 1, (80, 100)), (ctx.scratch, (1,), 0, 1, (260, 300))]
    if not quick:
        runs += [(ctx.scratch, (2,), 0, 1, (256, 256)), (ctx.scratch, (0,), 0, 1, (30, 40)), (ctx.scratch, (1,), 0, 1, (600, 520))]
    with cf.ProcessPoolExecutor(max_workers=8, mp_context=mp.get_context("fork"), initializer=base._quiet_worker) as ex:
        observed = list(ex.map(base.workflow_run, runs))
    tasks = {}
    for i, obs in enumerate(observed):
        ctx.count()
        if obs["error"]:
            ctx.violation("C14:workflow-raised:fits", "tile_fits (%s, images %s, start %d, parallel %d) raised %s"
                          % (obs["route"], obs["order"], obs["start"], obs["parallel"], obs["error"]), {"order": obs["order"], "start": obs["start"]})
            continue
        vals = sorted(set(v for r in obs["leaves"].values() if r for v in r))
        rank = dict((v, k) for k, v in enumerate(vals))
        leaves = {}
        for pos, r in obs["leaves"].items():
            if r is None:
                # a stored leaf with no finite value: one +inf pixel stands for "defined, not finite"
                leaves[pos] = (((1, 0), ()), ((), ()))
            else:
                leaves[pos] = (((rank[r[0]],), (rank[r[1]],)), ((), ()))
        if len(leaves) < len(obs["order"]) or not leaves:
            ctx.machinery("workflow run %s produced only %d leaves" % (obs["order"], len(leaves)))
        case = {"id": 9000 + i, "T": 2, "depth": obs["start"], "fmt": "fits", "dtag": "f4", "mode": "Float", "run": "workflow",
                "keepu": False, "leaves": leaves, "stale": set(), "live": set(leaves), "sv": (0,), "scale": 1.0,
                "has_data": True, "has_finite": True, "negzero": False, "rewrite": False,
                "obs": obs, "rankvals": vals, "compare": ("checks.c14", "workflow_compare")}
        tasks.setdefault(obs["start"], []).append(case)
    return [{"name": "MCC14wf%d" % d, "T": 2, "depth": d, "cases": cs, "chunk": 60, "window": 2 if d >= 3 else None}
            for d, cs in sorted(tasks.items())]


def workflow_compare(meta, rec):
    """TLC's expected ranges (ranks -> observed values) against the cards of every tile, the Builder and the WTML."""
    import numpy as np
    obs, vals = meta["obs"], meta["rankvals"]
    out = []
    what = "tile_fits %s images %s start %d parallel %d" % (obs["route"], obs["order"], obs["start"], obs["parallel"])

    def add(key, msg):
        out.append(("C14", "V", key, "%s [%s]" % (msg, what)))

    def f32(pair):
        return (np.float32(pair[0]), np.float32(pair[1]))
    tiles = dict((tuple(k), v) for k, v in obs["tiles"].items())
    root = None
    for t in rec["final"]:
        p = tuple(t["pos"])
        want = f32((vals[t["rng"][0]], vals[t["rng"][1]])) if t["rng"] else None
        if p == (0, 0, 0):
            root = want
        if p not in tiles:
            add("workflow-tile-range", "tile %s is missing although leaf tiles lie beneath it (their range %s is lost to its ancestors)" % (p, want))
            break
        hdr = tiles[p]
        if want is None:
            if hdr:
                add("workflow-tile-range", "tile %s records %s although no finite value lies beneath it" % (p, hdr))
                break
            continue
        got = f32((hdr.get("DATAMIN", np.nan), hdr.get("DATAMAX", np.nan)))
        if got != want:
            add("workflow-tile-range", "tile %s records DATAMIN/DATAMAX = %s, the leaf tiles beneath it range over %s" % (p, got, want))
            break
    if root is not None:
        if f32(obs["imgset"]) != root:
            add("workflow-imageset-range", "the returned Builder has data_min/data_max = %s, the leaf tiles range over %s" % (f32(obs["imgset"]), root))
        w = obs.get("wtml")
        if not w or len(w) != 1:
            out.append(("C14", "D", "wtml-shape", "index_rel.wtml holds %s ImageSet elements [%s]" % (len(w or []), what)))
        elif f32(w[0]) != root:
            add("workflow-wtml-range", "index_rel.wtml has DataMin/DataMax = %s, the leaf tiles range over %s" % (f32(w[0]), root))
    return out, {"tiles": len(rec["final"])}


def run(ctx):
    repo.setup(ctx)
    ctx.rule = ("FITS cases = (data type, start depth 1-2, sparse leaf population, leaf matrices with NaNs incl. entirely-NaN leaves, stale "
                "parents, live set of a tile filter) enumerated by the harness or by TLC (depth-1 family); TLC checks RangeRule under every "
                "admissible merge order and emits every tile's expected range; the real pyramid is written and cascaded (cascade_images, CLI, "
                "Builder.cascade; serial and 2-3 real processes) and DATAMIN/DATAMAX of every tile + ImageSet + WTML compared. "
                "distinct = (dtype, depth, run, leaves+stale digest); non-trivial = at least one tile above the start level expected")
    quick = ctx.quick
    tasks = [{"name": "MCC14enum", "T": 2, "depth": 1, "expr": ENUM_EXPR_QUICK if quick else ENUM_EXPR_THOROUGH,
              "family": "each of the 4 leaves absent or one of %s, bottom-up" % ("3 matrices" if quick else "10 matrices (11^4 populations)")}]
    tasks += workflow_cases(ctx, quick)
    # depth-0 pyramids (a single tile: the leaf is the root) through Builder.cascade + WTML
    d0 = []
    for i, (dtag, shape) in enumerate([("f4", None), ("f8", "zero-min"), ("i2", None), ("f4", "inf-mix")] + ([] if quick else [("i4", None), ("f8", "zero-max")])):
        c = base.make_case(ctx.rng, 7000 + i, 2, 0, "fits", dtag, run="builder", pleaf=1.0, stale_p=0.0, keepu=False, shape=shape, rewrite_p=0.3)
        if c["has_finite"]:
            d0.append(c)
    wf0 = [t for t in tasks if t["name"] == "MCC14wf0"]
    if wf0:
        wf0[0]["cases"] += d0           # same T and depth as the workflow's single-tile cases: one TLC run
    else:
        tasks.append({"name": "MCC14d0", "T": 2, "depth": 0, "cases": d0, "chunk": 60})
    tasks += base.plan_binding(ctx, "C14", PLAN, PARALLEL_PLAN, only_fits=True, builder_runs=14 if quick else 150,
                               allow_keepu=False, rewrite_p=0.35)
    # ---- histories over one directory (spec/CascadeHistory.tla): cascades in stages (cascade(D), then cascade(k < D) / `toasty cascade
    # --start k` / Builder.cascade with smaller tile_levels), leaf data that grows between cascades (new leaves, wider versions of old
    # ones via update_image), ONE Builder cascading several times, a fresh Builder, a Builder restored from index_rel.wtml
    tasks += base.history_tasks(ctx, "C14", [("fits", "f4", "serial", True), ("fits", "i2", "par2", True)] +
                                ([] if quick else [("fits", "f8", "par2", True), ("fits", "f4", "serial", False), ("fits", "i4", "serial", True)]),
                                depths=(2,) if quick else (2, 3))
    def enum_jobs(t, recs):
        js = []
        step = 1 if quick else 2
        for i, rec in enumerate(recs):
            if i % step:
                continue
            meta = base.enum_meta(rec, i, ctx.scratch)
            has_root = any(tl["pos"] == [0, 0, 0] and tl["rng"] for tl in rec["final"])    # a root with a finite value beneath it
            if has_root and i % 2 == 0:
                meta["run"] = "builder"
            js.append((meta, rec))
        return js
    jobs, results = base.run_pipeline(ctx, tasks, enum_jobs)
    ctx.exhaustive = False
    if not jobs:
        ctx.machinery("no cases")
    base.report(ctx, "C14", jobs, results)
    nb = len([1 for m, _r in jobs if m["run"].startswith("builder")])
    ctx.note("replayed", {"cases": len(jobs), "builder_runs_with_imageset_and_wtml": nb,
                          "parallel_runs": len([1 for m, _r in jobs if m["run"].endswith(("par2", "par3"))]),
                          "tiles_with_range_compared": sum(len([t for t in r["final"] if t["rng"]]) for _m, r in jobs)})
    for meta, rec in jobs[:1] + jobs[len(jobs) // 2: len(jobs) // 2 + 3]:
        ctx.sample({"meta": base._plain(meta), "given": [[g["pos"], g["stored"]] for g in rec["given"]][:8],
                    "expected_ranges": [[t["pos"], t["rng"]] for t in rec["final"]][:10]})
    ctx.assume("leaves are written by toasty (PyramidIO.write_image without an explicit range, some of them twice via update_image); "
               "pixels are finite, NaN or +/-inf; the range is over the FINITE values only (a tile with no finite value beneath it must carry no "
               "DATAMIN/DATAMAX card); finite values are exactly representable in float32, so 'to single-precision rounding' is equality of "
               "the float32 values; pyramids in which a whole tile vanishes only because +inf and -inf cancel are outside the domain")
    ctx.assume("integer FITS tiles: every stored value (0 included) counts as a data value")
