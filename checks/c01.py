"""C01 - cascade walk: each live parent exactly once, only after all its live children; serial = parallel.

Spec: spec/WalkPar.tla (the parallel dispatcher/worker protocol) over spec/Quadtree.tla; the serial twin is
spec/Reduce.tla (checked by C13 against the same Live/Ops definitions).
  (1) TLC exhaustive + liveness: OnlyOps, AtMostOnce, ChildrenFirst (state and action form), DoneOK, NoLossAtSet,
      PopSafe, NoDoubleRelease, Termination, over every interleaving of dispatcher, feeders, worker sub-steps and timeouts.
  (2) spec -> code (M2): TLC-simulated behaviours stepped through the REAL _walk_parallel/_mp_walk_worker on a fake
      multiprocessing; projected state compared after every step.
  (3) the real walk (serial and parallel) explored under seeded random / adversarial schedules for pyramids whose
      expected operation set TLC computed; monitors are the property's sentences.
  (4) real processes with ticketed callbacks.
  (5) inputs: tile filters that decide from the tile's CORNER COORDINATES (position filters lifted to geometry; real
      latitude/longitude boxes), in both TOAST coordinate systems x sub-pyramid apexes; the accept set is the filter
      evaluated on the reference geometry of the pyramid's own coordinate system and TLC computes the operations.
  (6) environment: the operating system refuses the k-th worker (Process.start raises OSError) - spec/WalkParStart.tla
      (worker-creation phase + StartFails with its two admissible outcomes), exhaustive, replayed, and injected into the
      fake multiprocessing under the schedule policies; what the workers left behind do afterwards is observed too.
"""
import errno
import json
import os

from lib import repo, simmp, simrun, tla
from lib.tlc import parse_sim_stream

ROOT = (0, 0, 0)


def kids(p):
    n, x, y = p
    return [(n + 1, 2 * x + (i % 2), 2 * y + (i // 2)) for i in range(4)]


def level(n):
    return [(n, x, y) for y in range(2 ** n) for x in range(2 ** n)]


def with_kids(tiles, depth):
    acc = set(tiles)
    frontier = list(tiles)
    while frontier:
        nxt = []
        for t in frontier:
            if t[0] < depth:
                for k in kids(t):
                    acc.add(k)
                    nxt.append(k)
        frontier = nxt
    return frozenset(acc)


CFG = """SPECIFICATION Spec
CONSTANTS
 Depth = %(depth)d
 NW = %(nw)d
 Cap = %(cap)d
 AcceptSets <- ConfAccept
 Apexes <- ConfApex
 FaultSets <- ConfFaults
 Checked = TRUE
INVARIANT OnlyOps
INVARIANT AtMostOnce
INVARIANT ChildrenFirst
INVARIANT DoneOK
INVARIANT NoLossAtSet
INVARIANT PopSafe
INVARIANT NoDoubleRelease
INVARIANT NeverSwallowed
INVARIANT RaisedOnlyOnFault
PROPERTY ChildrenFirstStep
PROPERTY Termination
PROPERTY ReturnsWhenFaultFree
CHECK_DEADLOCK FALSE
"""

# spec/WalkParStart.tla: the worker-creation phase and the environment refusing the k-th Process.start
START_CFG = """SPECIFICATION SSpec
CONSTANTS
 Depth = %(depth)d
 NW = %(nw)d
 Cap = %(cap)d
 AcceptSets <- ConfAccept
 Apexes <- ConfApex
 FaultSets <- ConfFaults
 StartFaults <- ConfStart
 Checked = TRUE
INVARIANT OnlyOps
INVARIANT AtMostOnce
INVARIANT ChildrenFirst
INVARIANT DoneOK
INVARIANT NoLossAtSet
INVARIANT PopSafe
INVARIANT NoDoubleRelease
INVARIANT NeverSwallowed
INVARIANT SRaisedOnlyOnFault
INVARIANT BornOK
INVARIANT StartFailureSeen
PROPERTY ChildrenFirstStep
PROPERTY Termination
PROPERTY ReturnsWhenNothingFails
PROPERTY RefusalEnds
CHECK_DEADLOCK FALSE
"""

# negative control (spec/WalkParStartBad.tla): falling back to a serial walk while the workers already created live on
BAD_CFG = """SPECIFICATION BSpec
CONSTANTS
 Depth = %(depth)d
 NW = %(nw)d
 Cap = %(cap)d
 AcceptSets <- ConfAccept
 Apexes <- ConfApex
 FaultSets <- ConfFaults
 StartFaults <- ConfStart
 Checked = TRUE
INVARIANT OnlyOps
INVARIANT AtMostOnce
CHECK_DEADLOCK FALSE
"""

SIMCFG = """SPECIFICATION SimSpec
CONSTANTS
 Depth = %(depth)d
 NW = %(nw)d
 Cap = %(cap)d
 AcceptSets <- ConfAccept
 Apexes <- ConfApex
 FaultSets <- ConfFaults
 Checked = TRUE
INVARIANT OnlyOps
INVARIANT ChildrenFirst
INVARIANT Emit
CHECK_DEADLOCK FALSE
"""

START_SIMCFG = SIMCFG.replace(" Checked = TRUE\n", " Checked = TRUE\n StartFaults <- ConfStart\n")


def conf_module(name, base, accepts, apexes, faults="none", start=None):
    f = {"none": "{{}}", "one": "{{}} \\cup {{p} : p \\in UpTo(Depth)}"}[faults]
    # T_SparseAgrees: the sparse computation of the live set (SparseLive.tla, used for deep pyramids) is the live set
    defs = [("ConfAccept", tla.lit(set(accepts))), ("ConfApex", tla.lit(set(apexes))), ("ConfFaults", f),
            "ASSUME \\A cA \\in ConfAccept, ca \\in ConfApex : SLiveSet(cA, ca) = LiveSet(cA, ca)"]
    if start is not None:       # which Process.start the environment may refuse (WalkParStart.tla; 0 = none)
        defs.append(("ConfStart", tla.lit(set(start))))
    return tla.module(name, [base], defs)


def build_pyramid(depth, acc, apex, generic=False):
    from toasty.pyramid import Pyramid, Pos
    if generic:
        p = Pyramid.new_generic(depth)
    else:
        p = Pyramid.new_toast_filtered(depth, lambda t: tuple(t.pos) in acc)
    if tuple(apex) != ROOT:
        p = p.subpyramid(Pos(*apex))
    return p


def walk_main(depth, acc, apex, nw, log, faults=(), generic=False, flavour="plain", build=None):
    def cb(pos):
        key = tuple(pos)
        simmp.cb_sync("cb_start", key, log)
        if key in faults:
            from checks.c03 import raise_fault
            raise_fault(flavour, key)
        simmp.cb_sync("cb_end", key, log)
    if build is None:
        build = lambda: build_pyramid(depth, acc, apex, generic)      # noqa: E731
    return lambda: build().walk(cb, parallel=nw)


# ------------------------------------------------------------------------------------------------
# tile filters that decide from the tile's corner coordinates, in the pyramid's own coordinate system
# ------------------------------------------------------------------------------------------------

_REF = {}


def coordsystems():
    from toasty.toast import ToastCoordinateSystem as CS
    return [("astronomical", CS.ASTRONOMICAL), ("planetary", CS.PLANETARY)]


def ref_tiles(csname, cs, depth):
    """Reference geometry of one coordinate system: the Tile of every position of levels 1..depth as create_single_tile
    gives it for THAT system (the lattice embedding C04 judges against TLC's ToastLattice tables)."""
    from toasty import toast
    from toasty.pyramid import Pos
    t = _REF.setdefault(csname, {})
    for n in range(1, depth + 1):
        if (n, 0, 0) not in t:
            for q_ in level(n):
                t[q_] = toast.create_single_tile(Pos(*q_), coordsys=cs)
    return t


def centre_key(corners):
    import numpy as np
    c = np.array([[float(p_[0]), float(p_[1])] for p_ in corners])
    v = np.stack([np.cos(c[:, 1]) * np.cos(c[:, 0]), np.cos(c[:, 1]) * np.sin(c[:, 0]), np.sin(c[:, 1])], axis=1).sum(axis=0)
    v /= np.linalg.norm(v)
    return tuple(int(round(float(t) * 1e7)) for t in v)


def lifted_filter(csname, cs, depth, acc):
    """The position filter `acc` lifted to geometry: a tile is accepted iff the centre of the corners it is SHOWN with is the
    centre of an accepted position of its level in coordinate system cs (so the filter sees through a tile that carries the
    right position and the wrong place on the sphere)."""
    table = _REF.setdefault(("centres", csname), {})
    for q_, t in ref_tiles(csname, cs, depth).items():
        if q_ not in table:
            table[q_] = (q_[0], centre_key(t.corners))
    back = {v: k for k, v in table.items()}

    def flt(tile):
        q_ = back.get((tile.pos.n, centre_key(tile.corners)))
        return q_ is not None and q_ in acc
    return flt


def box_filter(box):
    """A latitude/longitude bounding box (radians) as the library's own footprint filter."""
    from toasty.samplers import _latlon_tile_filter
    return _latlon_tile_filter(*box)


def box_accept(csname, cs, depth, box):
    """The box filter as a set of accepted positions: the filter evaluated on the reference tile of every position of the
    coordinate system.  (An input for TLC, which computes the live set and the operations from it.)"""
    f = box_filter(box)
    return frozenset(q_ for q_, t in ref_tiles(csname, cs, depth).items() if q_[0] <= depth and f(t))


def build_geo(depth, flt, cs, apex):
    from toasty.pyramid import Pyramid, Pos
    p = Pyramid.new_toast_filtered(depth, flt, coordsys=cs)
    if tuple(apex) != ROOT:
        p = p.subpyramid(Pos(*apex))
    return p


# ------------------------------------------------------------------------------------------------
# the environment refusing a worker: Process.start of the fake multiprocessing as a scheduling point that can fail
# ------------------------------------------------------------------------------------------------

START_ERRORS = {"EAGAIN": (errno.EAGAIN, "Resource temporarily unavailable"), "ENOMEM": (errno.ENOMEM, "Cannot allocate memory")}


class StartHook(object):
    """Wraps the fake Process: every start() becomes a sync point ("proc_start") of the process calling it; the k-th start
    of the run is refused - it raises OSError(err) and no process comes into being - (k = 0: none is)."""

    def __init__(self, k, err="EAGAIN"):
        self.k, self.err, self.calls, self.refused = k, err, 0, False

    def install(self):
        import multiprocessing as mp
        base, hook = mp.Process, self

        class HookedProcess(base):
            def start(self_):
                hook.calls += 1
                n = hook.calls

                def outs():
                    if n == hook.k:
                        def eff():
                            hook.refused = True
                            simmp._bump()
                            return OSError(*START_ERRORS[hook.err])
                        return {"fail": eff}
                    return {"ok": lambda: None}
                simmp.S.sync(("proc_start", self_.name), outs)
                base.start(self_)
        mp.Process = HookedProcess
        return base

    def wrap(self, main_fn):
        def main():
            import multiprocessing as mp
            base = self.install()
            try:
                main_fn()
            finally:
                mp.Process = base
        return main


def run_with_afterlife(main_fn, choose, log, after_steps=600):
    """simrun.run, and then the processes the walk left behind keep being scheduled (a walk that raised because a worker was
    refused does not take the workers it had created with it): out.log_at_return = length of the callback log when the walk
    ended; what is logged after that happened behind the caller's back."""
    out = simrun.Outcome()
    with simmp.installed() as S:
        with simrun.quiet():
            S.spawn("main", main_fn, kind="main")
            if hasattr(choose, "bind"):
                choose.bind(S)
            status, steps = simmp.run_schedule(S, choose, max_steps=15000, hang_rounds=30,
                                               done=lambda: not S.alive("main") and S.pending("main") == ("done",))
            a = S.actors["main"]
            out.steps = steps
            out.log_at_return = len(log)
            if a["state"] == "done":
                out.exc = a.get("exc")
                out.status = "raised" if out.exc is not None else "returned"
                out.workers_alive_at_return = [p.name for p in S.procs if p.started and S.alive(p.name)]
                simmp.run_schedule(S, choose, max_steps=after_steps, hang_rounds=3)
            else:
                out.status = "hang" if status == "hang" else "limit"
            out.trace = list(S.trace)
    return out


# ------------------------------------------------------------------------------------------------
# monitors (the property's sentences) on a callback log
# ------------------------------------------------------------------------------------------------

def judge_walk(ctx, label, ops, log, status, exc, alive, rep, keyprefix="C01:walk-parallel", refused=False, at_return=None):
    """refused: the environment refused a worker during this walk - then an exception is a legitimate end of the walk (and only
    the sentences about what ran, how often and in which order are judged).  at_return: length of the log when the walk ended
    (the rest was logged by processes it left behind); "returned" promises that everything had completed by then."""
    ops = set(ops)
    started = [p for tag, p, who in log if tag == "cb_start"]
    ended = [p for tag, p, who in log[:at_return] if tag == "cb_end"]
    if status == "hang":
        return ctx.violation(keyprefix + ":hang", "%s: the walk never returns (%d of %d callbacks done)" % (label, len(ended), len(ops)), rep)
    if status == "limit":
        ctx.drift("%s: step limit reached" % label)
        return False
    if status == "raised" and not refused:
        return ctx.violation(keyprefix + ":raised", "%s: the walk raised %r although no callback failed" % (label, exc), rep)
    bad = False
    extra = [p for p in started if p not in ops]
    if extra:
        bad = ctx.violation(keyprefix + ":not-an-operation", "%s: callback ran for %s which is not a live non-leaf tile of the (sub-)pyramid" % (label, extra[:4]), rep) or bad
    if len(started) != len(set(started)):
        bad = ctx.violation(keyprefix + ":twice", "%s: callback ran twice for %s" % (label, sorted({p for p in started if started.count(p) > 1})[:4]), rep) or bad
    missing = ops - set(ended)
    if missing and status == "returned":
        bad = ctx.violation(keyprefix + ":missing", "%s: the walk returned without the callback for %s having run to completion" % (label, sorted(missing)[:4]), rep) or bad
    done = set()
    for tag, p, who in log:
        if tag == "cb_end":
            done.add(p)
        elif tag == "cb_start":
            early = [k for k in kids(p) if k in ops and k not in done]
            if early:
                bad = ctx.violation(keyprefix + ":children-first", "%s: callback for %s started before the callback of its live child %s had completed" % (label, p, early[0]), rep) or bad
                break
    if alive and status == "returned":
        bad = ctx.violation(keyprefix + ":workers-alive", "%s: walk returned while workers %s were still running" % (label, alive), rep) or bad
    return bad


# ------------------------------------------------------------------------------------------------
# spec -> code replay
# ------------------------------------------------------------------------------------------------

WPC_OF_OP = {"start": "idle", "rlock": "idle", "poll": "locked", "is_set": "empty", "cb_start": "cb", "cb_end": "running", "put": "put"}
DPC_OF_OP = {"rlock": "loop", "poll": "loop", "close": "closing", "join_thread": "jointhread", "event_set": "setev", "join": "joinw", "put": "loop",
             "proc_start": "loop"}


def T(p):
    return tuple(p)


def make_replay(nw, log, hook=None):
    """hook: a StartHook - the behaviours are WalkParStart's (worker-creation phase included: StartOK / StartFails), and the
    projection carries the number of workers created and the phase."""
    def need(S, actor, opname, qname=None):
        p = S.pending(actor)
        if p is None or p[0] != opname or (qname is not None and (len(p) < 2 or p[1] != qname)):
            raise KeyError("%s is at %r, needs %s %s" % (actor, p, opname, qname or ""))

    def setup(S):
        S.step("main", "ok")
        while S.pending("main") is not None and S.pending("main")[:2] == ("put", "q1"):
            S.step("main", "ok")
        if hook is not None:
            return
        for w in range(1, nw + 1):
            name = "w%d" % w
            if S.pending(name) is not None and S.pending(name)[0] == "start":
                S.step(name, "ok")

    def do_action(S, rec):
        act, who = rec["act"], rec["who"]
        w = "w%d" % who
        if act == "StartOK":
            need(S, "main", "proc_start"); S.step("main", "ok")
            need(S, w, "start"); S.step(w, "ok")
        elif act == "StartFails":
            need(S, "main", "proc_start"); S.step("main", "fail")
        elif act == "FlushReady":
            S.step("feeder:q1:main", "flush")
        elif act == "FlushDone":
            S.step("feeder:q2:%s" % w, "flush")
        elif act == "WAcquire":
            need(S, w, "rlock", "q1"); S.step(w, "acquired")
        elif act == "WLockTimeout":
            need(S, w, "rlock", "q1"); S.step(w, "timeout")
        elif act == "WRecv":
            need(S, w, "poll", "q1"); S.step(w, "item")
        elif act == "WPollTimeout":
            need(S, w, "poll", "q1"); S.step(w, "empty")
        elif act == "WCheckDone":
            need(S, w, "is_set"); S.step(w, "ok")
        elif act == "WCbStart":
            need(S, w, "cb_start"); S.step(w, "ok")
        elif act == "WCbEnd":
            need(S, w, "cb_end"); S.step(w, "ok")
        elif act == "WPut":
            need(S, w, "put", "q2"); S.step(w, "ok")
        elif act == "DGet":
            need(S, "main", "rlock", "q2"); S.step("main", "acquired")
            need(S, "main", "poll", "q2"); S.step("main", "item")
            if S.pending("main")[:2] == ("put", "q1"):
                S.step("main", "ok")
        elif act in ("DTimeout", "DTimeoutRaise"):
            need(S, "main", "rlock", "q2"); S.step("main", "acquired")
            need(S, "main", "poll", "q2"); S.step("main", "empty")
            if act == "DTimeoutRaise":
                need(S, "main", "event_set"); S.step("main", "ok")
        elif act == "DClose":
            need(S, "main", "close"); S.step("main", "ok")
        elif act == "DJoinThread":
            need(S, "main", "join_thread"); S.step("main", "ok")
        elif act == "DSetEv":
            need(S, "main", "event_set"); S.step("main", "ok")
        elif act == "DJoinW":
            need(S, "main", "join"); S.step("main", "ok")
        else:
            raise KeyError("unknown spec action %s" % act)

    def project(S):
        q1, q2 = S.queues.get("q1"), S.queues.get("q2")
        ev = S.events[-1] if S.events else None
        st = {}
        st["rqBuf"] = [T(x) for x in q1.buf["main"]] if q1 else []
        st["rqPipe"] = [T(x) for x in q1.pipe] if q1 else []
        rl = q1.rlock if q1 else None
        st["rlock"] = 0 if rl is None else int(rl[1:])
        st["dqPipe"] = [T(x) for x in q2.pipe] if q2 else []
        st["dqSem"] = q2.inflight if q2 else 0
        st["dqBuf"] = [[T(x) for x in q2.buf["w%d" % w]] if q2 else [] for w in range(1, nw + 1)]
        st["doneEv"] = bool(ev.flag) if ev else False
        st["started"] = [p for tag, p, who in log if tag == "cb_start"]
        st["ended"] = [p for tag, p, who in log if tag == "cb_end"]
        m = S.actors["main"]
        wpc = []
        for w in range(1, nw + 1):
            name = "w%d" % w
            a = S.actors.get(name)
            if a is None:
                # "Nothing to do": no worker was ever created; in the worker-creation phase (or after a refusal): not yet
                wpc.append("idle" if (hook is not None and (hook.refused or (S.pending("main") or ("",))[0] == "proc_start")) else "exited")
                continue
            if a["state"] == "done":
                wpc.append("dead" if a.get("exitcode") else "exited")
            else:
                p = S.pending(name)
                wpc.append(WPC_OF_OP.get(p[0], "?" + p[0]))
        st["wpc"] = wpc
        if m["state"] == "done":
            st["dpc"] = "raised" if m.get("exc") is not None else "returned"
        else:
            p = S.pending("main")
            st["dpc"] = DPC_OF_OP.get(p[0], "?" + p[0])
        if hook is not None:
            st["nborn"] = len([w for w in range(1, nw + 1) if "w%d" % w in S.actors])
            st["phase"] = "failed" if hook.refused else ("starting" if (S.pending("main") or ("",))[0] == "proc_start" else "running")
        return st

    def expect(rec):
        ex = {"rqBuf": [T(x) for x in rec["rqBuf"]], "rqPipe": [T(x) for x in rec["rqPipe"]], "rlock": rec["rlock"],
              "dqPipe": [T(x) for x in rec["dqPipe"]], "dqSem": rec["dqSem"],
              "dqBuf": [[T(x) for x in b] for b in rec["dqBuf"]], "doneEv": rec["doneEv"],
              "started": [T(x) for x in rec["started"]], "ended": [T(x) for x in rec["ended"]],
              "wpc": rec["wpc"], "dpc": rec["dpc"]}
        if hook is not None:
            ex["nborn"], ex["phase"] = rec["nborn"], rec["phase"]
        return ex
    return setup, do_action, project, expect


def replay_walk(ctx, depth, nw, accepts, apexes, nbeh, faults="none", simdepth=400, start=None):
    """Simulate WalkPar for the given family and replay every behaviour into the real _walk_parallel.
    start: the values of failAt - the behaviours are those of WalkParStart (worker creation, the k-th start refused)."""
    if start is None:
        extra = {"SimConf.tla": conf_module("SimConf", "WalkParSim", accepts, apexes, faults)}
        cfg = SIMCFG % dict(depth=depth, nw=nw, cap=2 * nw)
    else:
        extra = {"SimConf.tla": conf_module("SimConf", "WalkParStartSim", accepts, apexes, faults, start=start)}
        cfg = START_SIMCFG % dict(depth=depth, nw=nw, cap=2 * nw)
    r = ctx.tlc("SimConf", extra=extra, cfg_text=cfg, simulate=nbeh, depth=simdepth, workers=1, timeout=600)
    behs = parse_sim_stream(r.json_lines("TR"), ["acc", "apex", "faults"] + ([] if start is None else ["failAt"]))
    okc, drifted = 0, False
    for b in behs:
        acc = frozenset(T(p) for p in b[0]["acc"])
        apex = T(b[0]["apex"])
        fl = {T(p) for p in b[0]["faults"]}
        log = []
        hook = None if start is None else StartHook(b[0]["failAt"])
        setup, do_action, project, expect = make_replay(nw, log, hook)
        main = walk_main(depth, acc, apex, nw, log, fl)
        try:
            simrun.replay(main if hook is None else hook.wrap(main), b, setup, do_action, project, expect)
            okc += 1
            ctx.trace_ok()
            ctx.distinct(("replay", depth, nw, tuple(sorted(acc)), apex, tuple((x["act"], x["who"]) for x in b[1:])))
            if hook is not None and hook.refused:
                ctx.add_note("replayed_behaviours_with_a_refused_worker")
        except simrun.ReplayMismatch as e:
            if not drifted:
                ctx.drift("walk d%d w%d%s: replay of a TLC behaviour diverged: %s %s" % (depth, nw, "" if start is None else " (worker creation, start refused: %s)" % b[0]["failAt"], e, e.detail))
                drifted = True
            ctx.add_note("replay_divergences")
    if behs:
        b = max(behs, key=len)
        ctx.sample({"replayed_behaviour": [[x["act"], x["who"]] for x in b[1:]][:80], "accept": b[0]["acc"], "apex": b[0]["apex"],
                    "faults": b[0]["faults"], "final_dpc": b[-1]["dpc"]})
    return okc, drifted


def ops_table(ctx, depth, confs, sparse=False):
    """TLC computes the expected operation set (live non-leaf tiles) for each (accept, apex); sparse: by descending through
    accepted tiles only (SLiveSet, proved equal to LiveSet by the invariant SparseAgrees wherever both are computable)."""
    defs = [("Cases", tla.lit([[sorted(a), list(x)] for a, x in confs])),
            "Accs == [i \\in DOMAIN Cases |-> {Cases[i][1][j] : j \\in DOMAIN Cases[i][1]}]",
            "Row(i) == LET L == %s(Accs[i], Cases[i][2]) IN [ops |-> {p \\in L : p[1] < Depth}, leaves |-> {p \\in L : p[1] = Depth}]" % ("SLiveSet" if sparse else "LiveSet"),
            "ASSUME JsonSerialize(IOEnv.OUT, [i \\in DOMAIN Cases |-> Row(i)])"]
    outp = os.path.join(ctx.scratch, "ops-%d-%d-%d.json" % (depth, len(confs), int(sparse)))
    if sparse:
        # constant evaluation only (no behaviour spec): the module has no variables
        mod = tla.module("OpsTable", ["SparseLive", "Json", "IOUtils"], defs)
        cfg = "CONSTANTS\n Depth = %d\n" % depth
    else:
        # WalkPar has CONSTANTS; instantiate through a cfg with dummy values
        mod = tla.module("OpsTable", ["WalkPar", "Json", "IOUtils"], defs + ["TAcc == {{}}", "TApex == {Root}", "TFaults == {{}}"])
        cfg = "SPECIFICATION Spec\nCHECK_DEADLOCK FALSE\nCONSTANTS\n Depth = %d\n NW = 1\n Cap = 1\n AcceptSets <- TAcc\n Apexes <- TApex\n FaultSets <- TFaults\n Checked = TRUE\n" % depth
    ctx.tlc("OpsTable", extra={"OpsTable.tla": mod}, cfg_text=cfg, env={"OUT": outp}, workers=1, timeout=600, count=False)
    rows = json.load(open(outp))
    return [{"ops": [T(p) for p in r["ops"]], "leaves": [T(p) for p in r["leaves"]]} for r in rows]


def explore_walk(ctx, depth, confs, nws, policies, runs):
    """Returns {(accept, apex): operations as TLC computed them}."""
    table = ops_table(ctx, depth, [(a, x) for a, x, g in confs])
    for (acc, apex, generic), row in zip(confs, table):
        ops = row["ops"]
        # serial twin
        ser = []
        with simrun.quiet():
            build_pyramid(depth, acc, apex, generic).walk(lambda pos: ser.append(T(pos)), parallel=1)
        ctx.count()
        judge_walk(ctx, "serial walk depth %d apex %s" % (depth, apex), ops, [(t, p, None) for p in ser for t in ("cb_start", "cb_end")],
                   "returned", None, [], {"depth": depth, "accept": sorted(acc), "apex": apex, "generic": generic}, keyprefix="C01:walk-serial")
        for nw in nws:
            for pol in policies:
                for k in range(runs):
                    log = []
                    out = simrun.run(walk_main(depth, acc, apex, nw, log, generic=generic), simrun.POLICIES[pol](ctx.rng))
                    ctx.count()
                    rep = {"depth": depth, "accept": sorted(acc), "apex": apex, "generic": generic, "workers": nw, "policy": pol,
                           "seed": ctx.seed, "trace_tail": [list(map(str, t)) for t in out.trace[-40:]]}
                    judge_walk(ctx, "parallel walk (%d workers, %s) depth %d apex %s" % (nw, pol, depth, apex), ops, log, out.status, out.exc,
                               out.workers_alive_at_return, rep)
                    if ops:
                        ctx.distinct(("sched", depth, nw, apex, tuple((a, o) for a, _op, o in out.trace)))
    return {(acc, apex): row["ops"] for (acc, apex, _g), row in zip(confs, table)}


def explore_geometry(ctx, depth, confs, table, boxes, box_depth, nws, policies, runs):
    """Filters that decide from the CORNERS the tile is shown with (what every footprint filter of the library does), for TOAST
    pyramids in both coordinate systems x sub-pyramid apexes, serial and parallel:
      (a) the position filters of `confs` (depth `depth`, operations in `table`) lifted to geometry in the pyramid's system;
      (b) latitude/longitude boxes through samplers._latlon_tile_filter: the accept set is the filter evaluated on the reference
          tile of every position IN THE PYRAMID'S OWN coordinate system; TLC computes the live set and operations from it.
    The same box accepts different positions in the two systems, so a walk that shows the filter tiles of the other system (or of
    no particular one) is not hidden by a symmetric input."""
    cases = []
    for csname, cs in coordsystems():
        for acc, apex in confs:
            cases.append(dict(cs=csname, kind="position filter lifted to the centres of the tile corners", depth=depth, acc=acc, apex=apex, ops=table[(acc, apex)],
                              build=(lambda cs=cs, csname=csname, acc=acc, apex=apex: build_geo(depth, lifted_filter(csname, cs, depth, acc), cs, apex))))
    boxconfs = []
    for csname, cs in coordsystems():
        for box in boxes:
            acc = box_accept(csname, cs, box_depth, box)
            reach = {ROOT}
            for n in range(1, box_depth + 1):
                reach |= {q_ for q_ in acc if q_[0] == n and (n - 1, q_[1] // 2, q_[2] // 2) in reach}
            l2in = sorted(q_ for q_ in reach if q_[0] == 2)
            l2out = sorted(q_ for q_ in level(2) if q_ not in reach)
            apexes = [ROOT] + sorted(q_ for q_ in reach if q_[0] == 1) + ctx.rng.sample(l2in, min(2, len(l2in))) + ctx.rng.sample(l2out, min(1, len(l2out)))
            l3in = sorted(q_ for q_ in reach if q_[0] == 3)
            apexes += ctx.rng.sample(l3in, min(1, len(l3in)))
            for apex in apexes:
                boxconfs.append((csname, cs, box, acc, apex))
    if boxconfs:
        btable = ops_table(ctx, box_depth, [(acc, apex) for _n, _c, _b, acc, apex in boxconfs], sparse=True)
        for (csname, cs, box, acc, apex), row in zip(boxconfs, btable):
            cases.append(dict(cs=csname, kind="latitude/longitude box lon [%.3f, %.3f] lat [%.3f, %.3f] rad (samplers._latlon_tile_filter)" % box, depth=box_depth,
                              acc=acc, apex=apex, ops=row["ops"], box=box,
                              build=(lambda cs=cs, box=box, apex=apex: build_geo(box_depth, box_filter(box), cs, apex))))
    for c in cases:
        ops, d, apex = c["ops"], c["depth"], c["apex"]
        what = "%s TOAST pyramid of depth %d, sub-pyramid apex %s, tile filter = %s" % (c["cs"], d, apex, c["kind"])
        rep0 = {"coordsys": c["cs"], "filter": c["kind"], "box": c.get("box"), "depth": d, "apex": apex, "accept_on_reference_geometry": sorted(c["acc"]), "seed": ctx.seed}
        ser = []
        with simrun.quiet():
            c["build"]().walk(lambda pos: ser.append(T(pos)), parallel=1)
        ctx.count()
        judge_walk(ctx, "serial walk, " + what, ops, [(t, p, None) for p in ser for t in ("cb_start", "cb_end")], "returned", None, [], rep0,
                   keyprefix="C01:walk-serial-geometry-filter")
        for nw in nws:
            for pol in policies:
                for k in range(runs):
                    log = []
                    out = simrun.run(walk_main(d, c["acc"], apex, nw, log, build=c["build"]), simrun.POLICIES[pol](ctx.rng))
                    ctx.count()
                    rep = dict(rep0, workers=nw, policy=pol, trace_tail=[list(map(str, t)) for t in out.trace[-40:]])
                    judge_walk(ctx, "parallel walk (%d workers, %s), %s" % (nw, pol, what), ops, log, out.status, out.exc, out.workers_alive_at_return, rep,
                               keyprefix="C01:walk-parallel-geometry-filter")
        if ops:
            ctx.distinct(("geometry", c["cs"], d, apex, c.get("box"), tuple(sorted(c["acc"]))[:8]))
            ctx.add_note("geometry_filter_cases_%s" % c["cs"])
    ex = [c for c in cases if c.get("box") and len(c["ops"]) >= 3 and c["apex"] != ROOT]
    if ex:
        c = ex[0]
        ctx.sample({"geometry_filter_case": {"coordsys": c["cs"], "box_rad": c["box"], "depth": c["depth"], "apex": c["apex"], "operations_from_tlc": sorted(c["ops"])}})


def explore_start_faults(ctx, depth, confs, table, nws, policies, runs):
    """The environment action StartFails of spec/WalkParStart.tla on the real code: Process.start of the k-th worker raises
    OSError (EAGAIN / ENOMEM), for every k, under the schedule policies (creation of the later workers interleaved with the steps
    of the earlier ones).  Admissible: the walk raises, or it returns with everything done; never a callback twice, for a
    non-operation, or before a live child's has completed - including what the workers created before the refusal do after
    the walk has ended."""
    for acc, apex, generic in confs:
        ops = table[(acc, apex)]
        for nw in nws:
            for k in range(1, nw + 1):
                for pol in policies:
                    for r in range(runs):
                        err = ("EAGAIN", "ENOMEM")[(k + r + nw) % 2]
                        log = []
                        hook = StartHook(k, err)
                        out = run_with_afterlife(hook.wrap(walk_main(depth, acc, apex, nw, log, generic=generic)), simrun.POLICIES[pol](ctx.rng), log)
                        ctx.count()
                        rep = {"depth": depth, "accept": sorted(acc), "apex": apex, "generic": generic, "workers": nw, "start_refused": k, "oserror": err, "policy": pol,
                               "seed": ctx.seed, "walk_ended": out.status, "callbacks_logged_when_the_walk_ended": getattr(out, "log_at_return", None),
                               "trace_tail": [list(map(str, t)) for t in out.trace[-60:]]}
                        judge_walk(ctx, "parallel walk (%d workers, %s) depth %d apex %s during which the start of worker %d is refused (OSError %s)" % (nw, pol, depth, apex, k, err),
                                   ops, log, out.status, out.exc, out.workers_alive_at_return, rep, keyprefix="C01:walk-parallel-start-refused",
                                   refused=hook.refused, at_return=getattr(out, "log_at_return", None))
                        if hook.refused:
                            ctx.distinct(("start-refused", depth, nw, k, apex, tuple((a, o) for a, _op, o in out.trace)))
                            ctx.add_note("walks_with_a_refused_worker_ending_%s" % out.status)
                            left = len(log) - (out.log_at_return or 0) if out.status in ("raised", "returned") else 0
                            if left:
                                ctx.add_note("callback_events_by_workers_left_behind", left)


def deep_sparse_cases(rng, ncases):
    """Deep, sparse filtered pyramids: two or three thin branches down to depth 15-19 whose tiles sit at large coordinates,
    pairs of them related by a power-of-two step in x and one step in y (positions that a packed or truncated key would
    confuse), the rest random.  Returns [(depth, accept set, apex)]."""
    out = []
    for _ in range(ncases):
        depth = rng.randint(15, 19)
        L = rng.randint(13, depth - 2)
        j = rng.choice([j_ for j_ in (4, 8, 10, 12, 16) if j_ < L])
        xa = rng.randrange(2 ** j, 2 ** L)
        ya = rng.randrange(1, 2 ** L - 1)
        dy = rng.choice([1, -1])
        b = (L, xa - 2 ** j, ya + dy)
        tiles = [(L, xa, ya), b]
        if rng.random() < 0.5:
            tiles.append((L, rng.randrange(2 ** L), rng.randrange(2 ** L)))
        acc = set()
        for t in tiles:
            q_ = t
            while q_[0] > 0:                       # ancestors
                acc.add(q_)
                q_ = (q_[0] - 1, q_[1] // 2, q_[2] // 2)
            q_ = t
            fan = rng.choice([1, 2, 4])            # children kept per level below the branch tile
            front = [t]
            while front and front[0][0] < depth:
                nxt = []
                for f in front:
                    ks = kids(f)
                    for k in rng.sample(ks, fan if f[0] == L else 1):
                        acc.add(k)
                        nxt.append(k)
                front = nxt
        out.append((depth, frozenset(acc), ROOT))
    return out


def explore_deep(ctx, ncases, policies, runs):
    by_depth = {}
    for d, acc, apex in deep_sparse_cases(ctx.rng, ncases):
        by_depth.setdefault(d, []).append((acc, apex))
    for depth, confs in sorted(by_depth.items()):
        table = ops_table(ctx, depth, confs, sparse=True)
        for (acc, apex), row in zip(confs, table):
            ops = row["ops"]
            big = max(max(p[1], p[2]) for p in ops)
            ser = []
            with simrun.quiet():
                build_pyramid(depth, acc, apex).walk(lambda pos: ser.append(T(pos)), parallel=1)
            ctx.count()
            rep0 = {"depth": depth, "accept": sorted(acc), "apex": apex, "largest_coordinate": big}
            judge_walk(ctx, "serial walk of a deep sparse pyramid (depth %d, coordinates to %d)" % (depth, big), ops,
                       [(t, p, None) for p in ser for t in ("cb_start", "cb_end")], "returned", None, [], rep0, keyprefix="C01:walk-serial")
            for pol in policies:
                for k in range(runs):
                    log = []
                    out = simrun.run(walk_main(depth, acc, apex, 3, log), simrun.POLICIES[pol](ctx.rng))
                    ctx.count()
                    rep = dict(rep0, workers=3, policy=pol, seed=ctx.seed, trace_tail=[list(map(str, t)) for t in out.trace[-40:]])
                    judge_walk(ctx, "parallel walk (3 workers, %s) of a deep sparse pyramid (depth %d, coordinates to %d)" % (pol, depth, big), ops, log,
                               out.status, out.exc, out.workers_alive_at_return, rep)
                    ctx.distinct(("deep", depth, tuple(sorted(acc))[:6], tuple((a, o) for a, _op, o in out.trace)))


def explore_cascade_route(ctx, depth, confs, nws):
    """The walk as its main caller reaches it: cascade_images(pio, start, merger, tile_filter=...) and Builder.cascade over a
    directory that holds a leaf tile at EVERY position of the deepest level (data outside the filter too).  The tiles the
    per-tile callback ran for are observable as the parent files it wrote: they must be exactly TLC's operation set, serially
    and with worker processes under the scheduler."""
    import numpy as np
    from toasty import pyramid as _py, merge, builder as _b
    table = ops_table(ctx, depth, [(a, x) for a, x in confs])
    for (acc, apex), row in zip(confs, table):
        ops = set(row["ops"])
        for route in ("cascade_images", "Builder.cascade"):
            for nw in nws:
                d = ctx.mkdtemp("casc")
                pio = _py.PyramidIO(d, default_format="npy")
                from toasty.image import Image
                for q_ in level(depth):
                    pio.write_image(_py.Pos(*q_), Image.from_array(np.full((256, 256), float(1 + q_[1] + 4 * q_[2]), dtype=np.float32)))
                flt = (lambda t, acc=acc: tuple(t.pos) in acc)

                def main(pio=pio, flt=flt, route=route, nw=nw):
                    if route == "cascade_images":
                        merge.cascade_images(pio, depth, merge.averaging_merger, parallel=nw, tile_filter=flt)
                    else:
                        bld = _b.Builder(pio)
                        bld.imgset.tile_levels = depth
                        try:
                            bld.cascade(parallel=nw, tile_filter=flt)
                        except Exception:  # noqa - reading the root back (which a filter may leave unbuilt) is not the walk
                            pass
                label = "%s(start=%d, tile_filter over %d accepted tiles, parallel=%d)" % (route, depth, len(acc), nw)
                rep = {"route": route, "depth": depth, "accept": sorted(acc), "workers": nw, "seed": ctx.seed}
                if nw == 1:
                    with simrun.quiet():
                        main()
                    status = "returned"
                else:
                    out = simrun.run(main, simrun.pol_random(ctx.rng))
                    status = out.status
                ctx.count()
                if status != "returned":
                    if status == "hang":
                        ctx.violation("C01:cascade-route:hang", "%s never returns" % label, rep)
                    continue
                built = set()
                for n in range(depth):
                    for q_ in level(n):
                        if os.path.exists(pio.tile_path(_py.Pos(*q_), makedirs=False)):
                            built.add(q_)
                if built != ops:
                    ctx.violation("C01:cascade-route:tiles-processed", "%s: the per-tile callback produced parents %s; the live non-leaf tiles of the filtered pyramid are %s"
                                  % (label, sorted(built - ops)[:5] and ("beyond the filter: %s" % sorted(built - ops)[:5]) or ("missing: %s" % sorted(ops - built)[:5]), sorted(ops)), rep)
                ctx.distinct(("cascade-route", route, nw, tuple(sorted(acc))))


def explore_children_first_under_fault(ctx, depth, confs, nw, runs):
    """The ordering sentence does not stop holding when a callback fails: a tile whose callback raised never completed, so no
    tile above it may be started (how the failure is reported is C19's subject)."""
    table = ops_table(ctx, depth, [(a, x) for a, x, g in confs])
    for (acc, apex, generic), row in zip(confs, table):
        ops = set(row["ops"])
        cand = [p for p in row["ops"] if p != tuple(apex)]
        for k in range(runs):
            if not cand:
                break
            it = cand[ctx.rng.randrange(len(cand))]
            log = []
            pol = ["late-timeout", "random", "stall-w1-cb"][k % 3]
            out = simrun.run(walk_main(depth, acc, apex, nw, log, faults={it}, generic=generic), simrun.POLICIES[pol](ctx.rng))
            ctx.count()
            done = set()
            for tag, p, who in log:
                if tag == "cb_end":
                    done.add(p)
                elif tag == "cb_start":
                    early = [c for c in kids(p) if c in ops and c not in done]
                    if early:
                        ctx.violation("C01:walk-parallel:children-first-after-failure",
                                      "parallel walk (%d workers, %s) depth %d: the callback of %s raised, yet the callback for %s started although its child %s never completed"
                                      % (nw, pol, depth, it, p, early[0]),
                                      {"depth": depth, "accept": sorted(acc), "apex": apex, "fault": it, "policy": pol, "trace_tail": [list(map(str, t)) for t in out.trace[-40:]]})
                        break
            ctx.distinct(("fault-order", depth, it, tuple((a, o) for a, _op, o in out.trace)))


def explore_history(ctx, acc, apex, depths, nw=2):
    """One Pyramid OBJECT walked repeatedly while its (documented as changeable) depth attribute is changed in between, the
    counts being asked for in between as a user would: every walk must match the operation set TLC gives for the depth of
    the moment, serially and in parallel."""
    from toasty.pyramid import Pos
    tables = {d: ops_table(ctx, d, [(acc, apex)])[0]["ops"] for d in sorted(set(depths)) if d >= apex[0]}
    p = build_pyramid(depths[0], acc, apex)
    hist = []
    for step, d in enumerate(depths):
        if d < apex[0]:
            continue
        p.depth = d
        hist.append(d)
        with simrun.quiet():
            p.count_operations()
            p.count_leaf_tiles()
        ops = tables[d]
        rep = {"accept": sorted(acc), "apex": apex, "depth_history": list(hist), "seed": ctx.seed}
        ser = []
        with simrun.quiet():
            p.walk(lambda pos: ser.append(T(pos)), parallel=1)
        ctx.count()
        judge_walk(ctx, "serial walk on a reused Pyramid object after depth changes %s" % (hist,), ops, [(t, q_, None) for q_ in ser for t in ("cb_start", "cb_end")],
                   "returned", None, [], rep, keyprefix="C01:walk-serial-history")
        log = []

        def cb(pos):
            simmp.cb_sync("cb_start", T(pos), log)
            simmp.cb_sync("cb_end", T(pos), log)
        out = simrun.run(lambda: p.walk(cb, parallel=nw), simrun.pol_random(ctx.rng))
        ctx.count()
        judge_walk(ctx, "parallel walk on a reused Pyramid object after depth changes %s" % (hist,), ops, log, out.status, out.exc, out.workers_alive_at_return,
                   rep, keyprefix="C01:walk-parallel-history")
        ctx.distinct(("history", tuple(sorted(acc)), apex, tuple(hist)))


def real_walk(ctx, depth, acc, apex, parallel, generic=False, refuse=None):
    """Real processes; callbacks draw tickets from a shared counter (before the work at start, after it at end).
    refuse = k: the k-th Process.start of the walk raises OSError(EAGAIN) (no process is forked); the workers forked before
    are given time to do what they will before the logs are read."""
    import multiprocessing as mp
    d = ctx.mkdtemp("realwalk")
    ticket = mp.Value("i", 0)

    def cb(pos):
        with ticket.get_lock():
            ticket.value += 1
            t0 = ticket.value
        # the "work"
        x = 0
        for i in range(2000):
            x += i
        with ticket.get_lock():
            ticket.value += 1
            t1 = ticket.value
        with open(os.path.join(d, "log-%d" % os.getpid()), "a") as f:
            f.write("%d %d %d %d %d %d\n" % (pos.n, pos.x, pos.y, t0, t1, os.getpid()))
    table = ops_table(ctx, depth, [(acc, apex)])

    def body():
        st, ex = "returned", None
        nstart = [0]
        if refuse:
            real_process = mp.Process

            class RefusedProcess(real_process):
                def start(self):
                    nstart[0] += 1
                    if nstart[0] == refuse:
                        raise OSError(*START_ERRORS["EAGAIN"])
                    real_process.start(self)
            mp.Process = RefusedProcess
        with simrun.quiet():
            try:
                build_pyramid(depth, acc, apex, generic).walk(cb, parallel=parallel)
            except Exception as e:  # noqa
                st, ex = "raised", repr(e)
            al = [c.pid for c in mp.active_children() if c.is_alive()] if st == "returned" else []
            if refuse:
                import time
                time.sleep(2.5)     # only to let the workers left behind show what they do; no verdict depends on it
        return st, ex, al, nstart[0]
    from lib import guard
    kind, val = guard.run_guarded(body, 120)
    if kind == "timeout":
        status, exc, alive = "hang", None, []
    elif kind == "raised":
        status, exc, alive = "raised", val, []
    else:
        status, exc, alive, nstart = val
    refused = bool(refuse) and kind == "ok" and nstart >= refuse
    ev = []
    for fn in os.listdir(d):
        for line in open(os.path.join(d, fn)):
            n, x, y, t0, t1, pid = map(int, line.split())
            ev.append((t0, "cb_start", (n, x, y), pid))
            ev.append((t1, "cb_end", (n, x, y), pid))
    ev.sort()
    log = [(tag, p, pid) for _t, tag, p, pid in ev]
    ctx.count()
    ctx.distinct(("real", depth, parallel, apex, tuple(sorted(acc)), refuse))
    bad = judge_walk(ctx, "real-process walk (%d workers%s) depth %d apex %s" % (parallel, ", start of worker %d refused with OSError EAGAIN" % refuse if refuse else "", depth, apex),
                     table[0]["ops"], log, status, exc, alive,
                     {"depth": depth, "accept": sorted(acc), "apex": apex, "workers": parallel, "real_processes": True, "start_refused": refuse},
                     keyprefix="C01:walk-parallel-real", refused=refused)
    if refuse:
        ctx.add_note("real_process_walks_with_a_refused_worker_ending_%s" % status)
    # code -> spec: the recorded trace must be a behaviour of WalkPar (TLC finds the silent steps in between)
    if status == "returned" and not generic and len(log) <= 40:
        pids = []
        for _tag, _p, pid in log:
            if pid not in pids:
                pids.append(pid)
        if len(pids) <= parallel:
            trace = [[("s" if tag == "cb_start" else "e"), list(p), pids.index(pid) + 1] for tag, p, pid in log]
            mod = tla.module("TraceConf", ["WalkParTrace"], [("ConfAccept", tla.lit({frozenset(acc)})), ("ConfApex", tla.lit({tuple(apex)})),
                                                            ("ConfFaults", "{{}}"), ("TraceSeq", tla.lit(trace))])
            cfg = ("SPECIFICATION TSpec\nCONSTANTS\n Depth = %d\n NW = %d\n Cap = %d\n AcceptSets <- ConfAccept\n Apexes <- ConfApex\n FaultSets <- ConfFaults\n"
                   " Checked = TRUE\n Trace <- TraceSeq\nINVARIANT NotExplained\nINVARIANT OnlyOps\nINVARIANT ChildrenFirst\nINVARIANT AtMostOnce\nCHECK_DEADLOCK FALSE\n"
                   % (depth, parallel, 2 * parallel))
            r = ctx.tlc("TraceConf", extra={"TraceConf.tla": mod}, cfg_text=cfg, expect_violation=True, timeout=900, count=False)
            if r.violated == "NotExplained":
                ctx.trace_ok()
                ctx.add_note("real_process_traces_accepted_by_tlc")
                if not ctx.quick and len(trace) >= 4:
                    # negative control: a corrupted recording (last completion moved to the front) must be rejected
                    bad_trace = [trace[-1]] + trace[:-1]
                    mod2 = mod.replace(tla.lit(trace), tla.lit(bad_trace))
                    r2 = ctx.tlc("TraceConf", extra={"TraceConf.tla": mod2}, cfg_text=cfg, expect_violation=True, timeout=900, count=False)
                    if r2.violated == "NotExplained":
                        ctx.machinery("trace validation accepted a corrupted trace (binding is vacuous)")
                    ctx.add_note("corrupted_traces_rejected_by_tlc")
            elif not bad:
                ctx.drift("real-process walk trace (%d events, %d workers) is not a behaviour of WalkPar according to TLC (%s)" % (len(trace), parallel, r.violated))


def run(ctx):
    repo.setup(ctx)
    q = ctx.quick
    ctx.rule = ("TLC explores spec/WalkPar.tla exhaustively (every interleaving of dispatcher, feeder threads, worker sub-steps, timeouts) for a family "
                "of depth-2 filters x apexes with 2 (thorough: 3) workers; simulated behaviours are replayed into the real _walk_parallel with state "
                "comparison after each step; the real walk is explored under seeded random/adversarial schedules and with real processes. Inputs also "
                "include filters deciding from tile corners (lifted position filters, seeded latitude/longitude boxes) in both TOAST coordinate systems x "
                "apexes, the accept set being the filter on the reference geometry of the pyramid's own system; the environment also refuses the k-th "
                "worker start (spec/WalkParStart.tla exhaustive for every k; replayed; injected for every k under the schedule policies). distinct = "
                "distinct full schedules / replayed behaviours / geometry cases with at least one operation")
    l1 = level(1)
    full2 = with_kids(l1, 2)
    # NB: the family must not be symmetric under exchanging x and y (slots 1 and 2), or index mix-ups stay invisible
    fam = [full2, with_kids(l1[1:2], 2), with_kids([l1[0], l1[1]], 2), with_kids([l1[0], l1[2], l1[3]], 2),
           frozenset(l1) | {(2, 1, 0), (2, 3, 3), (2, 0, 3)},                    # tiles accepted without any accepted child
           with_kids([l1[1], l1[3]], 2) | {l1[2]},
           frozenset(l1)]                                                        # nothing to do
    apexes = [ROOT, (1, 1, 0), (2, 0, 0)]
    # (1) exhaustive
    import concurrent.futures
    pool = concurrent.futures.ThreadPoolExecutor(max_workers=3)
    pending = []
    if q:
        # two independent halves of the family, side by side with the replay and exploration below
        for part in (fam[:3], fam[3:5]):
            pending.append(pool.submit(lambda part=part: ctx.tlc("Conf", extra={"Conf.tla": conf_module("Conf", "WalkPar", part, [ROOT, (1, 1, 0)])},
                                                                 cfg_text=CFG % dict(depth=2, nw=2, cap=4), timeout=900, workers=5)))
        # (1') the worker-creation phase with the k-th start refused (k = 0: none), both admissible outcomes
        pending.append(pool.submit(lambda: ctx.tlc("SConf", extra={"SConf.tla": conf_module("SConf", "WalkParStart", [fam[1], fam[3]], [ROOT], start=[0, 1, 2])},
                                                   cfg_text=START_CFG % dict(depth=2, nw=2, cap=4), timeout=900, workers=4)))
    else:
        ctx.tlc("SConf", extra={"SConf.tla": conf_module("SConf", "WalkParStart", [fam[1], fam[3], fam[4]], [ROOT, (1, 1, 0)], start=[0, 1, 2])},
                cfg_text=START_CFG % dict(depth=2, nw=2, cap=4), timeout=3000)
        ctx.tlc("SConf", extra={"SConf.tla": conf_module("SConf", "WalkParStart", [fam[1], fam[3]], [ROOT], start=[0, 1, 2, 3])},
                cfg_text=START_CFG % dict(depth=2, nw=3, cap=6), timeout=3000)
        # negative control: the reaction to a refusal that is NOT admissible must be rejected by the same invariant
        rneg = ctx.tlc("BConf", extra={"BConf.tla": conf_module("BConf", "WalkParStartBad", [fam[1], fam[3]], [ROOT], start=[2])},
                       cfg_text=BAD_CFG % dict(depth=2, nw=2, cap=4), expect_violation=True, timeout=900, workers=2, count=False)
        if rneg.violated != "AtMostOnce":
            ctx.machinery("WalkParStartBad (serial fallback beside live workers) is not rejected by AtMostOnce (TLC: %s): the start-refusal model is vacuous" % rneg.violated)
        ctx.add_note("inadmissible_fallback_rejected_by_tlc")
        allpat = [with_kids(list(s), 2) for r in range(5) for s in __import__("itertools").combinations(l1, r)] + fam[4:]
        ctx.tlc("Conf", extra={"Conf.tla": conf_module("Conf", "WalkPar", allpat, apexes, "one")}, cfg_text=CFG % dict(depth=2, nw=2, cap=4), timeout=3000)
        ctx.tlc("Conf", extra={"Conf.tla": conf_module("Conf", "WalkPar", fam[:5], [ROOT, (1, 1, 0)])}, cfg_text=CFG % dict(depth=2, nw=3, cap=6), timeout=3000)
        d3 = [with_kids([(1, 0, 0)], 3) - {(3, 0, 0), (3, 1, 1), (2, 1, 1)}, with_kids([(2, 1, 0), (2, 2, 3)], 3) | {(1, 0, 0), (1, 1, 1)}]
        ctx.tlc("Conf", extra={"Conf.tla": conf_module("Conf", "WalkPar", d3, [ROOT, (1, 0, 0)])}, cfg_text=CFG % dict(depth=3, nw=2, cap=4), timeout=3000)
    # (2) replay
    ok, drift = replay_walk(ctx, 2, 2, fam[:6], apexes[:2], 60 if q else 600)
    # (2') ... worker creation included: no start refused (workers act while later ones are being created) / the 2nd (thorough: any) refused
    _, drift_s = replay_walk(ctx, 2, 2, [fam[1], fam[3], fam[4]], apexes[:2], 20 if q else 300, start=[0, 2] if q else [0, 1, 2])
    drift3 = False
    if not q:
        replay_walk(ctx, 2, 3, [fam[1], fam[3]], apexes[:2], 150, start=[1, 2, 3])
        _, drift3 = replay_walk(ctx, 2, 3, fam[:5], apexes[:2], 200)
        d3 = [with_kids([(1, 0, 0), (1, 1, 1)], 3) - {(3, 0, 0), (3, 7, 7), (2, 1, 1)}, with_kids(l1, 3)]
        replay_walk(ctx, 3, 2, d3, [ROOT, (1, 1, 1), (2, 0, 1)], 100, simdepth=1500)
    # (3) exploration of the real code
    confs = [(a, x, False) for a in fam[:6] for x in (apexes if not q else apexes[:2])] + [(full2, ROOT, True), (full2, (1, 0, 1), True)]
    runs = (2 if q else 12) * (4 if (drift or drift3) else 1)
    table2 = explore_walk(ctx, 2, confs, [2, 3] if q else [2, 3, 5], ["random", "starve-feeder", "eager-timeout", "stall-w1-cb", "main-last"] if q else list(simrun.POLICIES), runs)
    # (5) filters deciding from the tile's corners x both coordinate systems x apexes (operations: the same TLC table / TLC's sparse live set)
    rb = ctx.rng
    boxes = []
    for _ in range(2 if q else 8):
        lon0, lat0 = rb.uniform(-3.1, 3.1), rb.uniform(-1.35, 0.9)
        boxes.append((round(lon0, 4), round(lon0 + rb.uniform(0.25, 1.4), 4), round(lat0, 4), round(min(lat0 + rb.uniform(0.2, 0.9), 1.5), 4)))
    explore_geometry(ctx, 2, [(a, x) for a in fam[:6] for x in (apexes if not q else apexes[:2])], table2, boxes, 4 if q else 5,
                     [3] if q else [2, 3], ["random"] if q else ["random", "stall-w1-cb", "main-last"], 1 if q else 2)
    # (6) the k-th worker refused by the operating system
    sconfs = [(full2, ROOT, True), (fam[3], ROOT, False), (fam[1], (1, 1, 0), False)] + ([] if q else [(fam[4], ROOT, False), (fam[5], ROOT, False)])
    explore_start_faults(ctx, 2, sconfs, table2, [2, 3] if q else [2, 3, 5],
                         ["random", "main-last", "stall-w1-cb"] if q else ["random", "main-last", "stall-w1-cb", "main-first", "starve-feeder", "late-timeout", "eager-timeout"],
                         (2 if q else 6) * (4 if drift_s else 1))
    acc3 = with_kids([(1, 0, 0), (1, 1, 1)], 3) - {(3, 0, 0), (3, 7, 7), (2, 1, 1), (2, 2, 2)}
    explore_walk(ctx, 3, [(acc3, ROOT, False), (acc3, (1, 1, 1), False), (with_kids(l1, 3), (2, 1, 2), True)], [2, 4],
                 ["random", "starve-feeder", "stall-w1-cb"], 2 if q else 10)
    explore_walk(ctx, 1, [(frozenset(l1[:2]), ROOT, False), (frozenset(l1), (1, 0, 0), False)], [2], ["random"], 2)
    explore_children_first_under_fault(ctx, 2, [(full2, ROOT, True), (fam[3], ROOT, False)], 2, 3 if q else 12)
    # (3a) deep, sparse pyramids: positions at large coordinates (beyond 2^12 and 2^16), expected operations from TLC's sparse
    # computation of the live set
    explore_deep(ctx, 5 if q else 40, ["random", "stall-w1-cb", "late-timeout"] if q else ["random", "stall-w1-cb", "late-timeout", "starve-feeder", "flag-race"], 2 if q else 4)
    # (3a') the walk reached through its main callers
    explore_cascade_route(ctx, 2, [(fam[1], ROOT), (fam[3], ROOT)] if q else [(fam[1], ROOT), (fam[3], ROOT), (fam[4], ROOT), (fam[5], ROOT)], [1, 2])
    # (3b) histories on one object
    explore_history(ctx, acc3, (2, 0, 1), [2, 3, 2, 3])
    explore_history(ctx, acc3, ROOT, [1, 3, 2])
    if not q:
        explore_history(ctx, with_kids(l1, 3), (3, 5, 2), [3, 3, 2, 3], nw=3)
        explore_history(ctx, acc3, (1, 1, 1), [3, 1, 2, 3])
    # (4) real processes
    real_walk(ctx, 2, fam[4], ROOT, 2)
    if not q:
        real_walk(ctx, 3, with_kids(l1, 3), ROOT, 3, generic=True, refuse=3)
        real_walk(ctx, 2, fam[3], ROOT, 2, refuse=2)
        real_walk(ctx, 3, acc3, ROOT, 3)
        real_walk(ctx, 2, full2, (1, 1, 0), 5, generic=True)
        real_walk(ctx, 3, with_kids(l1, 3), ROOT, 4, generic=True)
    for f in pending:
        f.result()
    pool.shutdown()
    ctx.assume("CPython's multiprocessing.Queue/Event/Process behave like the fake ones of lib/simmp.py; the real-process runs sample that")
    ctx.assume("the serial walk's conformance to the same Live/Ops definitions is the subject of C13 (spec/Reduce.tla)")
    ctx.assume("the reference geometry of a coordinate system is toast.create_single_tile(pos, coordsys) (judged against TLC's lattice by C04); a tile filter "
               "is a pure function of the corners it is shown")
    ctx.assume("a refused worker start raises OSError out of Process.start and leaves no process behind (what fork() does on EAGAIN / ENOMEM)")
