"""G04 (growth specification, DESIGN.md section 7) - FitsTiler and the all-in-one toasty.tile_fits as a state machine.

Spec: spec/FitsTiler.tla (+ spec/MCFitsTiler.tla; the input data is the generated module FitsTilerData, of which
spec/FitsTilerData.tla is a small instance that makes spec/MCFitsTiler.cfg runnable on its own).  The output directories
a call may touch (an explicit `out_dir` and the directories derived from the first input's name) under a SEQUENCE of
calls (files, hdu_index, wcs_key, blankval, tiling_method, out_dir, override): the choice of the tiling method
(AUTO_DETECT by angular extent -> TAN / TOAST; HiPS is unavailable here and modelled as such), the derivation of
out_dir, reuse of an existing directory versus override=True, WHEN an impossible selection / an inexpressible WCS / an
entirely blank input makes the call raise and what is left behind, what the caller gets back (projection, tile levels,
DATAMIN / DATAMAX, Url / FileType, name, centre) and what is on disk afterwards (tile positions, the values found in the
deepest tiles, the root tile's range, index_rel.wtml).  The tiles a study image touches are StudyTiling!SubTiling /
Rects, Url / FileType / Deepest are Wtml's.

TLC (a) explores every history of calls of a command table up to a bound and checks the contract (the returned builder
describes tiles that exist on disk whenever the directory carries its WTML; fresh / override directories reflect the
current call only; the method is a function of the request and the collection's extent; repeated identical calls are
idempotent; a call touches its own directory only; the caller is served the description of the call that built the
directory), (b) refutes the "ideal" statements the code does not keep (the counterexamples are the shortest histories /
witness inputs) and, as a control of the machine itself, CompleteIsConsistent for an override that keeps the old tiles,
(c) evaluates given histories (crafted, seeded random; inputs only) and its own random walks and emits what every call
returns and every directory afterwards, (d) emits the state-independent table (method, derived directory, outcome
class) of a second command table that adds an all-sky plate-carree map, anisotropic images and irregular path names.

Binding (spec -> code): the FITS files are built from the same tables that are handed to TLC (the sky positions of the
corner / midpoint pixel coordinates are measured on the files with astropy); every emitted history is replayed, all
calls of a history in one process and one scratch tree, alternately through toasty.tile_fits and through
collection.load + FitsTiler(...).tile(...); after EVERY call the returned out_dir / Builder (or the exception), the
FitsTiler's tiling_method / out_dir, and every candidate directory (existence, tile files, distinct finite values of
the deepest tiles, root DATAMIN / DATAMAX, index_rel.wtml read as XML) are compared with the record TLC printed.  A
disagreement on a step where the model follows the code away from the documented behaviour (DEVIATION_ACTS) is drift.
"""
import os
import shutil
import signal

from lib import repo, tla

MARKER = 0          # the pixel value a caller may name as blankval (0: `if blankval:` would ignore it)

# ------------------------------------------------------------------------------------------------
# INPUT tables: grids, files, HDUs.  (Python may enumerate inputs; what the calls do with them comes from TLC.)
# ------------------------------------------------------------------------------------------------
TAN = ("RA---TAN", "DEC--TAN")
GRIDS = {
    # name: ctype, crval (integers), |cdelt1|, cdelt2 in degrees per pixel
    "G1": (TAN, (40, 10), 0.05, 0.05),            # fine: 300 px = 15 degrees (small); TOAST level 4
    "G2": (TAN, (45, 0), 0.75, 0.75),             # coarse: 16 px = 12 degrees (small), two images 30 px apart are large; level 1
    "GN": (TAN, (40, 0), 0.3, 0.03),              # anisotropic pixels: WWT cannot express them
    "GS": (("RA---CAR", "DEC--CAR"), (180, 0), 5.625, 5.625),   # all-sky plate carree
}


def img(w, h, q, *wcs):
    """wcs: (key, grid, ox, oy) - the lattice position of the image's top-left pixel on the grid (row 0 on top)."""
    return {"img": True, "w": w, "h": h, "q": tuple(q), "wcs": [dict(key=k, grid=g, ox=ox, oy=oy) for k, g, ox, oy in wcs]}


EMPTY = {"img": False, "w": 0, "h": 0, "q": (), "wcs": []}
PATHVAR = img(8, 8, (61, 62, 63, 64), (" ", "G2", 0, 0))

FILES = {
    # the machine's files
    "a": ("a.fits", [img(16, 12, (11, 12, MARKER, 12), (" ", "G1", 0, 0), ("A", "G2", 0, 0)),
                     img(300, 16, (21, 22, MARKER, 23), (" ", "G1", 0, 20))]),
    "b": ("sub.d/b.v2.fits.gz", [EMPTY,
                                 img(16, 12, (31, 32, MARKER, 33), (" ", "G1", 40, 0), ("A", "G2", 30, 0)),
                                 img(24, 24, (41, 42, 43, 44), (" ", "G1", 40, 40))]),
    "c": ("d.x/c", [img(8, 8, (MARKER, MARKER, MARKER, MARKER), (" ", "G1", 0, 40))]),      # no extension; all one value
    "n": ("n.fits", [img(100, 10, (51, 52, MARKER, 53), (" ", "GN", -50, -5))]),           # 30 x 0.3 degrees
    # only in the state-independent table
    "n2": ("n2.fits", [img(10, 100, (51, 52, MARKER, 53), (" ", "GN", -5, -50))]),         # 3 x 3 degrees
    "sky": ("sky.fits", [img(64, 32, (71, 72, 73, 74), (" ", "GS", -32, -16))]),
    "p1": ("p/plain", [PATHVAR]), "p2": ("x.gzip/q.fits", [PATHVAR]), "p3": ("r.fits.gz", [PATHVAR]),
    "p4": ("./s.fits", [PATHVAR]), "p5": ("../u", [PATHVAR]), "p6": ("t.FITS", [PATHVAR]), "p7": ("v.fit.gz.bak", [PATHVAR]),
}
MACHINE_FILES = ["a", "b", "c", "n"]
CWD = "w"           # the calls are made from <root>/w; "../u" lives in <root>


def header_cards(hdu, sol):
    from astropy.wcs import WCS
    ctype, crval, sx, sy = GRIDS[sol["grid"]]
    w = WCS(naxis=2)
    w.wcs.ctype = list(ctype)
    w.wcs.crval = [float(crval[0]), float(crval[1])]
    w.wcs.crpix = [1.0 - sol["ox"], float(hdu["h"] + sol["oy"])]      # FITS rows run bottom-up
    w.wcs.cdelt = [-sx, sy]
    return w.to_header(key=None if sol["key"] == " " else sol["key"])


def pixels(hdu):
    import numpy as np
    w, h, q = hdu["w"], hdu["h"], hdu["q"]
    disp = np.empty((h, w), dtype=np.float32)            # display orientation: row 0 on top
    disp[:h // 2, :w // 2] = q[0]
    disp[:h // 2, w // 2:] = q[1]
    disp[h // 2:, :w // 2] = q[2]
    disp[h // 2:, w // 2:] = q[3]
    return np.ascontiguousarray(disp[::-1])


def build_files(root):
    """Write every file of FILES under root (paths relative to root/CWD) and measure, on the written files, the sky
    position of the pixel coordinates <<x, y>>, x, y in {0, w/2, h/2, w, h}, of every WCS solution -> {(file, hdu, key): pts}."""
    import warnings
    import numpy as np
    from astropy.io import fits
    from astropy.wcs import WCS
    meas = {}
    os.makedirs(os.path.join(root, CWD), exist_ok=True)
    with warnings.catch_warnings():
        warnings.simplefilter("ignore")
        for fid, (rel, hdus) in FILES.items():
            path = os.path.normpath(os.path.join(root, CWD, rel))
            os.makedirs(os.path.dirname(path), exist_ok=True)
            hl = []
            for j, hdu in enumerate(hdus):
                if not hdu["img"]:
                    hl.append(fits.PrimaryHDU())
                    continue
                hd = fits.Header()
                for sol in hdu["wcs"]:
                    hd.update(header_cards(hdu, sol))
                hl.append(fits.PrimaryHDU(pixels(hdu), header=hd) if j == 0 else fits.ImageHDU(pixels(hdu), header=hd))
            tmp = path + ".tmp.fits" + (".gz" if path.endswith(".gz") else "")
            fits.HDUList(hl).writeto(tmp, overwrite=True)
            os.replace(tmp, path)
            with fits.open(path) as hdul:
                for j, hdu in enumerate(hdus):
                    for sol in hdu.get("wcs", []):
                        wcs = WCS(hdul[j].header, key=sol["key"])
                        pts = []
                        grid = sorted({0, hdu["w"], hdu["h"], hdu["w"] // 2, hdu["h"] // 2})
                        for x in grid:
                            for y in grid:
                                c = wcs.pixel_to_world(x, y)
                                ra, dec = np.radians(float(c.ra.deg)), np.radians(float(c.dec.deg))
                                v = (np.cos(dec) * np.cos(ra), np.cos(dec) * np.sin(ra), np.sin(dec))
                                ok = all(np.isfinite(v))
                                pts.append({"xy": (x, y), "v": tuple(int(round(1e4 * t)) for t in v) if ok else ()})
                        meas[(fid, j, sol["key"])] = pts
    return meas


def chars(s):
    if '"' in s or "\\" in s:
        raise ValueError(s)
    return tuple(s)


def tla_tables(meas):
    import math
    rows = []
    for fid, (rel, hdus) in FILES.items():
        hs = []
        for j, hdu in enumerate(hdus):
            sols = []
            for sol in hdu["wcs"]:
                ctype, crval, sx, sy = GRIDS[sol["grid"]]
                sols.append({"key": sol["key"], "grid": sol["grid"], "ox": sol["ox"], "oy": sol["oy"],
                             "scale": int(round(math.sqrt(sx * sy) * 60000)),
                             "tan": ctype == TAN and abs(sx - sy) / (sx + sy) <= 0.05,
                             "crval": tuple(crval), "pts": tuple(meas[(fid, j, sol["key"])])})
            hs.append({"img": hdu["img"], "w": hdu["w"], "h": hdu["h"], "q": tuple(hdu["q"]), "wcs": tuple(sols)})
        rows.append((fid, rel, tuple(hs)))
    return [("MCFiles", tla.lit(set(r[0] for r in rows))),
            ("MCPathOf", " @@ ".join("(%s :> %s)" % (tla.lit(f), tla.lit(chars(rel))) for f, rel, _h in rows)),
            ("MCHdus", " @@\n  ".join("(%s :> %s)" % (tla.lit(f), tla.lit(h)) for f, _r, h in rows))]


# ------------------------------------------------------------------------------------------------
# calls (INPUTS)
# ------------------------------------------------------------------------------------------------
def call(files, hdu=None, key=" ", blank=False, method="AUTO", out=None, override=False):
    return {"files": tuple(files), "hdu": hdu if hdu is None or isinstance(hdu, int) else tuple(hdu), "key": key, "blank": bool(blank),
            "method": method, "out": out, "override": bool(override)}


def call_key(c):
    return (c["files"], c["hdu"], c["key"], c["blank"], c["method"], c["out"], c["override"])


def call_tla(c):
    h = c["hdu"]
    hd = {"form": "none", "v": ()} if h is None else ({"form": "one", "v": (h,)} if isinstance(h, int) else {"form": "each", "v": tuple(h)})
    return tla.lit({"files": tuple(c["files"]), "hdu": hd, "key": c["key"], "blank": c["blank"], "method": c["method"],
                    "out": chars(c["out"]) if c["out"] else (), "override": c["override"]})


def call_text(c):
    a = [",".join(c["files"])]
    if c["hdu"] is not None:
        a.append("hdu_index=%s" % (list(c["hdu"]) if isinstance(c["hdu"], tuple) else c["hdu"]))
    if c["key"] != " ":
        a.append("wcs_key=%r" % c["key"])
    if c["blank"]:
        a.append("blankval=%d" % MARKER)
    if c["method"] != "AUTO":
        a.append(c["method"])
    if c["out"]:
        a.append("out_dir=%r" % c["out"])
    if c["override"]:
        a.append("override")
    return "tile_fits(%s)" % ", ".join(a)


SELECTIONS = [(("a",), None), (("a",), 1), (("b",), None), (("b",), 1), (("c",), None), (("c",), 1), (("n",), None), (("n",), 1),
              (("a", "b"), None), (("a", "b"), 1), (("a", "b"), (1, 2)), (("b", "a"), None), (("b", "a"), 1), (("b", "a"), (2, 0))]
METHODS = ["AUTO", "TAN", "TOAST", "HIPS"]


def machine_table():
    out = []
    for files, hdu in SELECTIONS:
        for key in (" ", "A"):
            for blank in (False, True):
                for method in METHODS:
                    for o in (None, "out"):
                        for ov in (False, True):
                            out.append(call(files, hdu, key, blank, method, o, ov))
    # an explicit directory that is also the directory derived for `a` under TAN
    for hdu in (None, 1):
        for key in (" ", "A"):
            for blank in (False, True):
                for method in METHODS:
                    for ov in (False, True):
                        out.append(call(("a",), hdu, key, blank, method, "a_tiled", ov))
    return out


def reduced_table():
    """A sub-table for the deeper exhaustive bound: one explicit directory and the derived ones of `a`, every branch of
    FitsTiler.tile reachable (reuse of another selection / method, impossible selections, HiPS, late failures)."""
    out = []
    for files, hdu, key in [(("a",), None, " "), (("a",), 1, " "), (("a",), None, "A"), (("a",), 1, "A"), (("c",), None, " "),
                            (("n",), None, " "), (("a", "b"), None, "A"), (("a", "b"), (1, 2), " ")]:
        for blank in (False, True):
            for method in METHODS:
                for o in (None, "out"):
                    for ov in (False, True):
                        if blank and files not in (("a",), ("c",)):
                            continue
                        out.append(call(files, hdu, key, blank, method, o, ov))
    return out


def choice_table():
    """The state-independent table: every collection of the machine under every method with a derived directory, plus
    the all-sky map, the anisotropic images and the irregular path names."""
    out = []
    for files, hdu in SELECTIONS:
        for key in (" ", "A"):
            for method in METHODS:
                out.append(call(files, hdu, key, False, method, None, False))
    for files in (("sky",), ("n2",), ("n",)):
        for method in METHODS:
            out.append(call(files, None, " ", False, method, None, False))
    for f in ("p1", "p2", "p3", "p4", "p5", "p6", "p7", "c", "b"):
        for method in ("AUTO", "TOAST", "HIPS"):
            out.append(call((f,), None, " ", False, method, None, False))
    seen, uniq = set(), []
    for c in out:
        if call_key(c) not in seen:
            seen.add(call_key(c))
            uniq.append(c)
    return uniq


def crafted_scripts():
    A, B, C, N, AB, BA = ("a",), ("b",), ("c",), ("n",), ("a", "b"), ("b", "a")
    o = "out"
    return [
        # the documented life: tile, reuse, override
        ("fresh-reuse-override", [call(A, out=o), call(A, out=o), call(A, out=o, override=True), call(A, out=o)]),
        # a later call with another hdu_index / wcs_key / blankval / method / file list is served the earlier tiles
        ("reuse-other-hdu", [call(A, out=o), call(A, 1, out=o), call(A, 1, out=o, override=True), call(A, out=o)]),
        ("reuse-other-key", [call(A, out=o), call(A, key="A", out=o), call(A, key="A", method="TOAST", out=o), call(A, key="A", method="TOAST", out=o, override=True)]),
        ("reuse-other-blank", [call(A, blank=True, out=o), call(A, out=o), call(A, out=o, override=True), call(A, blank=True, out=o)]),
        ("reuse-other-method", [call(A, method="TOAST", out=o), call(A, method="TAN", out=o), call(A, method="HIPS", out=o), call(A, method="TAN", out=o, override=True)]),
        ("reuse-other-files", [call(AB, 1, out=o), call(B, out=o), call(BA, (2, 0), out=o, override=True), call(AB, (1, 2), out=o)]),
        ("reuse-impossible-selection", [call(A, out=o), call(A, 1, key="A", method="TAN", out=o), call(A, 1, key="A", out=o), call(C, 1, method="TOAST", out=o)]),
        # derived directories: one per method and first input
        ("derived-per-method", [call(A), call(A, method="TOAST"), call(A), call(A, method="TOAST", blank=True)]),
        ("derived-first-input", [call(AB), call(BA), call(AB, 1), call(BA, 1, override=True)]),
        ("derived-auto-by-key", [call(AB, key="A"), call(AB), call(AB, key="A", blank=True), call(B, 1, key="A")]),
        ("derived-irregular-names", [call(C), call(B), call(C, method="TOAST"), call(B, 1, method="TOAST")]),
        ("derived-vs-explicit", [call(A, out="a_tiled"), call(A, 1), call(A, method="TOAST", out="a_tiled"), call(A, 1, override=True)]),
        # override removes first
        ("override-then-hips", [call(A, out=o), call(A, method="HIPS", out=o, override=True), call(A, 1, out=o), call(A, method="HIPS", out=o)]),
        ("override-impossible-selection", [call(A, 1, out=o), call(A, 1, key="A", method="TAN", out=o, override=True), call(A, 1, key="A", out=o, override=True), call(B, out=o)]),
        ("override-auto-impossible", [call(B, 1, out=o), call(C, 1, out=o, override=True), call(C, 1, method="TAN", out=o, override=True), call(C, out=o)]),
        # failures after the directory was created
        ("late-all-blank-tan", [call(C, blank=True, out=o), call(C, out=o), call(C, out=o, override=True), call(C, blank=True, out=o)]),
        ("late-all-blank-toast", [call(C, blank=True, method="TOAST", out=o), call(A, out=o), call(A, out=o, override=True), call(C, blank=True, method="TOAST", out=o, override=True)]),
        ("late-toast-wcs", [call(N, method="TOAST", out=o), call(N, method="TOAST", out=o), call(A, out=o), call(A, method="TOAST", out=o, override=True)]),
        ("auto-misdetects-anisotropic", [call(N, out=o), call(A, out=o), call(N, out=o, override=True), call(N, method="TAN")]),
        # several levels, masked leaves, lists
        ("wide-masked-leaf", [call(A, 1, blank=True, out=o), call(A, 1, out=o, override=True), call(AB, 1, blank=True, out=o, override=True), call(AB, 1, out=o)]),
        ("lists-each", [call(AB, (1, 2), out=o), call(BA, (2, 0), out=o, override=True), call(BA, (2, 0), key="A", out=o, override=True), call(BA, (2, 0), out=o)]),
        ("toast-pair", [call(AB, key="A", out=o), call(BA, key="A", blank=True, out=o, override=True), call(AB, key="A", method="TAN", out=o, override=True), call(AB, key="A", out=o)]),
        ("toast-levels", [call(A, method="TOAST", out=o), call(A, key="A", method="TOAST", out=o, override=True), call(AB, method="TOAST", out=o, override=True), call(A, 1, method="TOAST", blank=True, out=o, override=True)]),
        ("two-directories", [call(A, out=o), call(A, 1), call(A, 1, out=o), call(A, override=True)]),
        ("hips-only", [call(A, method="HIPS"), call(A, method="HIPS", out=o), call(A, out=o), call(A, method="HIPS", out=o)]),
    ]


def random_script(rng, table, length):
    """Seeded random history: mostly the explicit directory, so that calls meet each other's directories."""
    good = [k for k, c in enumerate(table) if c["out"] == "out"]
    rest = [k for k, c in enumerate(table) if c["out"] != "out"]
    return [rng.choice(good) if rng.random() < 0.7 else rng.choice(rest) for _ in range(length)]


# ------------------------------------------------------------------------------------------------
# TLC
# ------------------------------------------------------------------------------------------------
STATE_INVARIANTS = ["TypeOK", "CompleteIsConsistent", "PartialIsLeftover", "NamesAreOwn"]
STEP_THEOREMS = ["ReturnedDescribesDiskAsBuilt", "CurrentCallOnly", "MethodIsFunction", "Idempotent", "OwnDirectoryOnly", "ServedIsBuilder",
                 "OutDirRule"]
STATIC_THEOREMS = ["PlanIsAnalyse(Cmds)", "MethodIgnoresTheRest(Cmds)", "AutoMonotone(Cmds)", "TouchedAgrees(Cmds)", "TilingAgrees(Cmds)"]
# statements the code does not keep (TLC must refute each), as invariants of LastSpec ...
REFUTED = ["ReturnedDescribesDisk", "ServedIsRequested", "ServedProjectionIsChosen", "FailedCallChangesNothing", "NoPartialDirectory",
           "TileReturnsSelf"]
# ... and as negated assumptions of the state-independent table
REFUTED_STATIC = ["AutoUsesTrueExtent(Cmds)", "DerivedNamesIdeal(Paths)"]


def core_key(c):
    return (c["files"], c["hdu"], c["key"], c["blank"], c["method"])


def data_module(tables, table, scripts=()):
    """FitsTilerData: the input data as DEFINITIONS of a module FitsTiler extends (TLC tabulates them once, before the
    Plan that uses them).  Calls that differ in out_dir / override only share one entry of CoreTable."""
    defs = [(n[2:], v) for n, v in tables]          # Files, PathOf, Hdus
    defs.append(("Marker", str(MARKER)))
    cores, cidx = [], {}
    for c in table:
        if core_key(c) not in cidx:
            cidx[core_key(c)] = len(cores) + 1
            cores.append(c)
    defs.append(("CoreTable", "<<" + ",\n  ".join(call_tla(c) for c in cores) + ">>"))
    defs.append(("CoreOf", tla.lit(tuple(cidx[core_key(c)] for c in table))))
    defs.append(("CmdTable", "<<" + ",\n  ".join(call_tla(c) for c in table) + ">>"))
    canon = {}
    for k, c in enumerate(table):
        canon.setdefault(call_key(c)[:-1], k + 1)
    defs.append(("Canon", tla.lit(tuple(canon[call_key(c)[:-1]] for c in table))))
    defs.append(("Scripts", "{" + ", ".join(tla.lit(tuple(k + 1 for k in s)) for s in scripts) + "}"))
    # TLC's own random walks stay on the explicit directory, so that the calls meet each other's tiles
    defs.append(("WalkSet", tla.lit(set(k + 1 for k, c in enumerate(table) if c["out"] == "out"))))
    defs.append("Paths == {PathOf[f] : f \\in Files}")
    return tla.module("FitsTilerData", ["Integers", "Sequences", "TLC"], defs)


def write_default_data(path=None):
    """Regenerate spec/FitsTilerData.tla, the small instance that makes spec/MCFitsTiler.cfg runnable on its own:
    /venv/bin/python -c "from checks import g04; g04.write_default_data()" (from /verif)."""
    import tempfile
    d = tempfile.mkdtemp(prefix="g04-data-")
    try:
        table = reduced_table()
        idx = dict((call_key(c), k) for k, c in enumerate(table))
        scripts = [[idx[call_key(c)] for c in s] for _n, s in crafted_scripts() if all(call_key(c) in idx for c in s)]
        text = data_module(tla_tables(build_files(d)), table, scripts)
    finally:
        shutil.rmtree(d, ignore_errors=True)
    head = ("(* Input data of FitsTiler.tla - a small instance (the reduced call table of checks/g04.py and the crafted histories *)\n"
            "(* that stay within it), GENERATED by checks/g04.py: write_default_data.  The check replaces this module, in the   *)\n"
            "(* scratch directory of every TLC run, by the instance that run explores.                                          *)\n")
    lines = text.split("\n")
    text = "\n".join(lines[:1] + [head.rstrip("\n")] + lines[1:])
    with open(path or os.path.join(os.path.dirname(os.path.dirname(os.path.abspath(__file__))), "spec", "FitsTilerData.tla"), "w") as f:
        f.write(text)


def mc_modules(name, tables, table, scripts=(), assumes=(), extra=(), extends=()):
    """-> the `extra` files of one TLC run: the data module and the root module with the assumptions to check."""
    defs = ["ASSUME CoreTableOK(Cmds) /\\ CanonOK(Cmds)", "ASSUME \\A k \\in Cmds : Modelled(CmdTable[k])"]
    defs += ["ASSUME %s" % a for a in assumes]
    defs += list(extra)
    return {"FitsTilerData.tla": data_module(tables, table, scripts),
            name + ".tla": tla.module(name, ["MCFitsTiler"] + list(extends), defs)}


def cfg(spec, maxcalls, invariants, view=False, clears=True, stepbound=99):
    lines = ["SPECIFICATION %s" % spec, "CONSTANTS", " MaxCalls = %d" % maxcalls, " OverrideClears = %s" % ("TRUE" if clears else "FALSE"),
             " StepBound = %d" % stepbound]
    lines += ["INVARIANT %s" % i for i in invariants]
    if view:
        lines.append("VIEW ViewAll")
    lines.append("CHECK_DEADLOCK FALSE")
    return "\n".join(lines) + "\n"


def trace_calls(output, table):
    """The calls of TLC's error trace (the `last` variable of every state after the first)."""
    import re
    return [call_text(table[int(m.group(1)) - 1]) for m in re.finditer(r"^/\\ last = (\d+)$", output, re.M) if int(m.group(1)) > 0]


def join(cs):
    return "".join(cs)


# ------------------------------------------------------------------------------------------------
# the real code (pool workers)
# ------------------------------------------------------------------------------------------------
class _Timeout(Exception):
    pass


def _alarm(_s, _f):
    raise _Timeout()


def _quiet_worker():
    devnull = os.open(os.devnull, os.O_WRONLY)
    os.dup2(devnull, 1)
    os.dup2(devnull, 2)


def _warm():
    import time
    repo.setup()
    import toasty  # noqa
    from toasty import fits_tiler, collection  # noqa
    time.sleep(0.2)
    return os.getpid()


def _enter(root):
    """Every history runs in its own copy of the input tree, from <root>/w, serially, with no `java` on the PATH."""
    os.environ["SLURM_NPROCS"] = "1"      # Builder.cascade in the TAN route takes no `parallel` argument
    nojava = os.path.join(root, "empty-path")
    os.makedirs(nojava, exist_ok=True)
    os.environ["PATH"] = nojava
    os.chdir(os.path.join(root, CWD))


def _desc_of(bld):
    i = bld.imgset

    def num(v):
        try:
            return float(v)
        except (TypeError, ValueError):
            return None
    return {"proj": getattr(i.projection, "name", str(i.projection)), "levels": int(i.tile_levels), "rng": [num(i.data_min), num(i.data_max)],
            "crval": [num(i.center_x), num(i.center_y)], "name": i.name, "url": i.url, "ftype": i.file_type,
            "place_name": bld.place.name, "linked": bld.place.foreground_image_set is i}


PROJ_NAMES = {"SkyImage": "SKY_IMAGE", "Tan": "TAN", "Toast": "TOAST"}


def real_call(c, via):
    """-> observation of one call: what came back (or the exception), the tiler's attributes."""
    import warnings
    from toasty import tile_fits, TilingMethod, collection, fits_tiler
    paths = [FILES[f][0] for f in c["files"]]
    fits = paths[0] if (len(paths) == 1 and via == "tile_fits") else paths       # a single path may be given as a string
    hdu = c["hdu"] if c["hdu"] is None or isinstance(c["hdu"], int) else list(c["hdu"])
    blank = MARKER if c["blank"] else None
    method = getattr(TilingMethod, "AUTO_DETECT" if c["method"] == "AUTO" else c["method"])
    obs = {"via": via, "raised": None, "out_dir": None, "desc": None, "method": None, "self": None, "tiler_out_dir": None}
    with warnings.catch_warnings():
        warnings.simplefilter("ignore")
        try:
            if via == "tile_fits":
                od, bld = tile_fits(fits, out_dir=c["out"], hdu_index=hdu, wcs_key=c["key"], override=c["override"], parallel=1,
                                    tiling_method=method, blankval=blank)
                obs["out_dir"], obs["desc"] = od, _desc_of(bld)
            else:
                coll = collection.load(fits, hdu_index=hdu, wcs_key=c["key"], blankval=blank)
                tiler = None
                try:
                    tiler = fits_tiler.FitsTiler(coll, out_dir=c["out"], tiling_method=method)
                    obs["method"] = tiler.tiling_method.name
                    r = tiler.tile(parallel=1, override=c["override"])
                    obs["self"] = r is tiler
                    obs["out_dir"], obs["desc"] = tiler.out_dir, _desc_of(tiler.builder)
                finally:
                    if tiler is not None:
                        obs["tiler_out_dir"] = tiler.out_dir
        except _Timeout:
            raise
        except BaseException as e:  # noqa
            obs["raised"] = "%s: %s" % (type(e).__name__, str(e)[:160])
    return obs


def observe_dir(d):
    """A directory as a user finds it, read with astropy / ElementTree (not with toasty)."""
    import re
    import numpy as np
    from astropy.io import fits
    import xml.etree.ElementTree as ET
    out = {"tiles": {}, "other": [], "wtml": None, "rng": None}
    for r, _ds, fs in os.walk(d):
        for fn in fs:
            rel = os.path.relpath(os.path.join(r, fn), d)
            m = re.match(r"^(\d+)/(\d+)/(\d+)_(\d+)\.fits$", rel)
            if m and m.group(2) == m.group(3):
                out["tiles"][(int(m.group(1)), int(m.group(4)), int(m.group(2)))] = os.path.join(r, fn)
            elif rel != "index_rel.wtml":
                out["other"].append(rel)
    deepest = max([p[0] for p in out["tiles"]] or [0])
    vals = {}
    for p, path in out["tiles"].items():
        if p[0] != deepest and p != (0, 0, 0):
            continue
        with fits.open(path) as hl:
            if p[0] == deepest:
                a = np.asarray(hl[0].data, dtype=np.float64)
                vals[p] = sorted(set(float(v) for v in np.unique(a[np.isfinite(a)])))
            if p == (0, 0, 0):
                hd = hl[0].header
                out["rng"] = [hd.get("DATAMIN"), hd.get("DATAMAX")]
    out["vals"] = vals
    wp = os.path.join(d, "index_rel.wtml")
    if os.path.exists(wp):
        sets = list(ET.parse(wp).getroot().iter("ImageSet"))
        if len(sets) == 1:
            e = sets[0]

            def num(k, default=None):
                if e.get(k) is None:
                    return default
                try:
                    return float(e.get(k))
                except (TypeError, ValueError):
                    return None
            # (an attribute that has WWT's default value - DataMin = 0 - is not written out)
            out["wtml"] = {"proj": e.get("Projection"), "levels": e.get("TileLevels"), "rng": [num("DataMin", 0.0), num("DataMax", 0.0)],
                           "crval": [num("CenterX"), num("CenterY")], "name": e.get("Name"), "url": e.get("Url"), "ftype": e.get("FileType")}
        else:
            out["wtml"] = {"n": len(sets)}
    return out


def _same_num(a, b):
    if a is None or b is None:
        return a is None and b is None
    return abs(float(a) - float(b)) <= 1e-6 * max(1.0, abs(float(b)))


def compare_desc(got, exp, what):
    """-> list of (kind, message).  exp is TLC's description record."""
    out = []
    if exp["proj"] in PROJ_NAMES and got["proj"] not in (exp["proj"], PROJ_NAMES[exp["proj"]]):
        out.append(("proj", "%s has projection %s, specified %s" % (what, got["proj"], exp["proj"])))
    if str(got["levels"]) != str(exp["levels"]):
        out.append(("levels", "%s has tile levels %s, specified %d" % (what, got["levels"], exp["levels"])))
    er = exp["rng"] if exp["rng"] else [None, None]
    if not (_same_num(got["rng"][0], er[0]) and _same_num(got["rng"][1], er[1])):
        out.append(("range", "%s has data min / max %s, specified %s" % (what, got["rng"], er)))
    if got["url"] != join(exp["url"]) or got["ftype"] != join(exp["ftype"]):
        out.append(("url", "%s has Url %r / FileType %r, specified %r / %r" % (what, got["url"], got["ftype"], join(exp["url"]), join(exp["ftype"]))))
    if not (_same_num(got["crval"][0], exp["crval"][0]) and _same_num(got["crval"][1], exp["crval"][1])):
        out.append(("centre", "%s is centred at %s, specified %s" % (what, got["crval"], exp["crval"])))
    if got["name"] != join(exp["name"]):
        out.append(("name", "%s is named %r, specified %r" % (what, got["name"], join(exp["name"]))))
    return out


def compare_dir(d, exp):
    """The real directory d against TLC's record exp (or None: it must not exist) -> list of (kind, message)."""
    out = []
    if exp is None:
        if os.path.isdir(d):
            o = observe_dir(d)
            out.append(("dir-exists", "directory %r exists (%d tile files, WTML %s); specified: absent" % (d, len(o["tiles"]), "present" if o["wtml"] else "absent")))
        return out
    if not os.path.isdir(d):
        return [("dir-missing", "directory %r does not exist; specified: %d tiles, WTML %s" % (d, len(exp["tiles"]), exp["wtml"]))]
    o = observe_dir(d)
    if o["other"]:
        out.append(("other", "directory %r holds files that are neither tiles nor the WTML: %s" % (d, o["other"][:4])))
    etiles = dict((tuple(t["pos"]), sorted(float(v) for v in t["vals"])) for t in exp["tiles"])
    toast = any(p[1] < 0 for p in etiles)
    if toast:
        elev = sorted(p[0] for p in etiles)
        glev = sorted(set(p[0] for p in o["tiles"]))
        if elev != glev:
            out.append(("tile-set", "directory %r has tiles on levels %s; specified levels %s" % (d, glev, elev)))
        else:
            orphans = [p for p in o["tiles"] if p[0] > 0 and (p[0] - 1, p[1] // 2, p[2] // 2) not in o["tiles"]]
            if orphans:
                out.append(("tile-set", "directory %r: tiles %s have no parent tile" % (d, sorted(orphans)[:4])))
            deepest = max(elev)
            ev = etiles[(deepest, -1, -1)]
            gv = sorted(set(v for vs in o["vals"].values() for v in vs))
            if gv != ev:
                out.append(("values", "directory %r: the level-%d tiles hold the values %s; specified %s" % (d, deepest, gv, ev)))
    else:
        if set(etiles) != set(o["tiles"]):
            out.append(("tile-set", "directory %r has tiles %s; specified %s" % (d, sorted(o["tiles"]), sorted(etiles))))
        else:
            deepest = max([p[0] for p in etiles] or [0])
            for p in sorted(etiles):
                if p[0] == deepest and o["vals"].get(p) != etiles[p]:
                    out.append(("values", "directory %r: tile %s holds the values %s; specified %s" % (d, p, o["vals"].get(p), etiles[p])))
                    break
    er = exp["rng"] if exp["rng"] else [None, None]
    gr = o["rng"] if o["rng"] else [None, None]
    if not (_same_num(gr[0], er[0]) and _same_num(gr[1], er[1])):
        out.append(("root-range", "directory %r: the root tile records DATAMIN / DATAMAX %s; specified %s" % (d, gr, er)))
    if exp["wtml"] != (o["wtml"] is not None):
        out.append(("wtml", "directory %r: index_rel.wtml is %s; specified %s" % (d, "present" if o["wtml"] else "absent", "present" if exp["wtml"] else "absent")))
    elif exp["wtml"]:
        if "n" in o["wtml"]:
            out.append(("wtml", "directory %r: index_rel.wtml holds %d ImageSet elements" % (d, o["wtml"]["n"])))
        else:
            out += [("wtml-" + k, m) for k, m in compare_desc(o["wtml"], exp["wt"], "index_rel.wtml of %r" % d)]
    return out


# mismatch kinds that break a sentence of the contract TLC proved (violation); the others are internals (drift)
CONTRACT = {"raised", "returned", "out_dir", "method", "proj", "levels", "range", "url", "dir-exists", "dir-missing", "tile-set", "values",
            "root-range", "wtml", "wtml-proj", "wtml-levels", "wtml-range", "wtml-url"}
# steps on which the model follows the code where it leaves the documented behaviour: a disagreement there is reported
# as drift (a repair of the deviation is not a defect)
DEVIATION_ACTS = {"ReuseServesEarlier", "ReusePartial", "FailAfterRemove", "HipsUnavailable", "FailLate"}


def replay_history(job):
    """-> (findings, stats).  finding = (severity V / D / M, key, message)."""
    meta, table_calls, states = job
    repo.setup()
    findings, stats = [], {"calls": 0, "dirs": 0, "acts": {}}
    root = os.path.join(meta["scratch"], "h%d-%d" % (meta["id"], os.getpid()))
    shutil.copytree(meta["inputs"], root, symlinks=True)
    old = signal.signal(signal.SIGALRM, _alarm)
    signal.alarm(600)
    cwd = os.getcwd()
    path0 = os.environ.get("PATH")
    hist_txt = []
    try:
        _enter(root)
        before = set(_all_dirs(root))
        for step, rec in enumerate(states[1:]):
            c = table_calls[step]
            via = ("tile_fits", "FitsTiler")[(meta["id"] + step) % 2]
            hist_txt.append(call_text(c))
            where = "[history %s (%s): %s; this call through %s]" % (meta["id"], meta["name"], "; ".join(hist_txt), via)
            exp = rec["ret"]
            obs = real_call(c, via)
            stats["calls"] += 1
            stats["acts"][exp["act"]] = stats["acts"].get(exp["act"], 0) + 1
            diffs = []
            if exp["ok"] and obs["raised"]:
                diffs.append(("raised", "the call raised %s; specified: it returns (%s)" % (obs["raised"], exp["act"])))
            elif not exp["ok"] and not obs["raised"]:
                diffs.append(("returned", "the call returned %r; specified: it raises (%s)" % (obs["out_dir"], exp["act"])))
            elif exp["ok"]:
                if os.path.normpath(obs["out_dir"]) != os.path.normpath(join(exp["dir"])):
                    diffs.append(("out_dir", "the call returned out_dir %r; specified %r" % (obs["out_dir"], join(exp["dir"]))))
                elif obs["out_dir"] != join(exp["dir"]):
                    diffs.append(("out_dir-spelling", "the call returned out_dir %r; specified %r" % (obs["out_dir"], join(exp["dir"]))))
                diffs += compare_desc(obs["desc"], exp["desc"], "the returned Builder")
                if obs["desc"]["place_name"] != obs["desc"]["name"] or not obs["desc"]["linked"]:
                    diffs.append(("place", "the returned Builder's place is named %r / linked to the imageset: %s" % (obs["desc"]["place_name"], obs["desc"]["linked"])))
                if obs["self"] is not None and obs["self"] != exp["self"]:
                    diffs.append(("self", "FitsTiler.tile() returned %s; specified %s" % ("self" if obs["self"] else "not self", "self" if exp["self"] else "None")))
            if obs["method"] is not None and exp["method"] != "none" and obs["method"] != exp["method"]:
                diffs.append(("method", "FitsTiler.tiling_method is %s; specified %s" % (obs["method"], exp["method"])))
            if via == "FitsTiler" and exp["dir"] and exp["kind"] != "early" and obs["tiler_out_dir"] is not None \
                    and os.path.normpath(obs["tiler_out_dir"]) != os.path.normpath(join(exp["dir"])):
                diffs.append(("out_dir", "FitsTiler.out_dir is %r after the call; specified %r" % (obs["tiler_out_dir"], join(exp["dir"]))))
            # every candidate directory, and anything else that appeared
            expdirs = dict((os.path.normpath(join(d["dir"])), d) for d in rec["dirs"])
            for d in meta["dirids"]:
                dd = compare_dir(d, expdirs.get(os.path.normpath(d)))
                stats["dirs"] += 1
                diffs += dd
            now = set(_all_dirs(root))
            known = [os.path.normpath(os.path.join(root, CWD, d)) for d in meta["dirids"]]
            stray = sorted(p for p in now - before if not any(p == k or p.startswith(k + os.sep) for k in known))
            if stray:
                diffs.append(("dir-exists", "directories appeared that no call of the model writes: %s" % [os.path.relpath(p, os.path.join(root, CWD)) for p in stray[:4]]))
            if diffs:
                deviation = exp["act"] in DEVIATION_ACTS
                for kind, msg in diffs:
                    if kind in CONTRACT and not deviation:
                        findings.append(("V", "G04:%s:%s" % (exp["act"], kind), "after %s: %s %s" % (call_text(c), msg, where)))
                    elif kind in CONTRACT:
                        findings.append(("D", "deviation-step", "after %s (a step on which the model follows the code away from the documented behaviour, %s): %s %s"
                                         % (call_text(c), exp["act"], msg, where)))
                    else:
                        findings.append(("D", kind, "after %s: %s %s" % (call_text(c), msg, where)))
                if any(kind in CONTRACT for kind, _m in diffs):
                    break       # the real directories have left the model's behaviour: later states cannot be compared
        return findings, stats
    except _Timeout:
        findings.append(("M", "timeout", "history %s did not finish within 600 s" % meta["id"]))
        return findings, stats
    finally:
        signal.alarm(0)
        signal.signal(signal.SIGALRM, old)
        os.chdir(cwd)
        if path0 is not None:
            os.environ["PATH"] = path0
        shutil.rmtree(root, ignore_errors=True)


def _all_dirs(root):
    out = []
    for r, ds, _fs in os.walk(root):
        for d in ds:
            out.append(os.path.join(r, d))
    return out


def replay_rows(job):
    """The state-independent table: each call on an otherwise empty tree.  -> (findings, n)"""
    meta, items = job
    repo.setup()
    findings = []
    n = 0
    old = signal.signal(signal.SIGALRM, _alarm)
    signal.alarm(900)
    cwd = os.getcwd()
    path0 = os.environ.get("PATH")
    try:
        for c, row in items:
            root = os.path.join(meta["scratch"], "r%d-%d" % (row["k"], os.getpid()))
            shutil.copytree(meta["inputs"], root, symlinks=True)
            try:
                _enter(root)
                before = set(_all_dirs(root))
                obs = real_call(c, "FitsTiler")
                n += 1
                where = "[%s on an empty tree, through FitsTiler]" % call_text(c)
                expect_ok = (not row["early"]) and row["route"] == "ok"
                if row["method"] != "none" and obs["method"] is not None and obs["method"] != row["method"]:
                    findings.append(("V", "G04:method:%s" % ("auto" if c["method"] == "AUTO" else "explicit"),
                                     "FitsTiler.tiling_method is %s; specified %s (extent large as the code measures it: %s; of the image: %s) %s"
                                     % (obs["method"], row["method"], row["large_as_built"], row["large_true"], where)))
                    continue
                if row["early"] and c["method"] == "AUTO" and obs["method"] is not None:
                    findings.append(("D", "early", "the constructor accepted a selection the model says it cannot scan %s" % where))
                if row["method"] == "TAN" and any(GRIDS[sol["grid"]][0] != TAN for f in c["files"] for h in FILES[f][1] for sol in h["wcs"]):
                    # a non-TAN projection goes through reproject's find_optimal_celestial_wcs, which the model does not
                    # cover (it fails inside shapely here): only the choice of the method is compared
                    continue
                if expect_ok and obs["raised"]:
                    findings.append(("V", "G04:rows:raised", "the call raised %s; specified: it returns %s" % (obs["raised"], where)))
                    continue
                if not expect_ok and not obs["raised"]:
                    findings.append(("V", "G04:rows:returned", "the call returned; specified: it raises (early %s, route %s) %s" % (row["early"], row["route"], where)))
                    continue
                if not row["early"] and obs["tiler_out_dir"] is not None and os.path.normpath(obs["tiler_out_dir"]) != os.path.normpath(join(row["dir"])):
                    findings.append(("V", "G04:rows:out_dir", "FitsTiler.out_dir is %r; specified %r %s" % (obs["tiler_out_dir"], join(row["dir"]), where)))
                    continue
                if expect_ok:
                    d = join(row["dir"])
                    if not os.path.exists(os.path.join(d, "index_rel.wtml")):
                        findings.append(("V", "G04:rows:dir-missing", "no index_rel.wtml in the specified directory %r %s" % (d, where)))
                    if str(obs["desc"]["levels"]) != str(row["levels"]) or obs["desc"]["proj"] not in (row["proj"], PROJ_NAMES.get(row["proj"])):
                        findings.append(("V", "G04:rows:levels", "the returned Builder has %s / %s levels; specified %s / %d %s"
                                         % (obs["desc"]["proj"], obs["desc"]["levels"], row["proj"], row["levels"], where)))
                    now = set(_all_dirs(root))
                    kd = os.path.normpath(os.path.join(root, CWD, d))
                    stray = sorted(p for p in now - before if not (p == kd or p.startswith(kd + os.sep)))
                    if stray:
                        findings.append(("V", "G04:rows:dir-exists", "directories other than %r appeared: %s %s" % (d, [os.path.relpath(p, os.path.join(root, CWD)) for p in stray[:3]], where)))
            finally:
                os.chdir(cwd)
                shutil.rmtree(root, ignore_errors=True)
        return findings, n
    except _Timeout:
        return findings + [("M", "timeout", "the table replay did not finish within 900 s")], n
    finally:
        signal.alarm(0)
        signal.signal(signal.SIGALRM, old)
        if path0 is not None:
            os.environ["PATH"] = path0


# ------------------------------------------------------------------------------------------------
def run(ctx):
    repo.setup(ctx)
    import concurrent.futures as cf
    import json
    import multiprocessing as mp
    import time
    quick = ctx.quick
    ctx.rule = ("TLC: every history over the command table (4 collections + 2 file lists x hdu_index none / scalar / list x wcs_key x blankval "
                "x AUTO / TAN / TOAST / HIPS x derived / explicit out_dir x override) up to the stated bound, all theorems as invariants, "
                "each 'ideal' statement refuted. Replay: crafted + seeded random histories and TLC's own random walks, compared after EVERY "
                "call; the state-independent table (adds an all-sky CAR map, anisotropic images, irregular path names) call by call on an "
                "empty tree. distinct = distinct history prefix whose last call tiled or reused, + distinct table rows")
    full = machine_table()
    red = reduced_table()
    choice = choice_table()
    index = dict((call_key(c), k) for k, c in enumerate(full))
    # full table: state invariants on every history of bound_full calls, the theorems about one more call from the
    # histories of fewer than step_full calls; reduced table: everything to bound_red calls
    bound_full, step_full = (2, 1) if quick else (3, 2)
    bound_red = 3 if quick else 4
    script_len = 4 if quick else 6
    n_random = 36 if quick else 300
    n_walks = 16 if quick else 120

    scripts = []
    for name, s in crafted_scripts():
        scripts.append((name, [index[call_key(c)] for c in s]))
    for i in range(n_random):
        scripts.append(("random-%d" % i, random_script(ctx.rng, full, script_len)))

    pool = cf.ProcessPoolExecutor(max_workers=6, mp_context=mp.get_context("fork"), initializer=_quiet_worker)
    t0 = time.time()
    try:
        set(f.result() for f in [pool.submit(_warm) for _ in range(6)])
        inputs = ctx.mkdtemp("inputs")
        meas = build_files(inputs)
        tables = tla_tables(meas)
        replay_scratch = ctx.mkdtemp("replay")

        def tlc_rows():
            name = "MCG04Rows"
            outp = os.path.join(ctx.scratch, "rows.json")
            mods = mc_modules(name, tables, choice, assumes=STATIC_THEOREMS + ["DerivedNames(Paths)"] + ["~%s" % s for s in REFUTED_STATIC],
                              extra=["ASSUME JsonSerialize(IOEnv.OUT, [rows |-> RowsOf(Cmds), dirids |-> DirIds])"], extends=["IOUtils"])
            r = ctx.tlc(name, extra=mods, cfg_text=cfg("AllSpec", 0, STATE_INVARIANTS), env={"OUT": outp}, workers=1, timeout=900)
            return r, json.load(open(outp))

        def tlc_scripts():
            name = "MCG04Scripts"
            outp = os.path.join(ctx.scratch, "dirids.json")
            mods = mc_modules(name, tables, full, scripts=[s for _n, s in scripts], extra=["ASSUME JsonSerialize(IOEnv.OUT, [dirids |-> DirIds])"],
                              extends=["IOUtils"])
            r = ctx.tlc(name, extra=mods, cfg_text=cfg("ScriptSpec", script_len, STATE_INVARIANTS + ["RetAgrees", "Emit"]),
                        env={"OUT": outp}, workers=4, timeout=1800)
            return r, r.json_lines("S"), json.load(open(outp))["dirids"]

        def tlc_walks():
            name = "MCG04Walks"
            r = ctx.tlc(name, extra=mc_modules(name, tables, full),
                        cfg_text=cfg("FreeSpec", script_len, STATE_INVARIANTS + ["RetAgrees", "Emit"]), simulate=n_walks, depth=script_len + 1, workers=1, timeout=1800)
            return r, r.json_lines("S")

        def tlc_all(table, bound, tag, stepbound):
            name = "MCG04All" + tag
            return ctx.tlc(name, extra=mc_modules(name, tables, table),
                           cfg_text=cfg("AllSpec", bound, STATE_INVARIANTS + ["StepTheoremsBounded"], view=True, stepbound=stepbound),
                           workers=4 if quick else 6, timeout=14400)

        def tlc_refute(inv, clears=True, tag=""):
            # breadth first, one worker: the counterexample is a shortest history
            name = "MCG04Not" + inv + tag
            return ctx.tlc(name, extra=mc_modules(name, tables, red),
                           cfg_text=cfg("LastSpec", 3, [inv], clears=clears), workers=1, timeout=3600, expect_violation=True, count=False)

        with cf.ThreadPoolExecutor(max_workers=6) as tex:
            f_scripts = tex.submit(tlc_scripts)
            f_rows = tex.submit(tlc_rows)
            f_walks = tex.submit(tlc_walks)
            f_all = tex.submit(tlc_all, full, bound_full, "Full", step_full)
            f_red = tex.submit(tlc_all, red, bound_red, "Reduced", 99)
            f_ref = dict((inv, tex.submit(tlc_refute, inv)) for inv in REFUTED) if not quick else {}
            # the model must be able to tell an override that keeps the old tiles apart (negative control of the machine itself)
            f_ctl = tex.submit(tlc_refute, "CompleteIsConsistent", False, "Keeps")

            # ---- the state-independent table
            r_rows, rows_out = f_rows.result()
            rows = rows_out["rows"]
            rows = [rows[str(k + 1)] if isinstance(rows, dict) else rows[k] for k in range(len(choice))]
            items = list(zip(choice, rows))
            chunks = [items[i::6] for i in range(6)]
            meta_rows = {"scratch": replay_scratch, "inputs": inputs}
            row_futs = [pool.submit(replay_rows, (meta_rows, ch)) for ch in chunks if ch]

            # ---- histories
            r_s, recs_s, dirids = f_scripts.result()
            dirids = sorted(join(d) for d in dirids)
            by_s = dict((tuple(r["hist"]), r) for r in recs_s)
            jobs, futs, seen = [], [], set()

            def submit(name, hist_idx, by, bid):
                states = []
                for i in range(len(hist_idx) + 1):
                    r = by.get(tuple(k + 1 for k in hist_idx[:i]))
                    if r is None:
                        ctx.machinery("TLC emitted no state for the prefix %s of history %s" % (hist_idx[:i], name))
                    states.append(r)
                meta = {"id": bid, "name": name, "scratch": replay_scratch, "inputs": inputs, "dirids": dirids}
                calls = [full[k] for k in hist_idx]
                jobs.append((meta, calls, states))
                futs.append(pool.submit(replay_history, (meta, calls, states)))

            bid = 0
            for name, s in scripts:
                if tuple(s) in seen:
                    continue
                seen.add(tuple(s))
                submit(name, s, by_s, bid)
                bid += 1
            r_w, recs_w = f_walks.result()
            by_w = dict((tuple(r["hist"]), r) for r in recs_w)
            maximal = [h for h in by_w if len(h) > 0 and not any(len(o) == len(h) + 1 and o[:len(h)] == h for o in by_w)]
            for h in sorted(maximal):
                s = [k - 1 for k in h]
                if tuple(s) in seen:
                    continue
                seen.add(tuple(s))
                submit("tlc-walk", s, by_w, bid)
                bid += 1
            t_emit = time.time() - t0
            results = [f.result() for f in futs]
            row_results = [f.result() for f in row_futs]
            t_replay = time.time() - t0
            r_all, r_red = f_all.result(), f_red.result()

            # ---- the statements the code does not keep must be refuted: by a state TLC reached on some history ...
            refuted = {}
            allrecs = list(by_s.values()) + list(by_w.values())
            for inv in REFUTED:
                wit = [r for r in allrecs if r["ideal"][inv] is False]
                if not wit:
                    ctx.machinery("no emitted state refutes %s: the model (or the histories) have lost the as-built behaviour they are meant to expose" % inv)
                w = min(wit, key=lambda r: len(r["hist"]))
                refuted[inv] = {"refuting_states": len(wit), "a_shortest_emitted_witness": [call_text(full[k - 1]) for k in w["hist"]],
                                "action_of_its_last_call": w["ret"]["act"]}
            # ... by the table (the negated statements are assumptions TLC checked) ...
            mis = [(c, r) for c, r in items if c["method"] == "AUTO" and not r["badsel"] and r["large_as_built"] != r["large_true"]]
            if not mis:
                ctx.machinery("the table holds no collection whose extent the code mis-measures")
            refuted["AutoUsesTrueExtent"] = {"witnesses": [{"call": call_text(c), "chosen": r["method"], "large_as_the_code_measures": r["large_as_built"],
                                                           "large_by_the_image_corners": r["large_corners"], "large_image": r["large_true"]} for c, r in mis]}
            irr = [(c, r) for c, r in items if r["ideal_dir"] and r["dir"] != r["ideal_dir"]]
            if not irr:
                ctx.machinery("the table holds no path whose derived directory is not next to the input")
            refuted["DerivedNamesIdeal"] = {"witnesses": sorted(set((FILES[c["files"][0]][0], join(r["dir"]), join(r["ideal_dir"])) for c, r in irr))}
            # ... and (thorough tier) by breadth-first search, which yields a shortest counterexample
            for inv, f in f_ref.items():
                r = f.result()
                if r.violated != inv:
                    ctx.machinery("TLC no longer refutes %s (it reports %r)" % (inv, r.violated))
                refuted[inv]["shortest_counterexample"] = trace_calls(r.output, red)
            r_ctl = f_ctl.result()
            if r_ctl.violated != "CompleteIsConsistent":
                ctx.machinery("with OverrideClears = FALSE TLC should refute CompleteIsConsistent; it reports %r" % r_ctl.violated)
    finally:
        pool.shutdown(wait=True, cancel_futures=True)

    # ---- verdicts
    acts, ncalls, ndirs = {}, 0, 0
    for (meta, calls, states), (findings, stats) in zip(jobs, results):
        ctx.count(stats["calls"])
        ctx.trace_ok()
        ncalls += stats["calls"]
        ndirs += stats["dirs"]
        for a, v in stats["acts"].items():
            acts[a] = acts.get(a, 0) + v
        for i, rec in enumerate(states[1:]):
            if rec["ret"]["ok"]:
                ctx.distinct(repr(tuple(rec["hist"])))
        for sev, key, msg in findings:
            if sev == "M":
                ctx.machinery(msg)
            elif sev == "V":
                ctx.violation(key, msg, {"history": [call_text(c) for c in calls], "name": meta["name"]})
            else:
                ctx.drift("%s %s" % (key, msg))
    nrows = 0
    for findings, n in row_results:
        nrows += n
        ctx.count(n)
        ctx.trace_ok(n)
        for sev, key, msg in findings:
            if sev == "M":
                ctx.machinery(msg)
            elif sev == "V":
                ctx.violation(key, msg, {"table": "state-independent"})
            else:
                ctx.drift("%s %s" % (key, msg))
    for c, r in items:
        ctx.distinct(("row",) + call_key(c))
    planned = {}
    for _m, _c, states in jobs:
        for rec in states[1:]:
            planned[rec["ret"]["act"]] = planned.get(rec["ret"]["act"], 0) + 1
    for need in ("TileFresh", "TileOverride", "ReuseSame", "ReuseServesEarlier", "ReusePartial", "FailEarly", "FailBeforeTiling", "FailAfterRemove",
                 "HipsUnavailable", "FailLate"):
        if planned.get(need, 0) < 2:
            ctx.machinery("the histories to replay take action %s %d times: they no longer reach it" % (need, planned.get(need, 0)))
    ctx.exhaustive = True
    ctx.note("tlc_all_histories", {"full_table": {"calls": len(full), "bound": bound_full, "step_theorems_after_fewer_than": step_full, "distinct_states": r_all.distinct, "transitions": r_all.generated},
                                   "reduced_table": {"calls": len(red), "bound": bound_red, "distinct_states": r_red.distinct, "transitions": r_red.generated},
                                   "invariants": STATE_INVARIANTS, "step_theorems": STEP_THEOREMS, "static_theorems": STATIC_THEOREMS + ["DerivedNames"]})
    ctx.note("tlc_refuted_ideals", refuted)
    ctx.note("tlc_negative_control", "OverrideClears = FALSE: CompleteIsConsistent refuted")
    ctx.note("replayed", {"histories": len(jobs), "scripts": len(scripts), "tlc_walks": len([1 for m, _c, _s in jobs if m["name"] == "tlc-walk"]),
                          "calls_executed": ncalls, "directories_compared": ndirs, "calls_by_action": acts, "table_rows": nrows,
                          "script_states": r_s.distinct, "walk_states": r_w.generated})
    ctx.note("phase_wall_s", {"expected_states_emitted": round(t_emit, 1), "replay_done": round(t_replay, 1), "tlc_done": round(time.time() - t0, 1)})
    for meta, calls, states in jobs[:2] + jobs[len(crafted_scripts()): len(crafted_scripts()) + 1]:
        ctx.sample({"history": meta["name"], "calls": [call_text(c) for c in calls], "actions": [s["ret"]["act"] for s in states[1:]],
                    "returned": [[join(s["ret"]["dir"]), s["ret"]["desc"]["proj"], s["ret"]["desc"]["levels"], s["ret"]["desc"]["rng"]] for s in states[1:]],
                    "final_directories": [[join(d["dir"]), len(d["tiles"]), "wtml" if d["wtml"] else "no wtml"] for d in states[-1]["dirs"]]})
    ctx.assume("HiPS cannot run here (no network; `java` is taken off the PATH for the replay): the route is modelled as unavailable "
               "(\"Java is required\"), raised after an override has removed the directory")
    ctx.assume("the images of one call lie on one TAN grid and do not overlap (mixed grids go through reproject; C09 covers the mosaic, C20 the "
               "selection semantics); which TOAST tiles an image covers is C04-C07's subject: a TOAST directory is compared by its populated "
               "levels, parent closure and the values found on the deepest level")
    ctx.assume("calls are made serially from one working directory with relative paths (parallel=1, SLURM_NPROCS=1); float32 pixel data; "
               "the sky positions of the corner pixel coordinates handed to TLC are measured on the files with astropy")
