"""C07 - tile filters never drop a tile holding data: filtered sampling leaves no holes.

Specs: spec/BBoxFilter.tla (the compiled box test: lat reject, pole accept, sorting network, unwrap loop, shift loops,
overlap tests; theorems NoFalseNegative / NoFalsePositive / SortOK / UnwrapOK / HullIsMinArc / BranchFree),
spec/ImageBounds.tla (sampling sets of WcsSampler._image_bounds; theorems EndsIncluded / ReachesImageEdge / Spacing /
WalkOK), spec/FootprintMap.tla (the pixel -> sky map the box must be built with is the sampler's - distortion terms applied, the
WCS's celestial frame converted to ICRS; theorems SameMapNoFalseNegative / EndsSuffice / CoreLosesTilesIffDistorted /
NoFrameLosesTilesIffOffset), spec/Chunks.tla (chunk grid and chunk boxes; theorems Partition / BoxIsChunk / SamplerIsChunk / NoHoles).

Binding (spec -> code): every TLC grid case of BBoxFilter is replayed into the compiled tile_intersects_latlon_bbox
(directly and through samplers._latlon_tile_filter); TLC's sample sets are compared with the pixel coordinates a recording
WCS sees _image_bounds evaluate (by wcs_pix2world or all_pix2world: the sets are pixel coordinates), and the bounds it returns
with the extremes of those samples through the sampler's own route (premise of FootprintMap); TLC's chunk grids are compared with ChunkedJPEG2000Reader.chunk_spec and drive a fake
chunked image.  Property monitors on the real code (the sentences of C07): (a) every real tile to depth 4 with a pixel centre
in a box is delivered by generate_tiles_filtered with the box filter, (b) every tile holding a finite sampled pixel of an
image is accepted by WcsSampler.filter() on its whole path (directed witness search; footprints vary in size, scale, rotation,
parity, position, the grid size the WCS remembers, the celestial FRAME the WCS names - ICRS, FK5 / FK4 / FK4-NO-E with an equinox,
Galactic, ecliptic axes - and SIP DISTORTION polynomials of a few pixels; the footprint's true extent is the image edge sampled
densely through the route the sampler uses), (c) the same for chunk filters,
(d) filtered sampling == sample_layer and all chunks == whole map, pixel for pixel, through every public route by which a
filter reaches a run (toast.sample_layer_filtered, Builder.toast_base with is_planet / coordsys, tile_fits / FitsTiler in TOAST
mode whose downsampling stage is pruned by the UNION of the footprint filters of the collection's entries - the same file may
be listed more than once) in both coordinate systems; pixel centres lying ON a chunk seam may take either neighbour's value
but must not be left without data, (e) no filter call changes the corners of the tile it is given.
"""
import json
import math
import os
import tempfile

from lib import repo, tla

TAU = 0.05            # px: a witness pixel must sit at least this far inside the image (edge pixels are boundary-ambiguous)
MIN_TILE_PX = 64.0   # the footprint monitor covers levels at which a tile still spans this many image pixels (tile px >= 1/4 image px)
TWOPI = 2 * math.pi
POLE_MIN_TILE_PX = 4.0   # around an ENCLOSED pole the bound comes from a 2-D grid of <= 1.4 px spacing (short by < 1 px): tiles of >= 4 px are in the domain there

# ------------------------------------------------------------------------------------------------------------
# geometry helpers of the harness (regions and hulls; never used as the oracle of a verdict, only to decide
# which tiles need the exact per-pixel test)
# ------------------------------------------------------------------------------------------------------------


_PER_KEY = {}


def _violation(ctx, key, what, replay=None):
    """At most 5 reports per finding key, so that one broken monitor does not crowd out the others."""
    _PER_KEY[key] = _PER_KEY.get(key, 0) + 1
    if _PER_KEY[key] <= 5:
        ctx.violation(key, what, replay)


def min_arc(lons):
    """Minimal arc (start, span) containing the given longitudes (radians, any branch)."""
    import numpy as np
    a = np.sort(np.mod(np.asarray(lons, dtype=float).ravel(), TWOPI))
    if a.size == 1:
        return float(a[0]), 0.0
    gaps = np.diff(np.concatenate([a, [a[0] + TWOPI]]))
    k = int(np.argmax(gaps))
    start = a[(k + 1) % a.size]
    return float(start), float(TWOPI - gaps[k])


def arcs_meet(a0, sa, b0, sb):
    return ((b0 - a0) % TWOPI) <= sa or ((a0 - b0) % TWOPI) <= sb


def corner_hull(tile):
    """(latmin, latmax, arc start, arc span) of the four corners; a corner at a pole makes the arc the full circle."""
    import numpy as np
    c = np.array([[float(p[0]), float(p[1])] for p in tile.corners])
    lat = c[:, 1]
    if np.any(np.abs(lat) > math.pi / 2 - 1e-9):
        return float(lat.min()), float(lat.max()), 0.0, TWOPI
    s, w = min_arc(c[:, 0])
    return float(lat.min()), float(lat.max()), s, w


def hull_meets(h, reg, margin=0.0):
    """Corner hull h against a region (latmin, latmax, arc start, arc span)."""
    if h[0] > reg[1] + margin or h[1] < reg[0] - margin:
        return False
    return arcs_meet(h[2], h[3], reg[2] - margin, reg[3] + 2 * margin)


def snapshot(tile):
    import numpy as np
    return np.array([[float(p[0]), float(p[1])] for p in tile.corners])


class Guard(object):
    """Wraps a tile filter: records verdicts by position and checks sentence (e): the tile is not modified."""

    def __init__(self, f, prune=None):
        self.f = f
        self.prune = prune
        self.verdict = {}
        self.mutated = []

    def __call__(self, tile):
        import numpy as np
        if self.prune is not None and not self.prune(tile):
            return False
        before = snapshot(tile)
        kinds = [type(p) for p in tile.corners]
        r = self.f(tile)
        after = snapshot(tile)
        if not np.array_equal(before, after) or kinds != [type(p) for p in tile.corners]:
            self.mutated.append((tuple(tile.pos), before.tolist(), after.tolist()))
        self.verdict[tuple(tile.pos)] = bool(r)
        return r


def in_branch(pos, root):
    """pos is an ancestor of root, root itself, or a descendant of root."""
    n, x, y = pos
    rn, rx, ry = root
    if n <= rn:
        return (rx >> (rn - n)) == x and (ry >> (rn - n)) == y
    return (x >> (n - rn)) == rx and (y >> (n - rn)) == ry


def coordsys_of(name):
    from toasty.toast import ToastCoordinateSystem
    return ToastCoordinateSystem.PLANETARY if name == "planetary" else ToastCoordinateSystem.ASTRONOMICAL


# ------------------------------------------------------------------------------------------------------------
# fake chunked image driven by a TLC chunk grid
# ------------------------------------------------------------------------------------------------------------

def map_data(W, H, kind="rgb"):
    """A map in which every pixel is identifiable: rgb = (row % 256, col % 256, 77 + 16 * (row // 256) + (col // 256));
    kind "f32": unique float32 values salted with the special values a float map may legally hold - +-inf, +-0.0,
    the extreme magnitudes - and NaN, the only "undefined"."""
    import numpy as np
    if kind == "f32":
        d = (1.0 + np.arange(W * H, dtype=np.float64).reshape((H, W))).astype(np.float32)
        flat = d.reshape(-1)
        specials = np.array([np.inf, -np.inf, 0.0, -0.0, np.finfo(np.float32).max, -np.finfo(np.float32).max,
                             np.finfo(np.float32).tiny, 1e-45, np.nan], dtype=np.float32)
        idx = (np.arange(flat.size) * 7919) % 13 == 0
        flat[idx] = specials[np.arange(int(idx.sum())) % specials.size]
        return d
    d = np.empty((H, W, 3), dtype=np.uint8)
    rows = np.arange(H).reshape((-1, 1))
    cols = np.arange(W).reshape((1, -1))
    d[..., 0] = rows % 256
    d[..., 1] = cols % 256
    d[..., 2] = 77 + 16 * (rows // 256) + (cols // 256)
    return d


class FakeChunked(object):
    def __init__(self, W, H, specs, kind="rgb"):
        self._specs = [tuple(s) for s in specs]
        self._data = map_data(W, H, kind)
        self.shape = self._data.shape

    @property
    def n_chunks(self):
        return len(self._specs)

    def chunk_spec(self, i):
        return self._specs[i]

    def chunk_data(self, i):
        x0, y0, w, h = self._specs[i]
        return self._data[y0:y0 + h, x0:x0 + w]


def map_cell(lon, lat, W, H):
    """Harness-side column/row of directions on a planetary plate-carree map + distance to the nearest cell edge."""
    import numpy as np
    fx = np.mod(lon + math.pi, TWOPI) / (TWOPI / W)
    fy = (math.pi / 2 - lat) / (math.pi / H)
    col = np.clip(np.floor(fx).astype(int), 0, W - 1)
    row = np.clip(np.floor(fy).astype(int), 0, H - 1)
    edge = np.minimum(np.abs(fx - np.round(fx)), np.abs(fy - np.round(fy)))
    return col, row, edge


# ------------------------------------------------------------------------------------------------------------
# worker: (a)/(c) real tiles of one branch of the TOAST tree against many regions
# ------------------------------------------------------------------------------------------------------------

def _worker_init(repo_dir):
    os.environ["VERIF_REPO"] = repo_dir
    import warnings
    warnings.simplefilter("ignore")
    repo.setup()


def real_tiles_task(args):
    """One branch (a level-2 root, or None = the four level-1 tiles only) x all regions.
    regions: ("box", lonmin, lonmax, latmin, latmax) | ("chunk", W, H, specs, ichunk)."""
    import numpy as np
    csname, root, depth, regions = args
    from toasty import toast
    from toasty.samplers import _latlon_tile_filter, ChunkedPlateCarreeSampler
    cs = coordsys_of(csname)
    out = {"viol": [], "mut": [], "npix_tests": 0, "rejected": [0] * len(regions), "populated": 0, "calls": 0}

    def prune(tile):
        p = tuple(tile.pos)
        if root is None:
            return p[0] == 1
        return in_branch(p, root)

    tiles = {}
    for t in toast.generate_tiles_filtered(depth if root is not None else 1, prune, bottom_only=False, coordsys=cs):
        p = tuple(t.pos)
        if root is None or p[0] >= root[0]:
            tiles[p] = t
    order = sorted(tiles)
    lonlat = {}
    summ = np.empty((len(order), 4))
    for k, p in enumerate(order):
        lon, lat = toast.toast_tile_get_coords(tiles[p])
        lonlat[p] = (lon, lat)
        s, w = min_arc(lon)
        summ[k] = (lat.min(), lat.max(), s, w)
        # side condition of the spec: pixel centres stay inside the corner hull
        h = corner_hull(tiles[p])
        off = ((s - h[2] + 1e-9) % TWOPI) - 1e-9
        if lat.min() < h[0] - 1e-9 or lat.max() > h[1] + 1e-9 or (h[3] < TWOPI and off + w > h[3] + 1e-9):
            out.setdefault("hull_excess", []).append(p)
    chunkers = {}
    out["raised"] = []
    for ri, reg in enumerate(regions):
        try:
            if reg[0] == "box":
                f = _latlon_tile_filter(*reg[1:5])
            else:
                key = (reg[1], reg[2], tuple(map(tuple, reg[3])))
                if key not in chunkers:
                    chunkers[key] = ChunkedPlateCarreeSampler(FakeChunked(reg[1], reg[2], reg[3]), planetary=True)
                f = chunkers[key].filter(reg[4])
        except Exception as e:  # noqa   (the filter factory of the code under test refused a valid region)
            if len(out["raised"]) < 3:
                out["raised"].append({"region": repr(reg[:3] + reg[4:5]) if reg[0] == "chunk" else repr(reg), "error": repr(e)})
            continue
        if reg[0] == "box":
            _, lo, hi, la, lb = reg
            R = (la, lb, lo % TWOPI, min(hi - lo, TWOPI))

            def member(lon, lat, lo=lo, hi=hi, la=la, lb=lb):
                d = np.mod(lon - lo, TWOPI)
                return (lat > la + 1e-12) & (lat < lb - 1e-12) & (d > 1e-12) & (d < min(hi - lo, TWOPI) - 1e-12)
        else:
            _, W, H, specs, ich = reg
            x0, y0, cw, ch = specs[ich]
            R = (math.pi / 2 - math.pi * (y0 + ch) / H, math.pi / 2 - math.pi * y0 / H,
                 (TWOPI * x0 / W - math.pi) % TWOPI, TWOPI * cw / W)

            def member(lon, lat, W=W, H=H, x0=x0, y0=y0, cw=cw, ch=ch):
                col, row, edge = map_cell(lon, lat, W, H)
                return (edge > 1e-6) & (col >= x0) & (col < x0 + cw) & (row >= y0) & (row < y0 + ch)
        g = Guard(f, prune)
        got = set(tuple(t.pos) for t in toast.generate_tiles_filtered(depth if root is not None else 1, g,
                                                                      bottom_only=False, coordsys=cs))
        out["calls"] += len(g.verdict)
        for m in g.mutated[:2]:
            out["mut"].append((reg[:1] + tuple(reg[1:5]) if reg[0] == "box" else ("chunk", reg[1], reg[2], reg[4]), m))
        lat_ok = (summ[:, 0] <= R[1]) & (summ[:, 1] >= R[0])
        for k, p in enumerate(order):
            if p in got:
                continue
            out["rejected"][ri] += 1
            if not lat_ok[k] or not arcs_meet(summ[k, 2], summ[k, 3], R[2], R[3]):
                continue
            lon, lat = lonlat[p]
            out["npix_tests"] += 1
            m = member(lon, lat)
            if m.any():
                iy, ix = np.argwhere(m)[0]
                # which tile on the path was rejected first
                first = None
                for n in range(1, p[0] + 1):
                    q = (n, p[1] >> (p[0] - n), p[2] >> (p[0] - n))
                    if g.verdict.get(q) is False:
                        first = q
                        break
                out["viol"].append({"region": list(reg[:5]) if reg[0] == "box" else ["chunk", reg[1], reg[2], list(specs[reg[4]])],
                                    "coordsys": csname, "tile": p, "rejected_at": first, "pixels_inside": int(m.sum()),
                                    "pixel": [int(iy), int(ix)], "lonlat": [float(lon[iy, ix]), float(lat[iy, ix])]})
        if ri % 16 == 0:       # how often accepted tiles really hold a pixel (evidence only)
            for k, p in enumerate(order):
                if p in got and p[0] == depth and lat_ok[k] and member(*lonlat[p]).any():
                    out["populated"] += 1
    return out


# ------------------------------------------------------------------------------------------------------------
# worker: (b) one image footprint - recorded sample sets + directed witness search
# ------------------------------------------------------------------------------------------------------------

def salt_specials(data, rng, frac=0.06):
    """Float source pixels a caller may legally have: +-inf, +-0.0, the extreme magnitudes; NaN is the only "undefined"."""
    import numpy as np
    specials = np.array([np.inf, -np.inf, 0.0, -0.0, np.finfo(np.float32).max, -np.finfo(np.float32).max,
                         np.finfo(np.float32).tiny, 1e-45, np.nan, np.nan, np.nan], dtype=np.float32)
    m = rng.uniform(size=data.shape) < frac
    data[m] = specials[rng.integers(0, specials.size, size=int(m.sum()))]
    return data


def same_bits(a, b):
    """Element-wise: same float32 value including the sign of zero and the sign of infinity; NaN equals NaN."""
    import numpy as np
    a32, b32 = np.asarray(a, dtype=np.float32), np.asarray(b, dtype=np.float32)
    return (a32.view(np.uint32) == b32.view(np.uint32)) | (np.isnan(a32) & np.isnan(b32))


PIX2WORLD_METHODS = ("wcs_pix2world", "all_pix2world")
_REC_CLASS = []


def _rec_entry(name, args):
    """(method, 1-based pixel coordinates as an (n, 2) array, origin) of one pixel -> world evaluation, whichever of the two
    call shapes of astropy was used: (pix[n, 2], origin) or (x, y, origin)."""
    import numpy as np
    origin = int(args[-1])
    if len(args) == 2:
        pix = np.array(args[0], dtype=float).reshape((-1, 2))
    else:
        x, y = np.broadcast_arrays(np.asarray(args[0], dtype=float), np.asarray(args[1], dtype=float))
        pix = np.stack([x.ravel(), y.ravel()], 1)
    return name, pix + (1.0 - origin), origin


def recording_wcs(w):
    """Turns the WCS object `w` (a fresh one, used for nothing else) into the recorder that stands in for the WCS inside
    WcsSampler: it stays a real astropy WCS (frame look-ups, copies, the high-level API all work on it) and notes the pixel
    coordinates of every OUTERMOST pixel -> world evaluation, by whichever method (wcs_pix2world: core WCS only;
    all_pix2world: distortion terms applied; pixel_to_world* end up in all_pix2world).  `w.rec_calls` is the record."""
    from astropy.wcs import WCS
    if not _REC_CLASS:
        def wrap(name):
            def method(self, *args, **kwargs):
                st = self.__dict__.setdefault("_rec_state", {"calls": [], "depth": 0})
                if st["depth"] == 0 and len(args) in (2, 3):
                    try:
                        st["calls"].append(_rec_entry(name, args))
                    except Exception:  # noqa  (an argument shape the recorder does not know: the real method will complain)
                        pass
                st["depth"] += 1
                try:
                    return getattr(WCS, name)(self, *args, **kwargs)
                finally:
                    st["depth"] -= 1
            method.__name__ = name
            return method
        _REC_CLASS.append(type("RecordingWCS", (WCS,), {name: wrap(name) for name in PIX2WORLD_METHODS}))
    w.__class__ = _REC_CLASS[0]
    w.__dict__["_rec_state"] = {"calls": [], "depth": 0}
    return w


def rec_calls(w):
    return w.__dict__["_rec_state"]["calls"]


# celestial frames a FITS header can name: (longitude axis, latitude axis, RADESYS, has an equinox)
FRAMES = {
    "icrs": ("RA--", "DEC-", None, False),
    "fk5": ("RA--", "DEC-", "FK5", True),
    "fk4": ("RA--", "DEC-", "FK4", True),
    "fk4-no-e": ("RA--", "DEC-", "FK4-NO-E", True),
    "galactic": ("GLON", "GLAT", None, False),
    "ecliptic": ("ELON", "ELAT", None, False),
}


def pix2sky(w, pts):
    """1-based pixel coordinates -> ICRS (lon, lat) in radians by the inverse of the route WcsSampler.sampler() takes
    (world_to_array_index(SkyCoord(icrs))): astropy's high-level API - distortion terms applied, the WCS's own celestial
    frame converted to ICRS."""
    import numpy as np
    pts = np.asarray(pts, dtype=float).reshape((-1, 2))
    c = w.pixel_to_world(pts[:, 0] - 1.0, pts[:, 1] - 1.0).icrs
    return np.array(c.ra.rad, dtype=float), np.array(c.dec.rad, dtype=float)


def sky2pix(w, lon, lat):
    """ICRS directions (radians) -> 1-based pixel coordinates (x, y), the sampler's route before rounding."""
    import numpy as np
    from astropy import units as u
    from astropy.coordinates import SkyCoord
    x, y = w.world_to_pixel(SkyCoord(np.asarray(lon) * u.rad, np.asarray(lat) * u.rad, frame="icrs"))
    return np.asarray(x, dtype=float) + 1.0, np.asarray(y, dtype=float) + 1.0


GRID_VARIANTS = ["none", "right", "smaller", "larger", "header-right", "header-smaller", "rebuilt", "sliced", "header-larger",
                 "array-shape-smaller"]


def make_wcs(d):
    """The WCS of a footprint case, in the variants a caller can legally hand to WcsSampler next to the DATA array of
    d["nx"] x d["ny"] pixels (the image the property speaks of): the pixel-to-sky mapping is always the right one for the
    data; what varies is the grid size the WCS object happens to remember (d["grid"], d["grid_delta"]):
      none / rebuilt (WCS(w.to_header()))         no size recorded
      right / header-right / sliced               the size of the data (pixel_shape set by hand; WCS(header with NAXISn);
                                                  a larger parent WCS sliced down to the data)
      smaller / header-smaller / array-shape-smaller, larger / header-larger
                                                  a stale size (e.g. the array was padded and crpix shifted by hand)
    d["frame"] (FRAMES; default icrs) is the celestial frame the header names: d["ra"], d["dec"] stay the ICRS position of
    the reference pixel (the position classes of the family are classes of ICRS positions - that is where the TOAST tiles
    live), CRVAL is that position expressed in the frame, d["equinox"] its equinox.  d["sip"] = {"a": [[p, q, coeff] ..],
    "b": [..]} adds SIP distortion polynomials (pixel offsets from CRPIX; zero at the reference pixel)."""
    import numpy as np
    from astropy.wcs import WCS
    th = d["theta"]
    sc = d["scale"]
    cd = sc * np.array([[-math.cos(th), math.sin(th)], [d["parity"] * math.sin(th), d["parity"] * math.cos(th)]])
    w = WCS(naxis=2)
    lon_ax, lat_ax, radesys, has_eqx = FRAMES[d.get("frame", "icrs")]
    sip = d.get("sip")
    tail = "-" + d.get("proj", "TAN") + ("-SIP" if sip else "")
    w.wcs.ctype = [lon_ax + tail, lat_ax + tail]
    if radesys:
        w.wcs.radesys = radesys
    if has_eqx:
        w.wcs.equinox = float(d.get("equinox", 1950.0 if radesys.startswith("FK4") else 1975.0))
    w.wcs.crpix = [d["crpix"][0], d["crpix"][1]]
    w.wcs.cd = cd
    w.wcs.crval = [d["ra"], d["dec"]]
    if d.get("frame", "icrs") != "icrs":
        from astropy import units as u
        from astropy.coordinates import SkyCoord
        from astropy.wcs.utils import wcs_to_celestial_frame
        c = SkyCoord(d["ra"] * u.deg, d["dec"] * u.deg, frame="icrs").transform_to(wcs_to_celestial_frame(w))
        w.wcs.crval = [float(c.spherical.lon.deg), float(c.spherical.lat.deg)]

    def sip_of(crpix):
        from astropy.wcs import Sip
        order = max(p + q for key in ("a", "b") for p, q, _c in sip[key])
        ab = {key: np.zeros((order + 1, order + 1)) for key in ("a", "b")}
        for key in ("a", "b"):
            for p, q, coef in sip[key]:
                ab[key][p, q] = coef
        return Sip(ab["a"], ab["b"], None, None, crpix)
    if sip:
        w.sip = sip_of(w.wcs.crpix)
        w.wcs.set()
    grid = d.get("grid", "none")
    if grid == "none" or "nx" not in d:
        return w
    nx, ny = d["nx"], d["ny"]
    dx, dy = d.get("grid_delta", (0, 0))
    if grid.endswith("smaller"):
        size = (max(1, nx - dx), max(1, ny - dy))
    elif grid.endswith("larger"):
        size = (nx + dx, ny + dy)
    else:
        size = (nx, ny)
    if grid in ("right", "smaller", "larger"):
        w.pixel_shape = size
    elif grid == "array-shape-smaller":
        w.array_shape = (size[1], size[0])
    elif grid.startswith("header-"):
        h = w.to_header(relax=True)
        h["NAXIS"] = 2
        h["NAXIS1"], h["NAXIS2"] = size
        w = WCS(h)
    elif grid == "rebuilt":
        w = WCS(w.to_header(relax=True))
    elif grid == "sliced":
        ox, oy = dx, dy
        parent = w.deepcopy()
        parent.wcs.crpix = [d["crpix"][0] + ox, d["crpix"][1] + oy]
        if sip:
            parent.sip = sip_of(parent.wcs.crpix)
        parent.pixel_shape = (nx + ox + 3, ny + oy + 5)
        w = parent.slice((slice(oy, oy + ny), slice(ox, ox + nx)))
    else:
        raise ValueError(grid)
    return w


def _summarise_calls(calls, nx, ny):
    """Per-axis sample sets of the recorded _image_bounds evaluation (1-based pixel coordinates)."""
    import numpy as np
    out = {"n_calls": len(calls), "origin": sorted(set(c[2] for c in calls)), "methods": sorted(set(c[0] for c in calls))}
    if not calls:
        return out
    p0 = calls[0][1]
    out["coarse"] = [sorted(set(np.round(p0[:, 0], 9).tolist())), sorted(set(np.round(p0[:, 1], 9).tolist()))]
    out["refined"] = []
    for _name, pix, _o in calls[1:]:
        out["refined"].append([sorted(set(np.round(pix[:, 0], 9).tolist())), sorted(set(np.round(pix[:, 1], 9).tolist()))])
    return out


def box_from_samples(calls, w, box):
    """Implementation-shaped conformance (premise of FootprintMap!NoFalseNegative: the filter's pixel -> sky map IS the
    sampler's): the bounds _image_bounds returned must be the extremes, over the pixel samples it evaluated (calls 2..5:
    lat min, lat max, lon min, lon max), of the ICRS positions the sampler's route gives those pixels.  -> None | text"""
    import numpy as np
    if len(calls) != 5 or box is None:
        return None
    lo, hi, la, lb = box
    lat_a = pix2sky(w, calls[1][1])[1]
    lat_b = pix2sky(w, calls[2][1])[1]
    lon_a = pix2sky(w, calls[3][1])[0]
    lon_b = pix2sky(w, calls[4][1])[0]
    tol = 1e-9
    msgs = []
    if abs(float(lat_a.min()) - la) > tol:
        msgs.append("lat_min %.9f deg, sampler's route gives %.9f over the same %d samples" % (math.degrees(la), math.degrees(lat_a.min()), lat_a.size))
    if abs(float(lat_b.max()) - lb) > tol:
        msgs.append("lat_max %.9f deg, sampler's route gives %.9f over the same %d samples" % (math.degrees(lb), math.degrees(lat_b.max()), lat_b.size))
    for name, val, lons, sign in (("lon_min", lo, lon_a, 1.0), ("lon_max", hi, lon_b, -1.0)):
        off = np.mod(sign * (lons - val) + math.pi, TWOPI) - math.pi       # >= 0 for every sample if val is the extreme
        if abs(float(off.min())) > tol:
            msgs.append("%s %.9f deg, sampler's route puts the extreme of the same %d samples at %.9f"
                        % (name, math.degrees(val), lons.size, math.degrees(val + sign * float(off.min()))))
    return "; ".join(msgs) if msgs else None


class Footprint(object):
    """One image footprint: the real sampler/filter, the box the filter was built from (if obtainable), the true
    footprint sampled densely through the same WCS, and how far that footprint sticks out of the box."""

    def __init__(self, d):
        import numpy as np
        from toasty.samplers import WcsSampler
        self.d = d
        self.nx, self.ny = d["nx"], d["ny"]
        self.pix = math.radians(d["scale"])
        self.w = make_wcs(d)
        self.rec = recording_wcs(make_wcs(d))       # the same WCS once more, as the recorder handed to the code under test
        data = np.ones((self.ny, self.nx), dtype=np.float32)          # no NaN: every image pixel is data; some are +-inf / +-0.0
        flat = data.reshape(-1)
        flat[::5] = np.array([np.inf, -np.inf, 0.0, -0.0, 3e38], dtype=np.float32)[np.arange(flat[::5].size) % 5]
        self.ws = WcsSampler(data, self.rec)
        self.error = None
        self.f = None
        try:
            self.f = self.ws.filter()
        except AssertionError as e:
            self.error = "filter() raised AssertionError %s" % (e,)
        raw = list(rec_calls(self.rec))
        self.calls = _summarise_calls(raw, self.nx, self.ny)
        self.box = None
        try:
            self.box = tuple(float(v) for v in self.ws._image_bounds())
        except Exception:  # noqa  (private helper renamed / removed: the search is then undirected)
            self.box = None
        self.calls["box_vs_samples"] = box_from_samples(raw, self.w, self.box) if self.f is not None else None
        self.sampler = self.ws.sampler()
        # deepest level inside the monitor's domain: a tile still spans MIN_TILE_PX image pixels
        self.n_dom = int(max(1, min(12, math.floor(math.log2((math.pi / 2) / (MIN_TILE_PX * self.pix))) + 1)))

    def measure(self):
        import numpy as np
        nx, ny, w = self.nx, self.ny, self.w
        inset = TAU

        def edge_pts(L):
            n = int(min(2400, max(3, math.ceil(L / 0.25) + 1)))
            return np.linspace(0.5 + inset, L + 0.5 - inset, n)
        tx, ty = edge_pts(nx), edge_pts(ny)
        per = np.concatenate([np.stack([tx, np.full_like(tx, 0.5 + inset)], 1), np.stack([np.full_like(ty, nx + 0.5 - inset), ty], 1),
                              np.stack([tx[::-1], np.full_like(tx, ny + 0.5 - inset)], 1), np.stack([np.full_like(ty, 0.5 + inset), ty[::-1]], 1)])
        gx, gy = np.meshgrid(np.linspace(0.5 + inset, nx + 0.5 - inset, 24), np.linspace(0.5 + inset, ny + 0.5 - inset, 24))
        pts = np.concatenate([per, np.stack([gx.ravel(), gy.ravel()], 1)])
        wlon, wlat = pix2sky(w, pts)              # the true footprint: the image edge through the sampler's own route
        ok = np.isfinite(wlon) & np.isfinite(wlat)
        self.pts, self.lon, self.lat = pts[ok], wlon[ok], wlat[ok]
        s0, sw = min_arc(self.lon)
        if sw > TWOPI - 4 * self.pix:
            s0, sw = 0.0, TWOPI
        self.R = (float(self.lat.min()), float(self.lat.max()), s0, sw)
        # exposure of every footprint point beyond the box, and the outward direction (d_lon*cos(lat), d_lat)
        lon, lat = self.lon, self.lat
        expo = np.zeros(lon.size)
        out = np.zeros((lon.size, 2))
        if self.box is not None:
            lo, hi, la, lb = self.box
            for val, vec in ((lat - lb, (0.0, 1.0)), (la - lat, (0.0, -1.0))):
                m = val > expo
                expo[m] = val[m]
                out[m] = vec
            if hi - lo < TWOPI:
                dd = np.mod(lon - lo, TWOPI)
                over = np.where(dd > hi - lo, dd - (hi - lo), 0.0)          # beyond lon_max
                under = np.where(dd > hi - lo, TWOPI - dd, 0.0)             # before lon_min
                east = over <= under
                ex = np.where(east, over, under) * np.cos(lat)
                m = ex > expo
                expo[m] = ex[m]
                out[m & east] = (1.0, 0.0)
                out[m & ~east] = (-1.0, 0.0)
            expo[expo < 1e-9] = 0.0
        self.expo, self.outward = expo, out
        return float(expo.max() / self.pix)

    def path_rejection(self, g, tile):
        """First position on the root path of `tile` that the filter rejects (None = all accepted)."""
        from toasty import toast
        from toasty.pyramid import Pos
        p = tile.pos
        for n in range(1, p.n + 1):
            q = Pos(n, p.x >> (p.n - n), p.y >> (p.n - n))
            t = tile if n == p.n else toast.create_single_tile(q)
            if not g(t):
                return tuple(q)
        return None

    def holds_data(self, tile):
        """Does the tile hold a finite sampled pixel at least TAU inside the image? -> (finite, well inside)"""
        import numpy as np
        from toasty import toast
        tlon, tlat = toast.toast_tile_get_coords(tile)
        fin = ~np.isnan(self.sampler(tlon, tlat))
        if not fin.any():
            return 0, 0
        px = sky2pix(self.w, tlon[fin], tlat[fin])
        inside = ((px[0] >= 0.5 + TAU) & (px[0] <= self.nx + 0.5 - TAU) & (px[1] >= 0.5 + TAU) & (px[1] <= self.ny + 0.5 - TAU))
        if inside.any() and self.d.get("sip"):
            # a pixel centre INSIDE THE FOOTPRINT: the pixel position the (iterative) inverse of a distorted WCS reports must
            # map back onto the direction it was computed for (far from the image that inverse need not converge)
            blon, blat = pix2sky(self.w, np.stack([px[0][inside], px[1][inside]], 1))
            sep = np.hypot((np.mod(blon - tlon[fin][inside] + math.pi, TWOPI) - math.pi) * np.cos(blat), blat - tlat[fin][inside])
            inside[np.flatnonzero(inside)[sep > 0.01 * self.pix]] = False
        return int(fin.sum()), int(inside.sum())

    def witness(self, tile, first, how):
        import numpy as np
        fin, inside = self.holds_data(tile)
        if not inside:
            return None
        c = np.asarray(snapshot(tile))
        side = float(np.min(np.hypot((c[:, 0] - np.roll(c[:, 0], 1)) * np.cos(c[:, 1]), c[:, 1] - np.roll(c[:, 1], 1))))
        return {"footprint": {k: self.d[k] for k in ("nx", "ny", "scale", "theta", "parity", "ra", "dec", "crpix", "proj", "grid", "grid_delta", "frame", "equinox", "sip") if k in self.d},
                "tile": tuple(tile.pos), "rejected_at": first, "finite_pixels": fin, "pixels_well_inside": inside,
                "tile_side_px": side / self.pix, "box_deg": None if self.box is None else [math.degrees(v) for v in self.box],
                "true_lat_deg": [math.degrees(self.R[0]), math.degrees(self.R[1])], "search": how}


def footprint_task(d):
    import numpy as np
    from toasty import toast
    res = {"id": d["id"], "viol": [], "mut": [], "samples": 0, "tiles_seen": 0, "exposure_px": 0.0, "calls": None,
           "error": None, "reanchored": 0}
    fp = Footprint(d)
    res["calls"] = fp.calls
    if fp.error:
        res["error"] = fp.error
        return res
    res["exposure_px"] = fp.measure()
    res["n_dom"] = fp.n_dom
    span = fp.pix * max(fp.nx, fp.ny)
    n_a = int(max(1, min(fp.n_dom, math.floor(math.log2((math.pi / 2) / max(span / 6.0, 1e-9))) + 1)))
    budget = d.get("budget", 10)
    cand = []          # (priority, tile, first rejected position on its path)
    g = Guard(fp.f)

    def scan(depth, region, prio, margin):
        hulls = {}

        def pre(tile):
            h = corner_hull(tile)
            hulls[tuple(tile.pos)] = h
            return tile.pos.n == 1 or hull_meets(h, region, margin)
        tl = list(toast.generate_tiles_filtered(depth, pre, bottom_only=False))
        res["tiles_seen"] += len(tl)
        first_of = {}
        for t in sorted(tl, key=lambda t: t.pos.n):          # parents before children
            p = tuple(t.pos)
            acc = bool(g(t))
            par = first_of.get((p[0] - 1, p[1] >> 1, p[2] >> 1)) if p[0] > 1 else None
            first = par if par is not None else (None if acc else p)
            first_of[p] = first
            if first is not None and hull_meets(hulls[p], region, 0.0):
                cand.append((prio + p[0], t, first))

    # (1) every tile over the footprint down to tiles of about a sixth of the image
    scan(n_a, fp.R, 0, 0.02 * span)
    # (2) where the footprint sticks out of the box: all tiles there down to the deepest level of the domain
    k = int(np.argmax(fp.expo))
    if fp.expo[k] > 0:
        near = (np.abs(fp.pts[:, 0] - fp.pts[k, 0]) + np.abs(fp.pts[:, 1] - fp.pts[k, 1]) <= 10.0) & (fp.expo > 0)
        e0, ew = min_arc(fp.lon[near])
        scan(fp.n_dom, (float(fp.lat[near].min()), float(fp.lat[near].max()), e0, ew), 100, 0.0)
    # (2b) a footprint that CONTAINS a pole: the latitude bound is found by a 2-D refinement around the coarse extreme; all
    #      tiles in a cap around the pole (two coarse cells wide) down to tiles of POLE_MIN_TILE_PX image pixels
    if d.get("klass") == "poleinside":
        n_pole = int(max(1, min(13, math.floor(math.log2((math.pi / 2) / (POLE_MIN_TILE_PX * fp.pix))) + 1)))
        if n_pole > fp.n_dom:
            cells = 2.0 * math.sqrt(2.0) * max(fp.nx, fp.ny) / 31.0 + 8.0
            cap = min(cells * fp.pix, math.radians(20))
            region = (math.pi / 2 - cap, math.pi / 2, 0.0, TWOPI) if d["dec"] > 0 else (-math.pi / 2, -math.pi / 2 + cap, 0.0, TWOPI)
            res["n_pole"] = n_pole
            scan(n_pole, region, 200, 0.0)
    seen = set()
    for prio, t, first in sorted(cand, key=lambda c: -c[0]):
        p = tuple(t.pos)
        if p in seen:
            continue
        seen.add(p)
        if res["samples"] >= budget or res["viol"]:
            break
        res["samples"] += 1
        wit = fp.witness(t, first, "scan")
        if wit:
            res["viol"].append(wit)
    res["mut"].extend(g.mutated[:2])
    # (3) directed: the same image re-anchored so that a tile corner of the deepest domain level falls into the
    #     strip between the box and the true edge, with the tile on the outer side
    if fp.expo[k] > 0 and not res["viol"] and fp.n_dom >= 3:
        ovec = fp.outward[k]
        lon0, lat0 = fp.lon[k], fp.lat[k]
        # inward direction in pixel coordinates, by finite differences through the WCS
        eps = 0.01
        J = np.empty((2, 2))
        qlon, qlat = pix2sky(fp.w, np.array([[fp.pts[k, 0] + eps, fp.pts[k, 1]], [fp.pts[k, 0], fp.pts[k, 1] + eps]]))
        for a in range(2):
            J[:, a] = (((qlon[a] - lon0 + math.pi) % TWOPI - math.pi) * math.cos(lat0) / eps, (qlat[a] - lat0) / eps)
        try:
            step_pix = np.linalg.solve(J, -ovec * 0.03 * fp.pix)      # 0.03 px further inward than the exposed point
        except np.linalg.LinAlgError:
            step_pix = None
        if step_pix is not None:
            anchor_pix = fp.pts[k] + step_pix
            n2 = fp.n_dom
            reg = (lat0 - 2 * fp.pix, lat0 + 2 * fp.pix, (lon0 - 2 * fp.pix / max(math.cos(lat0), 0.05)) % TWOPI, 4 * fp.pix / max(math.cos(lat0), 0.05))
            tl = [t for t in toast.generate_tiles_filtered(n2, lambda t: t.pos.n == 1 or hull_meets(corner_hull(t), reg, 0.0), bottom_only=True)]
            tries = []
            for t in tl:
                c = snapshot(t)
                if np.any(np.abs(c[:, 1]) > math.pi / 2 - 1e-6):
                    continue
                rel = np.stack([((c[:, 0] - lon0 + math.pi) % TWOPI - math.pi) * math.cos(lat0), c[:, 1] - lat0], 1) @ ovec
                j = int(np.argmin(rel))
                others = np.delete(rel, j)
                tile_size = (math.pi / 2) / 2 ** (n2 - 1)
                if others.min() - rel[j] > 0.2 * tile_size:         # a proper outward-pointing corner
                    tries.append((abs(rel[j]), t, j))
            for _r, t, j in sorted(tries, key=lambda x: x[0])[:3]:
                tlon, tlat = toast.toast_tile_get_coords(t)
                iy, ix = ((0, 0), (0, 255), (255, 255), (255, 0))[j]        # the pixel centre next to corner j
                d2 = dict(d)
                if not d.get("sip"):
                    d2["crpix"] = [float(anchor_pix[0]), float(anchor_pix[1])]
                    d2["ra"], d2["dec"] = math.degrees(tlon[iy, ix]) % 360.0, math.degrees(tlat[iy, ix])
                else:
                    # the distortion polynomials are in offsets from CRPIX: the reference pixel stays where it is (the image
                    # keeps its shape) and the image is moved on the sky until the anchor pixel lies on the pixel centre
                    for _it in range(6):
                        alon, alat = pix2sky(make_wcs(d2), anchor_pix.reshape((1, 2)))
                        dlon = (tlon[iy, ix] - alon[0] + math.pi) % TWOPI - math.pi
                        dlat = tlat[iy, ix] - alat[0]
                        if math.hypot(dlon * math.cos(tlat[iy, ix]), dlat) < 1e-4 * fp.pix:
                            break
                        d2["ra"] = (d2["ra"] + math.degrees(dlon)) % 360.0
                        d2["dec"] = max(-89.999, min(89.999, d2["dec"] + math.degrees(dlat)))
                    else:
                        continue
                fp2 = Footprint(d2)
                res["reanchored"] += 1
                if fp2.error:
                    continue
                fp2.measure()
                g2 = Guard(fp2.f)
                first = fp2.path_rejection(g2, t)
                res["mut"].extend(g2.mutated[:1])
                if first is None:
                    continue
                res["samples"] += 1
                wit = fp2.witness(t, first, "re-anchored")
                if wit:
                    res["viol"].append(wit)
                    break
    return res


# ------------------------------------------------------------------------------------------------------------
# worker: (d) filtered sampling == unfiltered sampling;  all chunks one after another == whole map
# ------------------------------------------------------------------------------------------------------------

def filtered_layer(route, pio, tile_filter, sampler, depth, csname):
    """Every public route by which a tile filter reaches a sampling run of one layer."""
    from toasty import toast
    cs = coordsys_of(csname)
    if route == "direct":
        toast.sample_layer_filtered(pio, tile_filter, sampler, depth, coordsys=cs, parallel=1)
    elif route == "builder":            # Builder.toast_base(..., is_planet=..., tile_filter=...)
        from toasty.builder import Builder
        Builder(pio).toast_base(sampler, depth, is_planet=(csname == "planetary"), tile_filter=tile_filter, parallel=1)
    elif route == "builder-coordsys":   # Builder.toast_base(..., coordsys=..., tile_filter=...)
        from toasty.builder import Builder
        Builder(pio).toast_base(sampler, depth, coordsys=cs, tile_filter=tile_filter, parallel=1)
    else:
        raise ValueError(route)


def _level_positions(depth):
    from toasty.pyramid import Pos
    return [Pos(depth, x, y) for y in range(2 ** depth) for x in range(2 ** depth)]


def wcs_layer_task(d):
    """sample_layer_filtered(filter of the image) must give the pixel values of sample_layer wherever those are finite."""
    import numpy as np
    from toasty import toast
    from toasty.pyramid import PyramidIO
    from toasty.samplers import WcsSampler
    res = {"id": d["id"], "viol": [], "mut": [], "tiles": 0, "finite_pixels": 0, "filtered_tiles": 0, "error": None}
    rng = np.random.default_rng(d["seed"])
    nx, ny = d["nx"], d["ny"]
    data = salt_specials(rng.uniform(1.0, 2.0, size=(ny, nx)).astype(np.float32), rng)   # incl. NaN = masked pixels inside the image
    w = make_wcs(d)
    ws = WcsSampler(data, w)
    cs = coordsys_of(d["coordsys"])
    base = tempfile.mkdtemp(prefix="wl-", dir=d["scratch"])
    pa = PyramidIO(os.path.join(base, "a"), default_format="npy")
    pb = PyramidIO(os.path.join(base, "b"), default_format="npy")
    toast.sample_layer(pa, ws.sampler(), d["depth"], coordsys=cs, format="npy", parallel=1)
    g = Guard(ws.filter())
    filtered_layer(d.get("route", "direct"), pb, g, ws.sampler(), d["depth"], d["coordsys"])
    res["mut"] = g.mutated[:2]
    for pos in _level_positions(d["depth"]):
        ia = pa.read_image(pos, format="npy")
        ib = pb.read_image(pos, format="npy")
        res["tiles"] += 1
        a = None if ia is None else np.asarray(ia.asarray(), dtype=np.float64)
        b = None if ib is None else np.asarray(ib.asarray(), dtype=np.float64)
        if b is not None:
            res["filtered_tiles"] += 1
        # "defined" = not NaN (an infinite or zero pixel is data); values compared bit for bit
        fa = np.zeros((256, 256), bool) if a is None else ~np.isnan(a)
        fb = np.zeros((256, 256), bool) if b is None else ~np.isnan(b)
        res["finite_pixels"] += int(fa.sum())
        if a is not None and b is not None:
            bad = ~same_bits(a, b)
        else:
            bad = fa | fb
        if bad.any():
            iy, ix = np.argwhere(bad)[0]
            res["viol"].append({"tile": tuple(pos), "pixels": int(bad.sum()), "first": [int(iy), int(ix)],
                                "unfiltered": None if a is None else float(a[iy, ix]),
                                "filtered": None if b is None else float(b[iy, ix]),
                                "filter_verdicts_on_path": [g.verdict.get((n, pos.x >> (pos.n - n), pos.y >> (pos.n - n))) for n in range(1, pos.n + 1)]})
            if len(res["viol"]) >= 3:
                break
    return res


def chunk_layer_task(d):
    """All chunks sampled one after another into one pyramid == whole-map sampling == the map pixel the spec names."""
    import numpy as np
    from toasty import toast
    from toasty.pyramid import PyramidIO
    from toasty.samplers import ChunkedPlateCarreeSampler, plate_carree_planet_sampler
    res = {"id": d["id"], "viol": [], "seam": [], "mut": [], "tiles": 0, "pixels": 0, "ambiguous": 0, "filter_calls": 0}
    W, H, specs = d["W"], d["H"], d["specs"]
    img = FakeChunked(W, H, specs)
    cs = coordsys_of(d["coordsys"])
    base = tempfile.mkdtemp(prefix="cl-", dir=d["scratch"])
    pa = PyramidIO(os.path.join(base, "whole"), default_format="png")
    pb = PyramidIO(os.path.join(base, "chunks"), default_format="png")
    toast.sample_layer(pa, plate_carree_planet_sampler(img._data), d["depth"], coordsys=cs, format="png", parallel=1)
    chunker = ChunkedPlateCarreeSampler(img, planetary=True)
    order = list(range(chunker.n_chunks))
    if d.get("reverse"):
        order.reverse()
    for ich in order:
        g = Guard(chunker.filter(ich))
        filtered_layer(d.get("route", "direct"), pb, g, chunker.sampler(ich), d["depth"], d["coordsys"])
        res["filter_calls"] += len(g.verdict)
        res["mut"].extend(g.mutated[:1])
    tiles = {tuple(t.pos): t for t in toast.generate_tiles(d["depth"], bottom_only=True, coordsys=cs)}
    for pos in _level_positions(d["depth"]):
        ia = pa.read_image(pos, format="png")
        ib = pb.read_image(pos, format="png")
        res["tiles"] += 1
        a = np.asarray(ia.asarray())[..., :3]
        lon, lat = toast.toast_tile_get_coords(tiles[tuple(pos)])
        col, row, edge = map_cell(lon, lat, W, H)
        if pa.get_default_vertical_parity_sign() == 1:
            col, row, edge = col[::-1], row[::-1], edge[::-1]
        clear = edge > 1e-6
        res["ambiguous"] += int((~clear).sum())
        res["pixels"] += int(clear.sum())
        seam_bad = np.zeros(clear.shape, bool)
        if ib is None:
            bad = clear
            seam_bad = ~clear
            b = None
        else:
            b = np.asarray(ib.asarray())
            hole = (b[..., 3] != 255) if b.shape[-1] == 4 else np.zeros(clear.shape, bool)
            differs = np.any(b[..., :3] != a, axis=-1)
            notmap = (b[..., 0] != row % 256) | (b[..., 1] != col % 256)
            bad = hole | differs | (clear & notmap)       # equality with whole-map sampling holds for EVERY pixel
            # a pixel centre ON a cell boundary may take the value of either adjacent map pixel, but "fills every
            # pixel" still applies to it: it must not be left without data
            dc = np.abs(b[..., 1].astype(int) - col)
            near = (np.abs(b[..., 0].astype(int) - row) <= 1) & ((dc <= 1) | (dc == W - 1))
            seam_bad = ~clear & hole
            bad = bad | (~clear & ~hole & ~near)
        if seam_bad.any() and len(res["seam"]) < 3:
            iy, ix = np.argwhere(seam_bad)[0]
            res["seam"].append({"tile": tuple(pos), "pixels": int(seam_bad.sum()), "first": [int(iy), int(ix)],
                                "lonlat_deg": [float(np.degrees(lon[::-1][iy, ix] if pa.get_default_vertical_parity_sign() == 1 else lon[iy, ix])),
                                               float(np.degrees(lat[::-1][iy, ix] if pa.get_default_vertical_parity_sign() == 1 else lat[iy, ix]))],
                                "whole_map": a[iy, ix].tolist(), "map_pixel_row_col": [int(row[iy, ix]), int(col[iy, ix])]})
        if bad.any():
            iy, ix = np.argwhere(bad)[0]
            res["viol"].append({"tile": tuple(pos), "pixels": int(bad.sum()), "first": [int(iy), int(ix)],
                                "whole_map": a[iy, ix].tolist(), "chunked": None if b is None else b[iy, ix].tolist(),
                                "map_pixel_row_col": [int(row[iy, ix]), int(col[iy, ix])]})
            if len(res["viol"]) >= 3:
                break
    return res


def fits_tiler_task(d):
    """tile_fits / FitsTiler in TOAST mode on a collection of several images: every image is sampled through its own
    footprint filter and the pyramid is then downsampled through the UNION of the footprint filters.  Sentence checked:
    the filtered run gives the pixel values of the run that visits every tile - at the base level (against sampling every
    image with an accept-all filter) and at every shallower level (against the exhaustive cascade of the same base)."""
    import shutil
    import numpy as np
    from astropy.io import fits as afits
    from toasty import TilingMethod, tile_fits, toast
    from toasty.merge import averaging_merger, cascade_images
    from toasty.pyramid import PyramidIO
    from toasty.samplers import WcsSampler
    res = {"id": d["id"], "viol": [], "mut": [], "tiles": 0, "finite_pixels": 0, "levels": d["start"] + 1}
    rng = np.random.default_rng(d["seed"])
    base = tempfile.mkdtemp(prefix="ft-", dir=d["scratch"])
    imgs = []
    for k, im in enumerate(d["images"]):
        data = rng.uniform(1.0, 2.0, size=(im["ny"], im["nx"])).astype(np.float32) + 10 * k
        data[rng.uniform(size=data.shape) < 0.03] = np.nan
        imgs.append((data, make_wcs(im)))
    paths, hdus = [], []
    if d["layout"] == "same-file":          # one multi-extension file listed once per extension
        hl = afits.HDUList([afits.PrimaryHDU()] + [afits.ImageHDU(data=a, header=w.to_header()) for a, w in imgs])
        path = os.path.join(base, "mosaic.fits")
        hl.writeto(path)
        paths, hdus = [path] * len(imgs), list(range(1, len(imgs) + 1))
    elif d["layout"] == "mixed":            # the first two images share a file, the others have their own
        hl = afits.HDUList([afits.PrimaryHDU()] + [afits.ImageHDU(data=a, header=w.to_header()) for a, w in imgs[:2]])
        path = os.path.join(base, "pair.fits")
        hl.writeto(path)
        paths, hdus = [path, path], [1, 2]
        for k, (a, w) in enumerate(imgs[2:]):
            path = os.path.join(base, "img%d.fits" % k)
            afits.HDUList([afits.PrimaryHDU(), afits.ImageHDU(data=a, header=w.to_header())]).writeto(path)
            paths.append(path)
            hdus.append(1)
    else:                                   # one file per image
        for k, (a, w) in enumerate(imgs):
            path = os.path.join(base, "img%d.fits" % k)
            afits.HDUList([afits.PrimaryHDU(), afits.ImageHDU(data=a, header=w.to_header())]).writeto(path)
            paths.append(path)
            hdus.append(1)
    out_dir = os.path.join(base, "tiled")
    start = d["start"]
    tile_fits(fits=paths, hdu_index=hdus, out_dir=out_dir, tiling_method=TilingMethod.TOAST, parallel=1, override=True, start=start)
    obs = PyramidIO(out_dir, default_format="fits")
    # exhaustive base layer: every image through a filter that accepts every tile
    refb = PyramidIO(os.path.join(base, "refbase"), default_format="fits")
    for a, w in imgs:
        toast.sample_layer_filtered(refb, lambda t: True, WcsSampler(a, w).sampler(), start, parallel=1)
    # exhaustive cascade of the very base layer the filtered run produced
    refc_dir = os.path.join(base, "refcascade")
    os.makedirs(refc_dir)
    shutil.copytree(os.path.join(out_dir, str(start)), os.path.join(refc_dir, str(start)))
    refc = PyramidIO(refc_dir, default_format="fits")
    cascade_images(refc, start, averaging_merger, parallel=1)

    def arr(pio, pos):
        img = pio.read_image(pos, format="fits")
        return None if img is None else np.asarray(img.asarray(), dtype=np.float64)
    for n in range(start, -1, -1):
        for pos in _level_positions(n):
            ref = arr(refb if n == start else refc, pos)
            if ref is None:
                continue
            res["tiles"] += 1
            fr = np.isfinite(ref)
            if not fr.any():
                continue
            res["finite_pixels"] += int(fr.sum())
            got = arr(obs, pos)
            bad = fr if got is None else (fr & ~(np.isfinite(got) & (np.where(fr, got, 0) == np.where(fr, ref, 0))))
            if bad.any() and len(res["viol"]) < 4:
                iy, ix = np.argwhere(bad)[0]
                res["viol"].append({"level": n, "base": n == start, "tile": tuple(pos), "pixels": int(bad.sum()), "first": [int(iy), int(ix)],
                                    "exhaustive": float(ref[iy, ix]), "filtered": None if got is None else float(got[iy, ix])})
    return res


def chunk_edge_task(d):
    """(c) directed: along the inside of every edge of every chunk, every tile down to tiles much smaller than a map
    cell that has a pixel centre in the chunk must be accepted by the chunk's filter on its whole path."""
    import numpy as np
    from toasty import toast
    from toasty.samplers import ChunkedPlateCarreeSampler
    W, H, specs, csname = d["W"], d["H"], d["specs"], d["coordsys"]
    cs = coordsys_of(csname)
    res = {"viol": [], "mut": [], "raised": [], "tiles_seen": 0, "exact": 0, "calls": 0}
    chunker = ChunkedPlateCarreeSampler(FakeChunked(W, H, specs), planetary=True)
    cell_lon, cell_lat = TWOPI / W, math.pi / H
    frac = 0.12                                        # strip: the outer 12 % of a map cell inside the chunk edge
    for ich, (x0, y0, cw, ch) in enumerate(specs):
        try:
            g = Guard(chunker.filter(ich))
        except Exception as e:  # noqa
            res["raised"].append({"region": repr(("chunk", W, H, ich)), "error": repr(e)})
            continue
        lon_l, lon_r = TWOPI * x0 / W - math.pi, TWOPI * (x0 + cw) / W - math.pi
        lat_u, lat_d = math.pi / 2 - math.pi * y0 / H, math.pi / 2 - math.pi * (y0 + ch) / H
        mid_lon, mid_lat = 0.5 * (lon_l + lon_r), 0.5 * (lat_u + lat_d)
        half_lon = min(0.5 * (lon_r - lon_l), math.radians(8))
        half_lat = min(0.5 * (lat_u - lat_d), math.radians(8))
        strips = [  # (latmin, latmax, arc start, arc span)
            (lat_u - frac * cell_lat, lat_u, (mid_lon - half_lon) % TWOPI, 2 * half_lon),       # north edge
            (lat_d, lat_d + frac * cell_lat, (mid_lon - half_lon) % TWOPI, 2 * half_lon),       # south edge
            (mid_lat - half_lat, mid_lat + half_lat, lon_l % TWOPI, frac * cell_lon),           # west edge
            (mid_lat - half_lat, mid_lat + half_lat, (lon_r - frac * cell_lon) % TWOPI, frac * cell_lon),   # east edge
        ]
        for si, strip in enumerate(strips):
            thick = frac * (cell_lat if si < 2 else cell_lon * max(math.cos(mid_lat), 0.2))
            depth = int(max(2, min(9, math.ceil(math.log2((math.pi / 2) / (0.5 * thick))) + 1)))
            hulls = {}

            def pre(tile, strip=strip):
                h = corner_hull(tile)
                hulls[tuple(tile.pos)] = h
                return tile.pos.n == 1 or hull_meets(h, strip, 0.0)
            tl = list(toast.generate_tiles_filtered(depth, pre, bottom_only=False, coordsys=cs))
            res["tiles_seen"] += len(tl)
            first_of = {}
            for t in sorted(tl, key=lambda t: t.pos.n):
                p = tuple(t.pos)
                acc = bool(g(t))
                par = first_of.get((p[0] - 1, p[1] >> 1, p[2] >> 1)) if p[0] > 1 else None
                first = par if par is not None else (None if acc else p)
                first_of[p] = first
                if first is None or not hull_meets(hulls[p], strip, 0.0) or res["exact"] >= 40 or len(res["viol"]) >= 3:
                    continue
                res["exact"] += 1
                lon, lat = toast.toast_tile_get_coords(t)
                col, row, edge = map_cell(lon, lat, W, H)
                m = (edge > 1e-6) & (col >= x0) & (col < x0 + cw) & (row >= y0) & (row < y0 + ch)
                if m.any():
                    iy, ix = np.argwhere(m)[0]
                    res["viol"].append({"region": ["chunk", W, H, [x0, y0, cw, ch]], "coordsys": csname, "tile": p, "rejected_at": first,
                                        "pixels_inside": int(m.sum()), "pixel": [int(iy), int(ix)], "lonlat": [float(lon[iy, ix]), float(lat[iy, ix])]})
        res["calls"] += len(g.verdict)
        res["mut"].extend(g.mutated[:1])
    return res


_TILE_COORDS = {}


def _tile_coords(csname, depth):
    from toasty import toast
    key = (csname, depth)
    if key not in _TILE_COORDS:
        _TILE_COORDS[key] = [(tuple(t.pos),) + tuple(toast.toast_tile_get_coords(t))
                             for t in toast.generate_tiles(depth, bottom_only=True, coordsys=coordsys_of(csname))]
    return _TILE_COORDS[key]


def chunk_sampler_task(d):
    """(d) at sampler level, for many map sizes: the real chunk samplers of all chunks, applied one after another to the
    pixel centres of every tile of a level, must fill every pixel with exactly the value the real whole-map sampler gives
    (bit for bit; NaN where the map pixel is NaN)."""
    import numpy as np
    from toasty.samplers import ChunkedPlateCarreeSampler, plate_carree_planet_sampler
    res = {"viol": [], "pixels": 0, "calls": 0, "cases": 0}
    for W, H, specs, kind in d["maps"]:
        img = FakeChunked(W, H, specs, kind)
        chunker = ChunkedPlateCarreeSampler(img, planetary=True)
        whole = plate_carree_planet_sampler(img._data)
        samplers = [chunker.sampler(i) for i in range(chunker.n_chunks)]
        for csname in d["coordsys"]:
            res["cases"] += 1
            for pos, lon, lat in _tile_coords(csname, d["depth"]):
                exp = np.asarray(whole(lon, lat))
                if kind == "f32":
                    got = np.full(exp.shape, np.nan, dtype=np.float32)
                    for sm in samplers:
                        out = np.array(sm(lon, lat))
                        res["calls"] += 1
                        m = ~np.isnan(out)
                        got[m] = out[m]
                    bad = exp.astype(np.float32).view(np.uint32) != got.view(np.uint32)
                    bad &= ~(np.isnan(exp) & np.isnan(got))
                else:
                    got = np.zeros(exp.shape[:2] + (4,), dtype=np.uint8)
                    for sm in samplers:
                        out = np.array(sm(lon, lat))
                        res["calls"] += 1
                        m = out[..., 3] == 255
                        got[m] = out[m]
                    bad = (got[..., 3] != 255) | np.any(got[..., :3] != exp[..., :3], axis=-1)
                res["pixels"] += bad.size
                if bad.any() and len(res["viol"]) < 4:
                    iy, ix = np.argwhere(bad)[0]
                    res["viol"].append({"map": [W, H], "chunks": len(specs), "values": kind, "coordsys": csname, "tile": pos, "pixels": int(bad.sum()),
                                        "first": [int(iy), int(ix)], "lonlat_deg": [float(np.degrees(lon[iy, ix])), float(np.degrees(lat[iy, ix]))],
                                        "whole_map": np.asarray(exp[iy, ix]).tolist(), "chunked": np.asarray(got[iy, ix]).tolist()})
    return res


def chunk_layer_float_task(d):
    """As chunk_layer_task for a float32 map (values incl. +-inf, +-0.0, extremes, NaN) and a pyramid whose tiles are stored
    as d["fmt"] (fits: tiles come back big-endian; npy): every pass after the first updates tiles that already exist."""
    import numpy as np
    from toasty import toast
    from toasty.pyramid import PyramidIO
    from toasty.samplers import ChunkedPlateCarreeSampler, plate_carree_planet_sampler
    res = {"id": d["id"], "viol": [], "mut": [], "tiles": 0, "pixels": 0, "filter_calls": 0}
    W, H, specs, fmt = d["W"], d["H"], d["specs"], d["fmt"]
    img = FakeChunked(W, H, specs, "f32")
    cs = coordsys_of(d["coordsys"])
    base = tempfile.mkdtemp(prefix="cf-", dir=d["scratch"])
    pa = PyramidIO(os.path.join(base, "whole"), default_format=fmt)
    pb = PyramidIO(os.path.join(base, "chunks"), default_format=fmt)
    toast.sample_layer(pa, plate_carree_planet_sampler(img._data), d["depth"], coordsys=cs, format=fmt, parallel=1)
    chunker = ChunkedPlateCarreeSampler(img, planetary=True)
    order = list(range(chunker.n_chunks))
    if d.get("reverse"):
        order.reverse()
    for ich in order:
        g = Guard(chunker.filter(ich))
        filtered_layer(d.get("route", "direct"), pb, g, chunker.sampler(ich), d["depth"], d["coordsys"])
        res["filter_calls"] += len(g.verdict)
        res["mut"].extend(g.mutated[:1])
    for pos in _level_positions(d["depth"]):
        ia = pa.read_image(pos, format=fmt)
        ib = pb.read_image(pos, format=fmt)
        res["tiles"] += 1
        a = np.asarray(ia.asarray(), dtype=np.float32)
        res["pixels"] += a.size
        if ib is None:
            bad = ~np.isnan(a)
            b = None
        else:
            b = np.asarray(ib.asarray(), dtype=np.float32)
            bad = ~same_bits(a, b)
        if bad.any() and len(res["viol"]) < 3:
            iy, ix = np.argwhere(bad)[0]
            res["viol"].append({"tile": tuple(pos), "pixels": int(bad.sum()), "first": [int(iy), int(ix)], "whole_map": float(a[iy, ix]),
                                "chunked": None if b is None else float(b[iy, ix])})
    return res


def _dispatch(task):
    kind, arg = task
    try:
        if kind == "real":
            return kind, real_tiles_task(arg)
        if kind == "foot":
            return kind, footprint_task(arg)
        if kind == "wlayer":
            return kind, wcs_layer_task(arg)
        if kind == "clayer":
            return kind, chunk_layer_task(arg)
        if kind == "ftiler":
            return kind, fits_tiler_task(arg)
        if kind == "cedge":
            return kind, chunk_edge_task(arg)
        if kind == "csamp":
            return kind, chunk_sampler_task(arg)
        if kind == "clayerf":
            return kind, chunk_layer_float_task(arg)
    except Exception as e:  # noqa
        import traceback
        tb = traceback.extract_tb(e.__traceback__)
        root = os.path.realpath(os.environ.get("VERIF_REPO", "/repo"))
        # innermost frame that belongs to either the harness or toasty decides who raised (libraries called by toasty
        # count as toasty, libraries called by the harness as the harness)
        in_toasty, where = False, "?"
        for fr in reversed(tb):
            fn = os.path.realpath(fr.filename)
            if fn.startswith(os.path.join(root, "toasty")):
                in_toasty, where = True, "%s:%s" % (os.path.basename(fr.filename), fr.name)
                break
            if fn.startswith(os.path.realpath(os.path.dirname(os.path.dirname(__file__)))):
                where = "%s:%s" % (os.path.basename(fr.filename), fr.name)
                break
        return ("raised" if in_toasty else "crash"), {"kind": kind, "arg": repr(arg)[:400], "where": where, "error": repr(e)[:300],
                                                     "trace": traceback.format_exc()[-1500:]}
    return "crash", {"kind": kind, "trace": "unknown task"}


# ------------------------------------------------------------------------------------------------------------
# input families (enumerated by the harness; the expected values come from TLC / the monitors)
# ------------------------------------------------------------------------------------------------------------

def gen_boxes(rng, n):
    """Lat/lon boxes: any origin, width up to > 2*pi, touching the poles and the seam, down to single-pixel size."""
    out = []
    hp = math.pi / 2
    specials = [0.0, math.pi, -math.pi, TWOPI, -TWOPI, math.pi / 2, 3 * math.pi / 2]
    while len(out) < n:
        r = rng.random()
        if r < 0.25:
            w = 10 ** rng.uniform(-3.5, -1.0)
        elif r < 0.7:
            w = rng.uniform(0.05, math.pi)
        elif r < 0.9:
            w = rng.uniform(math.pi, TWOPI)
        else:
            w = rng.uniform(TWOPI, 7.5)
        lo = rng.choice(specials) if rng.random() < 0.25 else rng.uniform(-TWOPI, TWOPI)
        if rng.random() < 0.1:
            lo = rng.choice(specials) - w          # the box ends on the seam / a quadrant meridian
        r = rng.random()
        if r < 0.25:
            h = 10 ** rng.uniform(-3.5, -1.0)
        else:
            h = rng.uniform(0.02, math.pi)
        la = rng.uniform(-hp, hp - min(h, math.pi - 1e-3) * 0.5)
        lb = min(la + h, hp)
        r = rng.random()
        if r < 0.12:
            lb = hp
        elif r < 0.24:
            la = -hp
        elif r < 0.28:
            la, lb = -hp, hp
        if not (la < lb and w > 0):
            continue
        out.append(("box", lo, lo + w, la, lb))
    return out


QUICK_SIZES = [1, 2, 3, 5, 8, 12, 15, 16, 17, 20, 24, 28, 31, 32, 33, 48, 64, 100, 257, 600]


SIP_MIN_AXIS = 24        # px: shorter axes leave no room for a distortion of a pixel or more inside the limits below


def gen_sip(rng, nx, ny):
    """SIP polynomials A (x) and B (y) of order 2-3 whose terms add up to `amp` pixels at the image corners: between 1 and 4 px,
    at most 1/8 of the shorter half-axis h (the distorted pixel grid stays far from folding over, and the iterative inverse
    the sampler relies on converges out to many image sizes around the footprint) and at most 0.04 h^2 (the bend of an edge
    between two samples one pixel apart stays below 0.02 px, far below TAU)."""
    hx, hy = nx / 2.0, ny / 2.0
    h = min(hx, hy)
    amp = min(rng.uniform(1.0, 4.0), h / 8.0, 0.04 * h * h)
    out = {}
    for key in ("a", "b"):
        quad = rng.sample([(2, 0), (1, 1), (0, 2)], rng.choice([1, 2, 3]))
        terms = [(p, q, rng.choice([-1.0, 1.0]) * rng.uniform(0.5, 1.0) * amp / len(quad)) for p, q in quad]
        if rng.random() < 0.4:
            p, q = rng.choice([(3, 0), (2, 1), (1, 2), (0, 3)])
            terms.append((p, q, rng.choice([-1.0, 1.0]) * rng.uniform(0.5, 1.0) * amp / 4.0))
        out[key] = [[p, q, c / (hx ** p * hy ** q)] for p, q, c in sorted(terms)]
    return out, amp


def gen_footprint(rng, ident, nx, ny, klass, frame="icrs", sip=False):
    big = max(nx, ny)
    smax = min(0.15, 30.0 / big)
    if klass == "nearpole":
        smax = min(smax, 0.02)
    scale = 10 ** rng.uniform(math.log10(0.012), math.log10(max(smax, 0.0121)))
    pixr = math.radians(scale)
    theta = rng.choice([0.0, math.pi / 2, math.pi, 3 * math.pi / 2]) if rng.random() < 0.3 else rng.uniform(0, TWOPI)
    parity = rng.choice([-1, 1])
    crpix = [(nx + 1) / 2.0 + rng.uniform(-3, 3), (ny + 1) / 2.0 + rng.uniform(-3, 3)]
    span = scale * big
    ra = rng.uniform(0, 360)
    if klass == "ra0":
        ra = rng.uniform(-span / 3, span / 3) % 360.0
    if klass == "poleinside":
        # the pole at least 20 px from every edge (closer, the latitude along an edge bends by more than TAU
        # between two samples one pixel apart: boundary-ambiguous by the monitor's tolerance)
        crpix = [rng.uniform(20.5, nx - 19.5), rng.uniform(20.5, ny - 19.5)]
        dec = rng.choice([-90.0, 90.0])
    elif klass == "nearpole":
        dist_px = math.hypot(nx, ny) / 2 + 4 + rng.uniform(30, 120)
        dec = rng.choice([-1, 1]) * (90.0 - dist_px * scale)
    else:
        # keep (pixel size) * tan(latitude) small: the bend of an edge between two samples stays far below TAU
        decmax = min(80.0, math.degrees(math.atan(0.02 / pixr)) - span * 0.75)
        decmax = max(decmax, 5.0)
        dec = rng.uniform(-decmax, decmax)
    grid = GRID_VARIANTS[ident % len(GRID_VARIANTS)]
    delta = (rng.randint(0, max(1, nx // 3)), rng.randint(0, max(1, ny // 3)))
    if delta == (0, 0):
        delta = (1, 1)
    d = {"id": ident, "nx": nx, "ny": ny, "scale": scale, "theta": theta, "parity": parity, "ra": ra, "dec": dec,
         "crpix": crpix, "klass": klass, "grid": grid, "grid_delta": delta}
    if frame != "icrs":
        d["frame"] = frame
        if FRAMES[frame][3]:        # an equinox far enough from J2000 for the frame to differ from ICRS by many pixels
            d["equinox"] = 1950.0 if frame.startswith("fk4") and rng.random() < 0.5 else rng.choice([rng.uniform(1900.0, 1985.0), rng.uniform(2030.0, 2080.0)])
    if sip:
        d["sip"], d["sip_amp_px"] = gen_sip(rng, nx, ny)
    return d


def gen_footprints(rng, quick):
    out = []
    S = QUICK_SIZES

    def add(nx, ny, klass, frame="icrs", sip=False):
        out.append(gen_footprint(rng, len(out), nx, ny, klass, frame, sip and min(nx, ny) >= SIP_MIN_AXIS))
    for L in S:
        add(L, L, "generic")
        add(L, rng.choice(S), "generic")
        add(rng.choice(S), L, "ra0")
        add(L, rng.choice([20, 40, 90]), "nearpole")
    for L in (16, 20, 24, 31):
        for _ in range(3):
            add(L, rng.choice([L, 40, 200]), rng.choice(["generic", "ra0"]))
            add(rng.choice([L, 50, 120]), L, rng.choice(["generic", "nearpole"]))
    for nx, ny in ((48, 64), (100, 60), (257, 257), (64, 600)):
        add(nx, ny, "poleinside")
    # ... and with the pole's pixel position at a chosen fraction of a coarse cell (32-point grid) beyond a node, per axis
    for (nx, ny), (fx, fy) in (((400, 400), (0.85, 0.85)), ((257, 300), (0.15, 0.85)), ((600, 420), (0.5, 0.2)), ((320, 257), (0.9, 0.55))):
        add(nx, ny, "poleinside")
        ix, iy = rng.randint(8, 22), rng.randint(8, 22)
        out[-1]["crpix"] = [0.5 + (ix + fx) * nx / 31.0, 0.5 + (iy + fy) * ny / 31.0]
    # ... in the celestial frames a header can name (the footprint is where the SAMPLER finds the image: the frame converted
    # to ICRS) and with distortion polynomials of a few pixels (the sampler applies them), alone and combined
    others = [f for f in FRAMES if f != "icrs"]
    for k, frame in enumerate(others):
        add(rng.choice([24, 48, 100]), rng.choice([20, 64, 257]), ["generic", "ra0", "nearpole"][k % 3], frame)
    add(120, 90, "poleinside", rng.choice(["galactic", "fk5"]))
    for nx, ny, klass in ((48, 64, "generic"), (257, 100, "ra0"), (600, 64, "nearpole"), (33, 200, "generic"), (300, 257, "poleinside")):
        add(nx, ny, klass, "icrs", True)
    add(64, 48, "generic", "galactic", True)
    add(100, 257, "ra0", "fk4", True)
    if not quick:
        for rep in range(4):
            for frame in others:
                for klass in ("generic", "ra0", "nearpole"):
                    add(rng.choice(S), rng.choice(S), klass, frame, rng.random() < 0.3)
                add(rng.choice([48, 120, 300]), rng.choice([64, 257, 600]), "poleinside", frame, rng.random() < 0.3)
        for L in S:
            if L >= SIP_MIN_AXIS:
                for klass in ("generic", "ra0", "nearpole"):
                    add(L, rng.choice([x for x in S if x >= SIP_MIN_AXIS]), klass, "icrs", True)
                    add(rng.choice([x for x in S if x >= SIP_MIN_AXIS]), L, klass, rng.choice(list(FRAMES)), True)
        for nx in range(1, 65):
            for ny in range(1, 65):
                add(nx, ny, rng.choice(["generic", "generic", "ra0", "nearpole"]))
        for rep in range(3):
            for L in S:
                add(L, rng.choice(S), rng.choice(["generic", "ra0", "nearpole"]))
                add(rng.choice(S), L, rng.choice(["generic", "ra0", "nearpole"]))
            for nx, ny in ((48, 48), (120, 70), (300, 257), (64, 600), (600, 600)):
                add(nx, ny, "poleinside")
    return out


BBOX_CFG = """SPECIFICATION Spec
CONSTANTS
 G = %d
 LatLonBases <- MCLatLonBases
INVARIANT NoFalseNegative
INVARIANT NoFalsePositive
INVARIANT SortOK
INVARIANT UnwrapOK
INVARIANT UnionNoFalseNegative
%s
INVARIANT Emit
CHECK_DEADLOCK FALSE
"""


def bbox_module(G):
    hp = G // 2
    edges = [x for x in range(-hp - 1, hp + 2) if x % 2 != 0]
    latboxes = [(a, b) for a in edges for b in edges if a < b]
    defs = [
        ("MCLatLonBases", tla.lit({0, 2 * G - 2})),
        ("MCLatBoxSeq", tla.lit(latboxes)),
        "ASSUME {MCLatBoxSeq[i] : i \\in DOMAIN MCLatBoxSeq} = LatBoxes",
        "BminSeq == [i \\in 1..TWOPI |-> 2 * i - 1 - TWOPI]",
        "WSeq == [i \\in 1..(G + 1) |-> 2 * i]",
        "ASSUME {BminSeq[i] : i \\in DOMAIN BminSeq} = BoxMins /\\ {WSeq[i] : i \\in DOMAIN WSeq} = Widths",
        'Emit == ph = "tile" => IF fam = "lon" '
        'THEN PrintT(<<"B", ToJson([fam |-> fam, c |-> cs, v |-> [i \\in DOMAIN BminSeq |-> [j \\in DOMAIN WSeq |-> '
        'Accept(cs, MkBox(BminSeq[i], WSeq[j], MidLatBox))]]])>>) '
        'ELSE PrintT(<<"B", ToJson([fam |-> fam, c |-> cs, v |-> [i \\in 1..3 |-> [j \\in 1..3 |-> [k \\in DOMAIN MCLatBoxSeq |-> '
        'Accept(cs, MkBox(LatFamBmins[i], LatFamWs[j], MCLatBoxSeq[k]))]]]])>>)',
    ]
    return tla.module("MCBBoxFilter", ["BBoxFilter", "Json"], defs), latboxes


def replay_bbox(ctx, rows, G, latboxes):
    """Every TLC grid case into the compiled function, directly and through samplers._latlon_tile_filter."""
    import numpy as np
    from toasty import toast
    from toasty.pyramid import Pos
    from toasty._libtoasty import tile_intersects_latlon_bbox
    from toasty.samplers import _latlon_tile_filter
    U = math.pi / G
    bmins = [2 * i - 1 - 2 * G for i in range(1, 2 * G + 1)]
    ws = [2 * j for j in range(1, G + 2)]
    lat_bm, lat_w = [1 - 2 * G, 1, G + 1], [2, G, 2 * G + 2]
    filt = {}

    def fil(bm, w, lb):
        k = (bm, w, lb)
        if k not in filt:
            filt[k] = _latlon_tile_filter(bm * U, (bm + w) * U, lb[0] * U, lb[1] * U)
        return filt[k]
    n = 0
    nfalse = 0
    for row in rows:
        c = [(x[0] * U, x[1] * U) for x in row["c"]]
        arr = np.array(c, dtype=float)
        tile = toast.Tile(Pos(5, 0, 0), tuple(c), True)
        if row["fam"] == "lon":
            cases = [((bmins[i], ws[j], (-1, 1)), row["v"][i][j]) for i in range(len(bmins)) for j in range(len(ws))]
        else:
            cases = [((lat_bm[i], lat_w[j], latboxes[k]), row["v"][i][j][k]) for i in range(3) for j in range(3) for k in range(len(latboxes))]
        for (bm, w, lb), exp in cases:
            n += 1
            nfalse += (not exp)
            got_d = bool(tile_intersects_latlon_bbox(arr.copy(), bm * U, (bm + w) * U, lb[0] * U, lb[1] * U))
            before = tuple(tile.corners)
            got_w = bool(fil(bm, w, lb)(tile))
            if tuple(tile.corners) != before:
                _violation(ctx, "C07:filter-mutates-tile", "the box filter changed the corners of the tile it was given", {"corners": row["c"], "G": G})
            for how, got in (("tile_intersects_latlon_bbox", got_d), ("_latlon_tile_filter", got_w)):
                if got == exp:
                    continue
                case = {"unit": "pi/%d" % G, "corners_lonlat": row["c"], "box_lon": [bm, bm + w], "box_lat": list(lb), "spec": exp, "real": got, "via": how}
                if exp and not got:
                    _violation(ctx, "C07:box-filter:grid-case", "%s rejects a tile whose corner hull meets the box (grid case, units of pi/%d): "
                                  "corners %s box lon [%d, %d] lat %s" % (how, G, row["c"], bm, bm + w, list(lb)), case)
                else:
                    ctx.drift("%s accepts a grid case the transcription rejects: %s" % (how, case))
    ctx.count(2 * n)
    ctx.trace_ok(n)
    ctx.add_note("bbox_grid_cases_replayed", n)
    ctx.add_note("bbox_grid_cases_expected_reject", nfalse)
    return n


IB_CFG = """SPECIFICATION Spec
CONSTANTS
 Lengths <- MCLengths
 MinSamples = %d
%s
CHECK_DEADLOCK FALSE
"""
IB_INVS = "INVARIANT CoarseSpansImage\nINVARIANT CoversEveryArrayPixel\nINVARIANT EndsIncluded\nINVARIANT ReachesImageEdge\nINVARIANT Spacing\nINVARIANT WalkOK\nINVARIANT Emit"


def ib_module(lengths):
    defs = [
        ("MCLengths", tla.lit(set(lengths))),
        'Emit == ((q[1] = "axis" /\\ q[3] = 0) => PrintT(<<"A", ToJson([L |-> q[2], '
        'coarse |-> [i \\in 1..NC |-> Coarse(q[2], i - 1)[1]], '
        'ref |-> [e1 \\in 1..NC |-> [den |-> RefDen(q[2], e1 - 1), num |-> [k \\in 1..N(q[2], e1 - 1) |-> RefNum(q[2], e1 - 1, k)]]]])>>)) '
        '/\\ ((q[1] = "walk" /\\ q[2] = 0) => PrintT(<<"W", ToJson([pe \\in 1..(4 * NM + 1) |-> '
        '[p |-> Perim(pe - 1), ax |-> Seg(pe - 1).ax, rel |-> Seg(pe - 1).rel, fix |-> Seg(pe - 1).fix]])>>))',
    ]
    return tla.module("MCImageBounds", ["ImageBounds", "Json"], defs)


def compare_sample_sets(ctx, fps, results, tables):
    """Recorded pixel coordinates of the real _image_bounds against TLC's sets (deviation = drift, never a violation)."""
    nset = ndev = nshort = nbox = nboxdev = 0
    methods = set()
    for d, r in zip(fps, results):
        calls = r.get("calls")
        if calls:
            methods.update(calls.get("methods", []))
        if not calls or calls.get("n_calls") != 5:
            if calls is not None and d["id"] < 3:
                ctx.drift("_image_bounds evaluated the WCS's pixel -> world map (%s) %s times; the spec describes 1 coarse + 4 refined evaluations"
                          % (" / ".join(calls.get("methods", [])) or "neither wcs_pix2world nor all_pix2world", calls.get("n_calls")))
            continue
        if not r.get("error"):
            nbox += 1
            if calls.get("box_vs_samples"):
                nboxdev += 1
                if nboxdev <= 3:
                    ctx.drift("footprint %dx%d (frame %s%s): the bounds _image_bounds returns are not the extremes, over the pixel samples it evaluated, of the "
                              "ICRS positions the sampler's route (distortion terms applied, the WCS's frame converted) gives those pixels: %s"
                              % (d["nx"], d["ny"], d.get("frame", "icrs"), ", SIP" if d.get("sip") else "", calls["box_vs_samples"]))
        for ax, L in ((0, d["nx"]), (1, d["ny"])):
            tab = tables[L]
            coarse = [x / 62.0 for x in tab["coarse"]]
            nset += 1
            got = calls["coarse"][ax]
            if len(got) != 32 or max(abs(a - b) for a, b in zip(got, coarse)) > 1e-7:
                ndev += 1
                ctx.drift("coarse grid of a %d px axis is %s..., spec %s..." % (L, got[:3], coarse[:3]))
            refs = [[x / float(e["den"]) for x in e["num"]] for e in tab["ref"]]
            for ci, rc in enumerate(calls["refined"]):
                S = rc[ax]
                nset += 1
                other = rc[1 - ax]
                if ci >= 2 and len(S) == 1 and len(other) >= 1 and (abs(S[0] - 0.5) < 1e-7 or abs(S[0] - (L + 0.5)) < 1e-7) and \
                        not (len(other) == 1 and ax == 1):
                    continue            # the held coordinate of an edge refinement
                match = [rf for rf in refs if len(rf) == len(S) and max(abs(a - b) for a, b in zip(rf, S)) < 1e-7]
                if match:
                    continue
                ndev += 1
                same_start = [rf for rf in refs if abs(rf[0] - S[0]) < 1e-7]
                short = bool(same_start) and all(S[-1] < rf[-1] - 1e-7 for rf in same_start)
                nshort += short
                ctx.drift("footprint %dx%d: refined samples on the %d px axis are %s; spec (both ends, n >= 2) has %s for the interval starting there%s"
                          % (d["nx"], d["ny"], L, [round(v, 3) for v in S[:6]], [[round(v, 3) for v in rf[:6]] for rf in same_start[:2]],
                             " - the far end of the interval is not sampled" if short else ""))
    ctx.note("sample_sets_compared", nset)
    ctx.note("sample_sets_deviating", ndev)
    ctx.note("sample_sets_missing_far_end", nshort)
    ctx.note("sample_sets_evaluated_through", sorted(methods))
    ctx.note("bounds_compared_with_extremes_of_the_recorded_samples_through_the_samplers_route", "%d footprints, %d deviating" % (nbox, nboxdev))
    ctx.trace_ok(nset)


def compare_chunk_grid(ctx, rec):
    """TLC's chunk grid against the real ChunkedJPEG2000Reader arithmetic and ChunkedPlateCarreeSampler._chunk_bounds."""
    import types
    from toasty.samplers import ChunkedPlateCarreeSampler
    W, H, tw, th = rec["cf"]
    specs = [tuple(s) for s in rec["specs"]]
    real = None
    try:
        from toasty.jpeg2000 import ChunkedJPEG2000Reader
        rd = object.__new__(ChunkedJPEG2000Reader)
        rd._jp2 = types.SimpleNamespace(shape=(H, W, 3))
        rd._tile_shape = (th, tw)
        rd._fake_data = True
        real = [tuple(int(v) for v in rd.chunk_spec(i)) for i in range(rd.n_chunks)]
    except Exception as e:  # noqa
        ctx.drift("ChunkedJPEG2000Reader chunk arithmetic not reachable without glymur: %r" % (e,))
    ctx.count()
    if real is not None and real != specs:
        cover = {}
        for i, (x0, y0, cw, ch) in enumerate(real):
            for y in range(y0, y0 + ch):
                for x in range(x0, x0 + cw):
                    cover[(x, y)] = cover.get((x, y), 0) + 1
        holes = [(x, y) for y in range(H) for x in range(W) if cover.get((x, y), 0) != 1]
        if holes or len(cover) != W * H:
            _violation(ctx, "C07:chunk-grid:not-a-partition", "chunk_spec of a %dx%d map in %dx%d chunks: map pixel %s lies in %d chunks"
                          % (W, H, tw, th, holes[0] if holes else "outside", cover.get(holes[0], 0) if holes else 0),
                          {"config": rec["cf"], "real": real, "spec": specs})
        else:
            ctx.drift("chunk_spec of %s enumerates the chunks as %s, spec %s (still a partition)" % (rec["cf"], real[:4], specs[:4]))
    try:
        ch = ChunkedPlateCarreeSampler(FakeChunked(W, H, specs), planetary=True)
        for i, b in enumerate(rec["bounds"]):
            exp = (b["lon_l"][0] / b["lon_l"][1] * math.pi, b["lon_r"][0] / b["lon_r"][1] * math.pi,
                   b["lat_d"][0] / b["lat_d"][1] * math.pi, b["lat_u"][0] / b["lat_u"][1] * math.pi)
            got = ch._chunk_bounds(i)
            if max(abs(a - e) for a, e in zip(got, exp)) > 1e-12:
                ctx.drift("_chunk_bounds(%d) of %s = %s, spec %s" % (i, rec["cf"], got, exp))
    except AttributeError:
        pass
    ctx.trace_ok()


def run(ctx):
    import multiprocessing as mp
    from concurrent.futures import ThreadPoolExecutor
    from lib.core import REPO
    repo.setup(ctx)
    quick = ctx.quick
    rng = ctx.rng
    ctx.rule = ("(a) grid cases = every (tile longitude configuration x longitude box) and (latitude configuration x latitude box) of "
                "BBoxFilter.tla at G, verdicts from TLC, all replayed; real tiles: every tile to depth 4 x seeded boxes, non-trivial = box "
                "rejecting at least one tile; (b) footprints = seeded (size, scale, rotation, parity, position class) with sizes from a "
                "critical list (all 1..64 x 1..64 in thorough); non-trivial = distinct footprint whose filter rejects some tile over it; "
                "plus the WCS's celestial frame (FK5/FK4/FK4-NO-E with equinox, Galactic, ecliptic axes) and SIP distortion polynomials of 1-4 px; "
                "(c),(d) chunk grids enumerated by TLC; whole layers compared pixel by pixel")
    scratch = ctx.mkdtemp("c07")
    pool = mp.Pool(8, initializer=_worker_init, initargs=(REPO,))       # forked before any thread exists
    try:
        _run(ctx, pool, scratch, quick, rng)
    finally:
        pool.terminate()
        pool.join()


def _run(ctx, pool, scratch, quick, rng):
    import numpy as np
    from concurrent.futures import ThreadPoolExecutor
    # ---------------------------------------------------------------- inputs
    fps = gen_footprints(rng, quick)
    lengths = sorted(set([d["nx"] for d in fps] + [d["ny"] for d in fps]))
    boxes = gen_boxes(rng, 300 if quick else 4000)
    wl_cases = [
        {"nx": 40, "ny": 32, "scale": 1.3, "theta": 0.5, "parity": 1, "ra": 2.0, "dec": 12.0, "crpix": [20.5, 16.5], "depth": 3, "coordsys": "astronomical", "grid": "smaller", "grid_delta": (14, 11)},
        {"nx": 36, "ny": 50, "scale": 0.8, "theta": 2.2, "parity": -1, "ra": 181.0, "dec": -35.0, "crpix": [15.0, 30.0], "depth": 2, "coordsys": "planetary", "route": "builder", "grid": "header-larger", "grid_delta": (5, 9)},
        {"nx": 64, "ny": 48, "scale": 0.5, "theta": 4.0, "parity": 1, "ra": 300.0, "dec": 48.0, "crpix": [32.5, 24.5], "depth": 3 if quick else 4, "coordsys": "astronomical", "grid": "header-smaller", "grid_delta": (20, 0)},
    ]
    # the image's WCS names another celestial frame / carries distortion polynomials (the whole-sky comparison uses a
    # projection of bounded radius for the distorted image: see the assumption on SIP ghosts at the end of _run)
    sip_sin = {"a": [[2, 0, 3.0 / 1024], [1, 1, 1.0 / (32 * 24)]], "b": [[0, 2, -2.0 / 576], [2, 0, 1.0 / 1024]]}
    wl_cases += [
        {"nx": 48, "ny": 40, "scale": 1.1, "theta": 0.7, "parity": 1, "ra": 200.0, "dec": 25.0, "crpix": [24.5, 20.5], "depth": 3, "coordsys": "astronomical", "frame": "galactic", "grid": "right"},
        {"nx": 40, "ny": 50, "scale": 0.9, "theta": 3.0, "parity": -1, "ra": 10.0, "dec": -40.0, "crpix": [18.0, 27.0], "depth": 2, "coordsys": "planetary", "route": "builder", "frame": "fk4", "equinox": 1950.0},
        {"nx": 64, "ny": 48, "scale": 0.5, "theta": 4.0, "parity": 1, "ra": 300.0, "dec": 48.0, "crpix": [32.5, 24.5], "depth": 2 if quick else 4, "coordsys": "astronomical", "proj": "SIN", "sip": sip_sin},
    ]
    if not quick:
        wl_cases += [
            {"nx": 40, "ny": 50, "scale": 0.9, "theta": 3.0, "parity": -1, "ra": 359.5, "dec": 40.0, "crpix": [18.0, 27.0], "depth": 3, "coordsys": "astronomical", "frame": "fk5", "equinox": 1900.0, "route": "builder-coordsys"},
            {"nx": 60, "ny": 44, "scale": 0.7, "theta": 1.9, "parity": 1, "ra": 120.0, "dec": -62.0, "crpix": [30.5, 22.5], "depth": 3, "coordsys": "planetary", "frame": "fk4-no-e", "equinox": 1950.0, "grid": "header-right"},
            {"nx": 56, "ny": 56, "scale": 0.8, "theta": 5.5, "parity": -1, "ra": 75.0, "dec": 8.0, "crpix": [28.5, 28.5], "depth": 3, "coordsys": "astronomical", "frame": "ecliptic", "route": "builder"},
            {"nx": 100, "ny": 80, "scale": 0.4, "theta": 2.6, "parity": 1, "ra": 266.0, "dec": -29.0, "crpix": [50.5, 40.5], "depth": 4, "coordsys": "astronomical", "frame": "galactic", "grid": "sliced", "grid_delta": (7, 3)},
            {"nx": 64, "ny": 48, "scale": 0.5, "theta": 1.0, "parity": -1, "ra": 150.0, "dec": -20.0, "crpix": [32.5, 24.5], "depth": 3, "coordsys": "planetary", "proj": "SIN", "sip": sip_sin, "frame": "galactic", "route": "builder"},
        ]
        wl_cases += [
            {"nx": 90, "ny": 70, "scale": 0.7, "theta": 1.0, "parity": -1, "ra": 359.0, "dec": -20.0, "crpix": [45.5, 35.5], "depth": 4, "coordsys": "astronomical", "route": "builder"},
            {"nx": 120, "ny": 120, "scale": 0.3, "theta": 0.0, "parity": 1, "ra": 90.0, "dec": 90.0, "crpix": [60.5, 60.5], "depth": 3, "coordsys": "astronomical"},
            {"nx": 50, "ny": 40, "scale": 1.0, "theta": 5.1, "parity": 1, "ra": 45.0, "dec": 30.0, "crpix": [25.5, 20.5], "depth": 4, "coordsys": "planetary", "route": "builder-coordsys"},
            {"nx": 36, "ny": 50, "scale": 0.8, "theta": 2.2, "parity": -1, "ra": 181.0, "dec": -35.0, "crpix": [15.0, 30.0], "depth": 3, "coordsys": "planetary", "route": "direct"},
        ]
    for i, c in enumerate(wl_cases):
        c.update(id=i, seed=ctx.seed * 1000 + i, scratch=scratch)

    def ft_image(nx, ny, scale, ra, dec, frame="icrs"):
        im = {"nx": nx, "ny": ny, "scale": scale, "theta": rng.uniform(0, TWOPI), "parity": rng.choice([-1, 1]), "ra": ra, "dec": dec,
              "crpix": [(nx + 1) / 2.0, (ny + 1) / 2.0]}
        if frame != "icrs":
            im.update(frame=frame, equinox=1950.0 if frame.startswith("fk4") else 1960.0)
        return im
    ra0 = rng.uniform(0, 360)
    # (tile_fits takes the WTML placement from the LAST image and refuses one whose axes are not RA/Dec: images in the
    # Galactic frame come first, the last one is equatorial - ICRS, FK5 or FK4)
    ft_cases = [{"layout": "same-file", "start": 3, "images": [ft_image(24, 20, 1.0, ra0, rng.uniform(-40, 40), "galactic"),
                                                              ft_image(20, 24, 1.2, (ra0 + rng.uniform(120, 240)) % 360, rng.uniform(-40, 40))]}]
    if not quick:
        for layout, n in (("separate", 2), ("mixed", 3), ("same-file", 3)):
            ra0 = rng.uniform(0, 360)
            ft_cases.append({"layout": layout, "start": 3, "images": [ft_image(rng.choice([20, 28, 40]), rng.choice([20, 28, 40]), rng.uniform(0.6, 1.2),
                                                                              (ra0 + 360.0 * k / n + rng.uniform(-20, 20)) % 360, rng.uniform(-50, 50),
                                                                              ["icrs", "fk5", "fk4"][len(ft_cases) % 3] if k == n - 1 else
                                                                              ["galactic", "icrs", "fk4-no-e", "fk5"][(k + len(ft_cases)) % 4]) for k in range(n)]})
    for i, c in enumerate(ft_cases):
        c.update(id=i, seed=ctx.seed * 1000 + 500 + i, scratch=scratch)
    # chunk configurations: small ones exhaustively for the theorems, a few larger ones that are also sampled for real
    small = [(w, h, tw, th) for w in range(1, (4 if quick else 8) + 1) for h in range(1, (3 if quick else 6) + 1)
             for tw in range(1, w + 1) for th in range(1, h + 1)]
    # (configuration, depth, coordinate system, reverse chunk order, route); (16, 8, 14, 8) has a seam on the lon = 135 deg
    # meridian, which passes through TOAST pixel centres
    sampled = [((24, 11, 9, 4), 2, "planetary", False, "builder"), ((16, 8, 8, 8), 3, "astronomical", False, "direct"),
               ((16, 8, 14, 8), 2, "planetary", False, "direct"), ((9, 5, 4, 2), 1, "astronomical", True, "builder-coordsys")]
    if not quick:
        sampled += [((37, 19, 10, 7), 3, "planetary", False, "builder"), ((24, 12, 8, 12), 4, "planetary", False, "direct"),
                    ((21, 11, 8, 4), 3, "astronomical", True, "builder"), ((15, 7, 15, 3), 3, "planetary", False, "builder-coordsys"),
                    ((64, 4, 24, 4), 2, "astronomical", False, "direct"), ((48, 6, 18, 3), 2, "planetary", False, "builder"), ((21, 11, 8, 4), 2, "planetary", False, "direct")]
    chunk_cfgs = sorted(set(small) | set(s[0] for s in sampled))
    # many map sizes for the sampler-level comparison (chunk grid from TLC, per-axis partition theorem)
    if quick:
        wh = [(24, 12), (40, 20), (48, 20), (64, 32), (96, 48), (136, 68), (192, 90), (360, 180), (600, 300), (1000, 500)]
    else:
        wh = [(w, w // 2) for w in range(8, 201, 8)] + [(w, max(3, w // 2 + rng.choice([-3, -1, 1, 5]))) for w in range(8, 201, 16)]
        wh += [(384, 192), (600, 300), (768, 384), (1000, 500), (1200, 600), (512, 256), (720, 360)]
    big_cfgs = []
    for k, (w, h) in enumerate(wh):
        tw, th = [(w // 3 + 1, h // 2 + 1), (w // 2 + 3, h), ((w + 3) // 4, (h + 2) // 3)][k % 3]
        big_cfgs.append((w, h, min(tw, w), min(th, h)))
    big_cfgs = sorted(set(big_cfgs))
    G = 4
    # ---------------------------------------------------------------- work that needs nothing from TLC starts now
    pending = []
    order = sorted(fps, key=lambda d: -(d["nx"] + d["ny"]))
    for d in order:
        pending.append(pool.apply_async(_dispatch, (("foot", d),)))
    for c in ft_cases:
        pending.append(pool.apply_async(_dispatch, (("ftiler", c),)))
    for c in wl_cases:
        pending.append(pool.apply_async(_dispatch, (("wlayer", c),)))
    # ---------------------------------------------------------------- TLC (concurrently)
    bb_text, latboxes = bbox_module(G)

    def tlc_chunks():
        return ctx.tlc("MCChunks", extra={"MCChunks.tla": tla.module("MCChunks", ["Chunks", "Json"], [
            ("MCConfigs", tla.lit(set(chunk_cfgs))),
            ("MCBigConfigs", tla.lit(set(big_cfgs))),
            'Emit == i \\in {-2, -3} => PrintT(<<"C", ToJson([cf |-> c, n |-> NChunks(c), specs |-> [k \\in 1..NChunks(c) |-> ChunkSpec(c, k - 1)], '
            'bounds |-> [k \\in 1..NChunks(c) |-> BoundsPi(c, k - 1)]])>>)'])},
            cfg_text="SPECIFICATION Spec\nCONSTANTS\n Configs <- MCConfigs\n BigConfigs <- MCBigConfigs\nINVARIANT Partition\nINVARIANT ChunkShape\nINVARIANT BoxIsChunk\n"
                     "INVARIANT SamplerIsChunk\nINVARIANT NoHoles\nINVARIANT GridByAxes\nINVARIANT SeamsCovered\nINVARIANT SeamIsLocalTie\nINVARIANT Emit\nCHECK_DEADLOCK FALSE\n", workers=6, timeout=3000)

    def tlc_bbox(g, extra_inv):
        text, lb = bbox_module(g)
        return ctx.tlc("MCBBoxFilter", extra={"MCBBoxFilter.tla": text}, cfg_text=BBOX_CFG % (g, extra_inv), workers=6, timeout=3000), lb

    def tlc_ib():
        return ctx.tlc("MCImageBounds", extra={"MCImageBounds.tla": ib_module(lengths)}, cfg_text=IB_CFG % (2, IB_INVS), workers=2, timeout=1200)

    def tlc_ib_aswritten():
        return ctx.tlc("MCImageBounds", extra={"MCImageBounds.tla": ib_module(range(1, 41))},
                       cfg_text=IB_CFG % (1, "INVARIANT ReachesImageEdge"), workers=1, timeout=600, expect_violation=True, count=False)

    def tlc_fm():
        return ctx.tlc("MCFootprintMap", workers=1, timeout=600)

    ex = ThreadPoolExecutor(5)
    fut_fm = ex.submit(tlc_fm)
    fut_ch = ex.submit(tlc_chunks)
    fut_bb = ex.submit(tlc_bbox, G, "INVARIANT HullIsMinArc" if quick else "INVARIANT HullIsMinArc\nINVARIANT BranchFree")
    fut_ib = ex.submit(tlc_ib)
    fut_ib1 = ex.submit(tlc_ib_aswritten)
    # ---------------------------------------------------------------- (c) chunk grids -> real tiles and layers
    rch = fut_ch.result()
    crecs = {tuple(r["cf"]): r for r in rch.json_lines("C")}
    if len(crecs) != len(set(chunk_cfgs) | set(big_cfgs)):
        ctx.machinery("TLC emitted %d chunk grids for %d configurations" % (len(crecs), len(set(chunk_cfgs) | set(big_cfgs))))
    maps = [(cf[0], cf[1], [tuple(sp) for sp in crecs[cf]["specs"]], "f32" if k % 2 else "rgb") for k, cf in enumerate(big_cfgs)]
    nsplit = 4 if quick else 8
    for k in range(nsplit):
        if maps[k::nsplit]:
            pending.append(pool.apply_async(_dispatch, (("csamp", {"maps": maps[k::nsplit], "coordsys": ["planetary", "astronomical"], "depth": 1 if quick else 2}),)))
    chunk_regions = []
    for cf, depth, csname, rev, route in sampled:
        r = crecs[cf]
        for ich in range(r["n"]):
            chunk_regions.append(("chunk", cf[0], cf[1], [tuple(s) for s in r["specs"]], ich))
    seen_cf = set()
    for k, (cf, depth, csname, rev, route) in sorted(enumerate(sampled), key=lambda kv: -kv[1][1]):
        pending.append(pool.apply_async(_dispatch, (("clayer", {"id": k, "W": cf[0], "H": cf[1], "specs": [tuple(s) for s in crecs[cf]["specs"]],
                                                               "depth": depth, "coordsys": csname, "reverse": rev, "route": route, "scratch": scratch}),)))
    for cf in sorted(set(sm[0] for sm in sampled)):
        for csname in ("planetary", "astronomical"):
            pending.append(pool.apply_async(_dispatch, (("cedge", {"W": cf[0], "H": cf[1], "specs": [tuple(s) for s in crecs[cf]["specs"]], "coordsys": csname}),)))
    # the same chunk-by-chunk runs with a float map and tiles stored as FITS / npy (multi-pass updates of existing tiles)
    fl_cases = [((24, 11, 9, 4), 2, "planetary", False, "builder", "fits"), ((9, 5, 4, 2), 1, "astronomical", True, "direct", "npy")]
    if not quick:
        fl_cases += [((16, 8, 14, 8), 3, "astronomical", False, "direct", "fits"), ((37, 19, 10, 7), 2, "planetary", True, "builder-coordsys", "fits"),
                     ((21, 11, 8, 4), 3, "planetary", False, "direct", "npy")]
    for k, (cf, depth, csname, rev, route, fmt) in enumerate(fl_cases):
        pending.append(pool.apply_async(_dispatch, (("clayerf", {"id": k, "W": cf[0], "H": cf[1], "specs": [tuple(s) for s in crecs[cf]["specs"]], "depth": depth,
                                                                "coordsys": csname, "reverse": rev, "route": route, "fmt": fmt, "scratch": scratch}),)))
    uniq_chunk_regions = [r for r in chunk_regions if not ((r[1], r[2], r[4], len(r[3])) in seen_cf or seen_cf.add((r[1], r[2], r[4], len(r[3]))))]
    regions = boxes + uniq_chunk_regions
    real_depth = {"astronomical": 4, "planetary": 3 if quick else 4}
    for csname in ("astronomical", "planetary"):
        pending.append(pool.apply_async(_dispatch, (("real", (csname, None, 1, regions)),)))
        for y in range(4):
            for x in range(4):
                pending.append(pool.apply_async(_dispatch, (("real", (csname, (2, x, y), real_depth[csname], regions)),)))
    for cf in chunk_cfgs:
        compare_chunk_grid(ctx, crecs[cf])
    ctx.note("chunk_grids", len(chunk_cfgs))
    # ---------------------------------------------------------------- (a) grid cases of the box test
    rbb, latboxes = fut_bb.result()
    rows = rbb.json_lines("B")
    if not rows:
        ctx.machinery("TLC emitted no box-filter rows")
    replay_bbox(ctx, rows, G, latboxes)
    ctx.sample({"box_test_grid_case": {"unit": "pi/%d" % G, "corners_lonlat": rows[0]["c"], "verdicts_first_box_row": rows[0]["v"][0]}})
    if not quick:
        rbb8, lb8 = tlc_bbox(8, "INVARIANT BranchFree")
        replay_bbox(ctx, rbb8.json_lines("B"), 8, lb8)
    # ---------------------------------------------------------------- (b) sample sets
    rib = fut_ib.result()
    tables = {r["L"]: r for r in rib.json_lines("A")}
    walk = rib.json_lines("W")
    if set(tables) != set(lengths) or len(walk) != 1:
        ctx.machinery("TLC emitted %d axis tables for %d lengths" % (len(tables), len(lengths)))
    off = [pe for pe, e in enumerate(walk[0]) if e["rel"] != (e["p"][0] if e["ax"] == 1 else e["p"][1])]
    ctx.note("border_walk_segments_not_centred_on_their_point", "%d of %d (all on the backwards 'bottom' edge; the point is still inside its segment: WalkOK)" % (len(off), len(walk[0])))
    r1 = fut_ib1.result()
    ctx.note("as_written_min_samples_1", "TLC refutes ReachesImageEdge: %s" % (r1.violated,) if r1.violated else "TLC did not refute ReachesImageEdge for MinSamples = 1")
    if not r1.violated:
        ctx.machinery("ImageBounds with MinSamples = 1 should violate ReachesImageEdge")
    # which pixel -> sky map the box has to be built with (FootprintMap.tla): theorems checked by TLC for every case; the
    # cases in which a wrong map loses tiles are written out for the evidence
    rfm = fut_fm.result()
    lost = {"core": [0, 0], "noframe": [0, 0]}
    for row in rfm.json_lines("F"):
        lost[row["v"]][0] += 1
        lost[row["v"]][1] += bool(row["lost"])
    if not (lost["core"][1] and lost["noframe"][1]):
        ctx.machinery("FootprintMap: TLC emitted no case in which the core-only / frame-less map loses a tile: %s" % (lost,))
    ctx.note("footprint_map_model", "F = sampler's map: no tile lost in any case (SameMapNoFalseNegative, EndsSuffice); core WCS only: tiles lost in %d of %d cases with a "
             "distortion or a frame offset (exactly those with a distortion); frame taken for ICRS: %d of %d (exactly those with an offset)"
             % (lost["core"][1], lost["core"][0], lost["noframe"][1], lost["noframe"][0]))
    # ---------------------------------------------------------------- collect
    foot_res, crashes = {}, []
    nreal = {"calls": 0, "npix": 0, "pop": 0}
    rejected = np.zeros(len(regions), dtype=int)
    nwit = {"wcs": 0}
    for fut in pending:
        kind, r = fut.get(timeout=7200)
        if kind == "crash":
            crashes.append(r)
            continue
        if kind == "raised":        # the code under test raised while building / applying a filter or sampling with it
            _violation(ctx, "C07:%s:raises" % {"real": "box-or-chunk-filter", "foot": "wcs-filter", "wlayer": "sample-layer-filtered", "clayer": "chunked-sampling", "ftiler": "fits-tiler", "cedge": "box-or-chunk-filter", "csamp": "chunked-sampling", "clayerf": "chunked-sampling"}[r["kind"]],
                          "toasty raised %s in %s while a filter was built / applied / sampled through (%s task)" % (r["error"], r["where"], r["kind"]), r)
            continue
        for m in r.get("mut", []):
            _violation(ctx, "C07:filter-mutates-tile", "a tile filter changed the corners of the tile it was given (%s task): %s" % (kind, str(m)[:300]), {"task": kind, "detail": m})
        if kind == "foot":
            foot_res[r["id"]] = r
        elif kind == "real":
            nreal["calls"] += r["calls"]
            nreal["npix"] += r["npix_tests"]
            nreal["pop"] += r["populated"]
            rejected += np.array(r["rejected"])
            ctx.count(r["calls"])
            for rr in r.get("raised", []):
                _violation(ctx, "C07:box-or-chunk-filter:raises", "the filter factory raised %s for the valid region %s" % (rr["error"], rr["region"]), rr)
            if r.get("hull_excess"):
                ctx.drift("pixel centres of tiles %s leave the lat/lon hull of the tile corners (side condition of NoFalseNegative)" % (r["hull_excess"][:4],))
            for v in r["viol"]:
                key = "C07:box-filter:false-negative" if v["region"][0] == "box" else "C07:chunk-filter:false-negative"
                _violation(ctx, key, "tile %s (%s) has %d pixel centres inside %s but is not delivered by generate_tiles_filtered (filter rejects %s); e.g. pixel %s at lon/lat %s"
                              % (v["tile"], v["coordsys"], v["pixels_inside"], v["region"], v["rejected_at"], v["pixel"], v["lonlat"]), v)
        elif kind == "wlayer":
            ctx.count(r["tiles"])
            ctx.add_note("wcs_layer_finite_pixels_compared", r["finite_pixels"])
            ctx.distinct(("wlayer", r["id"]))
            for v in r["viol"]:
                _violation(ctx, "C07:sample-layer-filtered:differs", "filtered sampling (route %s, %s) with the image's own filter differs from sample_layer in tile %s: %d pixels, e.g. %s unfiltered %r filtered %r (filter verdicts on the path %s)"
                              % (wl_cases[r["id"]].get("route", "direct"), wl_cases[r["id"]]["coordsys"], v["tile"], v["pixels"], v["first"], v["unfiltered"], v["filtered"], v["filter_verdicts_on_path"]), {"case": {k: x for k, x in wl_cases[r["id"]].items() if k != "scratch"}, "detail": v})
        elif kind == "clayerf":
            ctx.count(r["tiles"] + r["filter_calls"])
            ctx.add_note("chunked_float_pixels_compared", r["pixels"])
            ctx.distinct(("clayerf", r["id"]))
            cfc = fl_cases[r["id"]]
            for v in r["viol"]:
                _violation(ctx, "C07:chunked-sampling:differs", "float map %s sampled chunk by chunk (%s, route %s, %s tiles) leaves tile %s different from whole-map sampling in %d pixels: pixel %s whole-map %r chunked %r"
                           % (cfc[0], cfc[2], cfc[4], cfc[5], v["tile"], v["pixels"], v["first"], v["whole_map"], v["chunked"]), {"config": cfc, "detail": v})
        elif kind == "csamp":
            ctx.count(r["calls"])
            ctx.add_note("chunk_sampler_level_pixels_compared", r["pixels"])
            ctx.add_note("chunk_sampler_level_map_sizes_x_coordsys", r["cases"])
            for v in r["viol"]:
                _violation(ctx, "C07:chunked-sampling:differs", "map %dx%d (%s values, %d chunks, %s): the chunk samplers applied one after another give tile %s %d pixels that differ from whole-map sampling, "
                           "e.g. pixel %s at lon/lat %s deg: whole map %s, chunked %s" % (v["map"][0], v["map"][1], v["values"], v["chunks"], v["coordsys"], v["tile"], v["pixels"], v["first"],
                                                                                      [round(x, 9) for x in v["lonlat_deg"]], v["whole_map"], v["chunked"]), v)
        elif kind == "cedge":
            ctx.count(r["calls"])
            ctx.add_note("chunk_edge_tiles_examined", r["tiles_seen"])
            for rr in r["raised"]:
                _violation(ctx, "C07:box-or-chunk-filter:raises", "the filter factory raised %s for the valid region %s" % (rr["error"], rr["region"]), rr)
            for v in r["viol"]:
                _violation(ctx, "C07:chunk-filter:false-negative", "tile %s (%s) has %d pixel centres inside %s but the chunk filter rejects %s on its path; e.g. pixel %s at lon/lat %s"
                           % (v["tile"], v["coordsys"], v["pixels_inside"], v["region"], v["rejected_at"], v["pixel"], v["lonlat"]), v)
        elif kind == "ftiler":
            ctx.count(r["tiles"])
            ctx.add_note("fits_tiler_finite_pixels_compared", r["finite_pixels"])
            ctx.distinct(("ftiler", r["id"]))
            case = {k: x for k, x in ft_cases[r["id"]].items() if k != "scratch"}
            for v in r["viol"]:
                if v["base"]:
                    _violation(ctx, "C07:fits-tiler:base-layer-differs", "tile_fits (TOAST, %d images, layout %s): base tile %s lacks/changes %d pixels that sampling every tile gives, e.g. %s exhaustive %r filtered %r"
                               % (len(case["images"]), case["layout"], v["tile"], v["pixels"], v["first"], v["exhaustive"], v["filtered"]), {"case": case, "detail": v})
                else:
                    _violation(ctx, "C07:fits-tiler:cascade-drops-data", "tile_fits (TOAST, %d images, layout %s): the downsampling stage, pruned by the union of the footprint filters, leaves tile %s "
                               "without %d pixels that the exhaustive cascade of the same base layer has, e.g. %s exhaustive %r filtered %r"
                               % (len(case["images"]), case["layout"], v["tile"], v["pixels"], v["first"], v["exhaustive"], v["filtered"]), {"case": case, "detail": v})
        elif kind == "clayer":
            ctx.count(r["tiles"] + r["filter_calls"])
            ctx.add_note("chunked_pixels_compared", r["pixels"])
            ctx.add_note("chunked_pixels_on_a_cell_boundary_compared_with_whole_map_only", r["ambiguous"])
            ctx.distinct(("clayer", r["id"]))
            for v in r["seam"]:
                _violation(ctx, "C07:chunked-sampling:seam-hole", "sampling all chunks of map %s (%s, route %s) one after another leaves %d pixel centres of tile %s that lie on a chunk seam without data "
                           "(e.g. pixel %s at lon/lat %s deg; whole-map sampling gives %s)" % (sampled[r["id"]][0], sampled[r["id"]][2], sampled[r["id"]][4], v["pixels"], v["tile"], v["first"],
                                                                                       [round(x, 9) for x in v["lonlat_deg"]], v["whole_map"]), {"config": sampled[r["id"]], "detail": v})
            for v in r["viol"]:
                _violation(ctx, "C07:chunked-sampling:differs", "sampling all chunks of map %s (%s, route %s) one after another leaves tile %s different from whole-map sampling in %d pixels: pixel %s whole-map %s chunked %s (map pixel row/col %s)"
                              % (sampled[r["id"]][0], sampled[r["id"]][2], sampled[r["id"]][4], v["tile"], v["pixels"], v["first"], v["whole_map"], v["chunked"], v["map_pixel_row_col"]), {"config": sampled[r["id"]], "detail": v})
    for ri in range(len(regions)):
        if rejected[ri] > 0:
            ctx.distinct(("region", ri))
    ctx.note("real_tile_filter_calls", nreal["calls"])
    ctx.note("real_tile_exact_pixel_tests", nreal["npix"])
    ctx.note("regions", {"boxes": len(boxes), "chunks": len(uniq_chunk_regions)})
    # ---------------------------------------------------------------- (b) footprints: verdicts and sample sets
    fps = [d for d in fps if d["id"] in foot_res]
    results = [foot_res[d["id"]] for d in fps]
    nexp = 0
    maxexp = 0.0
    wcs_wit = []
    for d, r in zip(fps, results):
        ctx.count(1 + r["samples"])
        if r["tiles_seen"]:
            ctx.distinct(("foot", d["nx"], d["ny"], round(d["scale"], 6), round(d["ra"], 4), round(d["dec"], 4), d.get("frame", "icrs"), bool(d.get("sip"))))
        if r["exposure_px"] > 0:
            nexp += 1
            maxexp = max(maxexp, r["exposure_px"])
        if r["error"]:
            _violation(ctx, "C07:wcs-filter:raises", "WcsSampler.filter() of a %dx%d image: %s" % (d["nx"], d["ny"], r["error"]), {"footprint": d})
        for v in r["viol"]:
            wcs_wit.append((d, v))
    # strongest witnesses first (the first one is the one printed and written to the replay file)
    wcs_wit.sort(key=lambda dv: (-dv[1]["pixels_well_inside"], dv[0]["id"]))
    for d, v in wcs_wit:
        fpd = v["footprint"]
        _violation(ctx, "C07:wcs-filter:false-negative",
                      "WcsSampler.filter() rejects tile %s (first rejection on its path: %s) although %d of its pixel centres sample finite image data "
                      "(%d of them more than %.2f px inside the image); image %dx%d px of %.4f deg at ICRS RA %.4f Dec %.4f, WCS frame %s%s, box (deg) %s, true latitude range %s; "
                      "tile side %.1f image px [%s; grid size recorded by the WCS: %s]"
                      % (v["tile"], v["rejected_at"], v["finite_pixels"], v["pixels_well_inside"], TAU, fpd["nx"], fpd["ny"], fpd["scale"], fpd["ra"], fpd["dec"],
                         fpd.get("frame", "icrs") + (" equinox %.1f" % fpd["equinox"] if "equinox" in fpd else ""),
                         " with SIP distortion %s" % ({k: [[p, q, float("%.3g" % c)] for p, q, c in fpd["sip"][k]] for k in ("a", "b")},) if fpd.get("sip") else "",
                         v["box_deg"], v["true_lat_deg"], v["tile_side_px"], v["search"], fpd.get("grid", "none")), v)
    ctx.note("footprints", len(fps))
    ctx.note("footprints_sticking_out_of_their_box", "%d (max %.3f px)" % (nexp, maxexp))
    ctx.note("footprint_tiles_sampled_exactly", sum(r["samples"] for r in results))
    ctx.note("footprints_reanchored", sum(r["reanchored"] for r in results))
    compare_sample_sets(ctx, fps, results, tables)
    for d, r in list(zip(fps, results))[:2]:
        ctx.sample({"footprint": {k: d[k] for k in ("nx", "ny", "scale", "ra", "dec", "klass")}, "tiles_over_it": r["tiles_seen"],
                    "exposure_px": r["exposure_px"], "deepest_level_in_domain": r.get("n_dom")})
    ctx.exhaustive = False
    if crashes:
        ctx.machinery("worker crashed: %s" % (crashes[0]["trace"],))
    ctx.assume("pixel centres of a TOAST tile lie inside the lat/lon hull of its corners (checked for every tile to depth 4 in both coordinate systems; excess reported as drift)")
    ctx.assume("footprint monitor domain: levels at which a tile spans >= %g image pixels (tile pixels at most 4x finer than image pixels, the regime "
               "_image_bounds is written for); a witness pixel must lie >= %.2f px inside the image; footprints keep (pixel size)*tan(latitude) <= 0.02 and an "
               "enclosed pole >= 20 px from every edge, so that the bend of an edge between two 1-px samples is far below that tolerance; around an ENCLOSED pole "
               "(2-D refinement, samples <= 1.4 px apart, bound short by < 1 px) the cap of two coarse cells is probed down to tiles of %g image px" % (MIN_TILE_PX, TAU, POLE_MIN_TILE_PX))
    ctx.assume("frames: the footprint is where the SAMPLER finds the image (astropy's frame for the header, converted to ICRS); astropy %s gives ELON/ELAT axes no "
               "ecliptic frame (it reads them as equatorial), for the sampler and for the filter alike. SIP footprints: corner amplitude 1-4 px, <= 1/8 of the shorter "
               "half-axis and <= 0.04 h^2 (no fold, edge bend between 1-px samples < 0.02 px); a witness pixel of a distorted image must map back onto its direction. "
               "The whole-sky comparison (d) uses a distorted image in a projection of bounded radius (SIN-SIP) for which astropy's iterative inverse converges or "
               "fails cleanly everywhere: for TAN-SIP, WcsSampler.sampler() itself returns ghost data tens of degrees away from the image, where that inverse does "
               "not converge (world_to_pixel_values hands back its last iterate) - reported separately, the filter rightly rejects those tiles" % (__import__("astropy").__version__,))
    ctx.assume("chunked sampling is compared with the real whole-map sampler bit for bit on every pixel (C07 states equality, no tolerance); only the comparison with the map pixel the harness itself computes from lon/lat skips pixel centres within 1e-6 cell of a cell boundary")
    ctx.assume("the compiled toasty._libtoasty is what runs (Cython absent: a .pyx edit cannot be exercised); _latlon_tile_filter / _image_bounds / _chunk_bounds are reached as private helpers for conformance only")
