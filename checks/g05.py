"""G05 (growth specification, DESIGN.md section 7) - image modes, saving and loading (toasty/image.py).

Specs: spec/ImageModes.tla (operator library: mode detection tables, Save, Load, load_pil's in-place work, the
(mode, format) table), spec/ImageRoundTrip.tla, spec/ImageLoad.tla, spec/ImageLoaderHistory.tla, spec/ImageDetect.tla
(the machines), spec/ImageFamilies.tla + spec/MCImage*.tla (input families, emitters), spec/ImageModesMask.tla (the
mode-level tables equal those of Mask.tla, C15).

TLC (a) checks the contract sentences in every configuration of the round-trip space (mode x size x pixels x format
request x save mode x default format x route), of the load space (file format x stored layout x ICC profile x crop x
black_to_transparent x colorspace_processing x entry point x file-name suffix), of the detection tables, and over
every history of loader instances up to a bound; (b) refutes the "ideal" statements the code does not keep (negative
controls; the witnesses are the as-built deviations); (c) emits, for every configuration and for scripted / random
histories, the expected outcome.

Binding (spec -> code): every emitted case is lifted to real tiny arrays / PIL images / files in a temp dir (JPEG:
one abstract pixel = one 16 x 16 block, compared at block centres) and pushed through the real Image.save,
ImageLoader.load_path / load_stream / load_pil / create_from_args (real argparse), Image.from_array / from_pil,
ImageMode.make_maskable_buffer + fill_into_maskable_buffer.  What save wrote is also read back WITHOUT toasty (PIL /
numpy / astropy) and compared with the file TLC specified.  Histories keep real loader objects and real PIL objects
alive across calls; after every call the result, every PIL object of the caller, every loader's attributes, the class
attributes and PIL.Image.MAX_IMAGE_PIXELS are compared.
"""
import io
import json
import os
import shutil
import struct

from lib import repo, tla

NAN, PINF, NINF, JUNK = -99999, 99998, -99998, 99999
S_JPG = 16
JPG_TOL = 4
JPG_LATER_TOL = 24

RT_INVARIANTS = ["TypeOK", "LosslessExact", "LoadedDefaultHoldsItsMode", "Idempotent", "UnsupportedRaise", "NothingWrittenOnRaise",
                 "UnknownFormatNameRefused", "JpegLossy", "SaveModeHonoured", "SaveModeIgnoredForArrays", "SaveModeConverts",
                 "JpegRefusesAlpha", "BufferPromotion", "WrittenLoads", "SaveForeign"]
RT_REFUTED = ["OnlyDocumentedPairsWrite", "DefaultFormatHoldsMode", "BufferRouteKeepsMode", "ModeSurvivesEveryWrite", "IdempotentOnEveryRoute"]
LD_INVARIANTS = ["PlainLoadIsIdentity", "ArrayLoadIsIdentity", "ForeignArrayRefused", "LoadedDefaultFormat", "CropExact",
                 "CropTooLargeRaises", "CropAllYieldsEmpty", "ZeroCropIsNoCrop", "B2TExact", "B2TMask", "NoB2TKeepsMode", "ColourLast",
                 "NoProfileNoConversion", "EntryIndependent", "WrongSuffixRefused", "SniffedByContent", "FitsSuffixesAgree",
                 "LoadedModeIsAMode", "OptionsIgnoredForArrays", "GrayAlphaDropped", "StreamCannotLoadNpy", "UpperCaseNpyRefused"]
LD_REFUTED = ["CropAppliesToEveryFile", "AlphaSurvivesLoad", "B2TAppliesToEveryFile", "EmptyCropRefused"]
H_INVARIANTS = ["TypeOK", "ClassDefaultsUntouched", "ConfiguredOptionsStick", "FreshLoaderHasDefaults", "GlobalRestored",
                "FileLoadsIndependentOfHistory", "PilLoadOfPristineArgument", "PilLoadOfCurrentArgument", "ArgumentCopiedFirst",
                "PlainLoadTouchesNothing", "RepeatedPilLoadStableAsBuilt"]
H_PROPERTIES = ["LoadsLeaveLoaders", "FailedCreateLeavesSlot", "OnlyPilLoadsTouchArguments"]
H_REFUTED = ["ArgumentNeverMutated", "NoLeakThroughArgument", "RepeatedPilLoadStable"]
D_INVARIANTS = ["DetectsAMode", "DetectInvertsArrayKind", "TablesAgree", "FewAxesPromoted", "FromPilStrict", "LoaderNeverRefuses",
                "BufferCanMask", "AsPilRefusesF16x3", "EveryModeHasALosslessHome"]
BAD_ARGS = (8, 9, 10)      # indices (1-based) of the command lines create_from_args refuses (inputs; the model decides what happens)
N_ARGS, N_PILS, N_FILES = 10, 4, 3


# ------------------------------------------------------------------------------------------------
# an ICC profile that is visibly not sRGB (sRGB primaries, gamma 3.0): (1, 0, 0) -> (0, 0, 0), (200, 100, 50) -> (185, 69, 21)
# ------------------------------------------------------------------------------------------------
def make_profile(gamma=3.0):
    def s15(x):
        return struct.pack(">i", int(round(x * 65536)))

    def xyz(x, y, z):
        return b"XYZ " + b"\0" * 4 + s15(x) + s15(y) + s15(z)

    def curv(g):
        return b"curv" + b"\0" * 4 + struct.pack(">I", 1) + struct.pack(">H", int(round(g * 256))) + b"\0\0"

    def desc(t):
        b = t.encode("ascii") + b"\0"
        return b"desc" + b"\0" * 4 + struct.pack(">I", len(b)) + b + b"\0" * (4 + 4 + 2 + 1 + 67)

    tags = [(b"desc", desc("g05 gamma")), (b"cprt", b"text" + b"\0" * 4 + b"none\0"), (b"wtpt", xyz(0.9642, 1.0, 0.8249)),
            (b"rXYZ", xyz(0.4360747, 0.2225045, 0.0139322)), (b"gXYZ", xyz(0.3850649, 0.7168786, 0.0971045)),
            (b"bXYZ", xyz(0.1430804, 0.0606169, 0.7141733)), (b"rTRC", curv(gamma)), (b"gTRC", curv(gamma)), (b"bTRC", curv(gamma))]
    n = len(tags)
    off = 128 + 4 + 12 * n
    table, data = b"", b""
    for sig, d in tags:
        table += sig + struct.pack(">II", off + len(data), len(d))
        data += d + b"\0" * ((-len(d)) % 4)
    hdr = (struct.pack(">I", off + len(data)) + b"\0" * 4 + struct.pack(">I", 0x02100000) + b"mntr" + b"RGB " + b"XYZ " +
           struct.pack(">6H", 2020, 1, 1, 0, 0, 0) + b"acsp" + b"\0" * 24 + struct.pack(">I", 0) + s15(0.9642) + s15(1.0) + s15(0.8249))
    hdr += b"\0" * (128 - len(hdr))
    return hdr + struct.pack(">I", n) + table + data


# ------------------------------------------------------------------------------------------------
# lifting abstract images to real arrays, projecting real arrays back
# ------------------------------------------------------------------------------------------------
# stored layouts of files written by other software: (planes (0 = scalar), numpy dtype, pixel values are float codes)
FOREIGN_KINDS = {"L": (0, "u1"), "LA": (2, "u1"), "P": (3, "u1"), "I;16": (0, "u2"), "F": (0, "f4"), "u2": (0, "u2"), "i8": (0, "i8"),
                 "f2": (0, "f2")}


class Tables(object):
    """What the harness needs to know about the eight modes comes from TLC (ImageDetect's mode records)."""

    def __init__(self, mode_recs):
        self.kind = {}
        self.cls = {}
        for r in mode_recs:
            k = r["kind"]
            self.kind[r["c"]["pm"]] = (k["planes"] if k["nd"] == 3 else 0, k["dt"])
            self.cls[r["c"]["pm"]] = r["class"]

    def layout(self, kind):
        return self.kind[kind] if kind in self.kind else FOREIGN_KINDS[kind]


def fval(c):
    if c == NAN:
        return float("nan")
    if c == PINF:
        return float("inf")
    if c == NINF:
        return float("-inf")
    return c / 2.0


def lift(px, w, h, layout, scale=1):
    import numpy as np
    planes, dt = layout
    p = max(planes, 1)
    isf = dt.startswith("f")
    a = np.zeros((h, w, p), dtype=np.float64 if isf else np.int64)
    for k, v in enumerate(px):
        a[k // w, k % w, :] = [fval(c) for c in v] if isf else v
    with np.errstate(all="ignore"):
        arr = a.astype(np.dtype(dt))
    if planes == 0:
        arr = arr[..., 0]
    if scale > 1:
        arr = np.repeat(np.repeat(arr, scale, 0), scale, 1)
    return np.ascontiguousarray(arr)


def centres(arr, scale):
    """The pixel at the centre of every scale x scale block."""
    if scale == 1:
        return arr
    o = scale // 2
    return arr[o::scale, o::scale]


def undefined_mask(arr, cls):
    """Mask.tla's 'undefined' per mode class, on a real array -> 2-d boolean array."""
    import numpy as np
    if cls == "RGB":
        return np.zeros(arr.shape[:2], dtype=bool)
    if cls == "RGBA":
        return arr[..., 3] == 0
    if cls == "Float":
        return np.isnan(arr)
    if cls == "F16x3":
        return np.any(np.isnan(arr), axis=2)
    return arr == 0


_XF = {}


def colour_transform(arr, mode):
    """The ICC -> sRGB transform of the odd profile (littleCMS through PIL, not toasty) on an RGB / RGBA uint8 array."""
    import numpy as np
    from PIL import Image as PI, ImageCms
    if arr.size == 0:
        return arr
    if mode not in _XF:
        _XF[mode] = ImageCms.buildTransform(ImageCms.getOpenProfile(io.BytesIO(make_profile())), ImageCms.createProfile("sRGB"), mode, mode)
    im = PI.fromarray(np.ascontiguousarray(arr))
    ImageCms.applyTransform(im, _XF[mode], inPlace=True)
    return np.asarray(im)


def compare_pixels(got, exp_px, w, h, layout, q, scale, conv=False, pilmode=None, tol=None):
    """-> None or message.  got: real array; exp_px: TLC's pixels."""
    import numpy as np
    planes, dt = layout
    want_shape = (h * scale, w * scale) + ((planes,) if planes else ())
    if tuple(got.shape) != want_shape:
        return "shape", "array shape %s, specified %s" % (tuple(got.shape), want_shape)
    if got.dtype.kind != np.dtype(dt).kind or got.dtype.itemsize != np.dtype(dt).itemsize:
        return "dtype", "array dtype %s, specified %s" % (got.dtype, dt)
    if q == "unspec" or got.size == 0:
        return None
    exp = lift(exp_px, w, h, layout, 1)
    if conv:
        exp = colour_transform(exp, pilmode)
    g = centres(got, scale)
    if q == "exact" and scale == 1:
        if not np.array_equal(g.astype(exp.dtype), exp, equal_nan=dt.startswith("f")):
            bad = _neq(g, exp, dt)
            y, x = int(bad[0][0]), int(bad[0][1])
            return "pixels", "%d of %d pixel values differ; first at row %d column %d: %s, specified %s" % (
                len(bad), exp.size, y, x, np.asarray(g[y, x]).tolist(), np.asarray(exp[y, x]).tolist())
        return None
    tol = tol or JPG_TOL * (2 if conv else 1)
    d = np.abs(g.astype(np.int64) - exp.astype(np.int64))
    if d.max() > tol:
        bad = np.argwhere(d > tol)
        y, x = int(bad[0][0]), int(bad[0][1])
        return "pixels", "lossy pixels off by up to %d (tolerance %d); first at block row %d column %d: %s, specified about %s" % (
            int(d.max()), tol, y, x, np.asarray(g[y, x]).tolist(), np.asarray(exp[y, x]).tolist())
    return None


def _neq(g, exp, dt):
    import numpy as np
    if dt.startswith("f"):
        ne = ~((g == exp) | (np.isnan(g) & np.isnan(exp)))
    else:
        ne = g != exp
    return np.argwhere(ne)


def compare_image(img, exp, T, scale, mask=None, tol=None):
    """Real toasty Image against TLC's image record -> list of (kind, message)."""
    import numpy as np
    out = []
    if img.mode.name != exp["mode"]:
        return [("mode", "mode %s, specified %s" % (img.mode.name, exp["mode"]))]
    arr = img.asarray()
    layout = T.layout(exp["mode"])
    r = compare_pixels(arr, exp["px"], exp["w"], exp["h"], layout, exp["q"], scale, exp["conv"], exp["mode"], tol=tol)
    if r:
        out.append(r)
    elif (img.width, img.height) != (exp["w"] * scale, exp["h"] * scale):
        out.append(("shape", "width x height = %d x %d, specified %d x %d" % (img.width, img.height, exp["w"] * scale, exp["h"] * scale)))
    if img.default_format != exp["dflt"]:
        out.append(("default-format", "default_format %r, specified %r" % (img.default_format, exp["dflt"])))
    if mask is not None and not out and exp["q"] != "unspec" and not exp["conv"] and arr.size:
        m = centres(undefined_mask(arr, T.cls[exp["mode"]]), scale)
        got = sorted(int(y) * exp["w"] + int(x) + 1 for y, x in np.argwhere(m))
        if got != sorted(mask):
            out.append(("mask", "undefined pixels %s, specified %s" % (got, sorted(mask))))
    return out


# ------------------------------------------------------------------------------------------------
# files written / read WITHOUT toasty
# ------------------------------------------------------------------------------------------------
def write_foreign_file(path, frec, T, scale, gz=False):
    """Write the file TLC describes with PIL / numpy / astropy."""
    import numpy as np
    from PIL import Image as PI, ImageCms
    fmt, kind = frec["fmt"], frec["kind"]
    arr = lift(frec["px"], frec["w"], frec["h"], T.layout(kind), scale)
    if fmt == "npy":
        with open(path, "wb") as f:
            np.save(f, arr)
        return
    if fmt == "fits":
        from astropy.io import fits
        bio = io.BytesIO()
        fits.writeto(bio, arr)
        data = bio.getvalue()
        if gz:
            import gzip
            data = gzip.compress(data)
        with open(path, "wb") as f:
            f.write(data)
        return
    if kind == "P":
        cols = sorted(set(tuple(int(c) for c in p) for p in frec["px"]))
        im = PI.new("P", (frec["w"] * scale, frec["h"] * scale))
        pal = [c for col in cols for c in col]
        im.putpalette(pal + [0] * (768 - len(pal)))
        idx = np.array([cols.index(tuple(p)) for p in frec["px"]], dtype=np.uint8).reshape(frec["h"], frec["w"])
        idx = np.repeat(np.repeat(idx, scale, 0), scale, 1)
        im.putdata(list(idx.reshape(-1)))
    else:
        im = PI.fromarray(arr)
    kw = {}
    if frec["icc"] == "odd":
        kw["icc_profile"] = make_profile()
    elif frec["icc"] == "srgb":
        kw["icc_profile"] = ImageCms.ImageCmsProfile(ImageCms.createProfile("sRGB")).tobytes()
    with open(path, "wb") as f:
        im.save(f, format={"png": "PNG", "jpg": "JPEG", "tiff": "TIFF"}[fmt], **kw)


def inspect_file(path, exp, T, scale, tol=None):
    """What toasty's save wrote, read back with PIL / numpy / astropy -> list of (kind, message)."""
    import numpy as np
    from PIL import Image as PI
    fmt, kind = exp["fmt"], exp["kind"]
    if fmt == "npy":
        arr = np.load(path)
    elif fmt == "fits":
        from astropy.io import fits
        with fits.open(path) as hdul:
            arr = np.array(hdul[0].data)
    else:
        with PI.open(path) as im:
            if im.format != {"png": "PNG", "jpg": "JPEG"}[fmt]:
                return [("file-format", "the file is a %s file, specified %s" % (im.format, fmt))]
            if im.mode != kind:
                return [("file-layout", "the file holds PIL mode %s, specified %s" % (im.mode, kind))]
            arr = np.asarray(im)
    r = compare_pixels(arr, exp["px"], exp["w"], exp["h"], T.layout(kind), exp["q"], scale, tol=tol)
    return [("file-" + r[0], "the file holds: " + r[1])] if r else []


# ------------------------------------------------------------------------------------------------
# workers
# ------------------------------------------------------------------------------------------------
def _quiet_worker():
    devnull = os.open(os.devnull, os.O_WRONLY)
    os.dup2(devnull, 1)
    os.dup2(devnull, 2)


def _warm():
    import time
    time.sleep(0.15)
    return os.getpid()


def _imports():
    repo.setup()
    import warnings
    warnings.simplefilter("ignore")


def _debug(tag, idx, rec):
    """G05_DEBUG_LOG=<dir>: every worker notes the case it is about to run (to find a case that kills the interpreter)."""
    d = os.environ.get("G05_DEBUG_LOG")
    if d:
        with open(os.path.join(d, "%s-%d.last" % (tag, os.getpid())), "w") as f:
            f.write(json.dumps([idx, dict((k, v) for k, v in rec.items() if k not in ("ideal",))]))


def _fill_whole(img):
    h, w = img.height, img.width
    buf = img.mode.make_maskable_buffer(h, w)
    img.fill_into_maskable_buffer(buf, slice(0, h), slice(0, w), slice(0, h), slice(0, w))
    return buf


def _rt_class(rec):
    if rec["smode"] != "none":
        return "save-mode"
    return rec["pair"]


def rt_case(rec, idx, tmp, T):
    """One round-trip configuration -> (findings, calls)."""
    import numpy as np
    from PIL import Image as PI
    from toasty.image import Image, ImageMode, ImageLoader
    findings = []
    src, f = rec["src"], rec["f"]
    S = S_JPG if f == "jpg" else 1
    pclass = _rt_class(rec)
    as_built = rec["pair"] == "foreign" or (rec["pair"] == "raises" and rec["smode"] != "none" and rec["s1"]["ok"])
    where = "[%s %dx%d px %s; save(format=%s, mode=%s); default_format=%s; route=%s]" % (
        src["mode"], src["w"], src["h"], src["px"][:4], rec["freq"], rec["smode"], rec["dflt"], rec["route"])

    def add(kind, msg, trip):
        sev = "D" if as_built else "V"
        findings.append((sev, "G05:roundtrip:%s:%s" % (pclass, kind), "%s (trip %d) %s" % (msg, trip, where)))

    arr0 = lift(src["px"], src["w"], src["h"], T.layout(src["mode"]), S)
    dkw = None if (rec["dflt"] == "png" and idx % 2 == 0) else rec["dflt"]
    if src["mode"] in ("RGB", "RGBA", "F32") and (idx // 2) % 2 == 1:
        x = Image.from_pil(PI.fromarray(arr0), default_format=dkw)
    else:
        x = Image.from_array(arr0, default_format=dkw)
    if x.mode.name != src["mode"]:
        findings.append(("V", "G05:detect:source", "the source array of mode %s was detected as %s %s" % (src["mode"], x.mode.name, where)))
        return findings, 1
    calls = 1
    fmt_kw = None if rec["freq"] == "default" else rec["freq"]
    mode_kw = None if rec["smode"] == "none" else ImageMode[rec["smode"]]
    ext = f if f in ("png", "jpg", "npy", "fits") else "dat"
    trips = [(1, rec["s1"], rec["x1"]), (2, rec["s2"], rec["x2"])]
    if rec["x2"] != rec["x1"]:
        trips.append((3, rec["s2"], rec["x2"]))       # theorem Idempotent: the third trip equals the second
    for trip, es, ex in trips:
        tosave = _fill_whole(x) if rec["route"] == "buffer" else x
        path = os.path.join(tmp, "rt%d_%d.%s" % (idx, trip, ext))
        use_stream = (idx // 4) % 2 == 1
        raised = None
        calls += 1
        try:
            if use_stream:
                bio = io.BytesIO()
                tosave.save(bio, format=fmt_kw, mode=mode_kw)
                with open(path, "wb") as fh:
                    fh.write(bio.getvalue())
            else:
                tosave.save(path, format=fmt_kw, mode=mode_kw)
        except Exception as e:  # noqa
            raised = e
        if not es["ok"]:
            if raised is None:
                add("written-not-refused", "save wrote a file although the pair (%s, %s) is refused in the model" % (rec["sm"], f), trip)
            else:
                if os.path.exists(path):
                    add("file-left-after-raise", "save raised %r and left a file behind" % (raised,), trip)
                want = {"format": ValueError, "mode": Exception, "backend": Exception}[es["err"]]
                if es["err"] == "format" and not isinstance(raised, want):
                    findings.append(("D", "exception-class", "save raised %r for an unknown format name, specified ValueError %s" % (raised, where)))
            break
        if raised is not None:
            add("raised", "save raised %r, specified to write a %s file" % (raised, es["file"]["fmt"]), trip)
            break
        if not os.path.exists(path):
            add("nothing-written", "save returned normally and wrote nothing", trip)
            break
        tol = JPG_TOL if trip == 1 else JPG_LATER_TOL      # later JPEG generations start from blocks that are no longer constant
        bad = inspect_file(path, es["file"], T, S, tol=tol)
        for kind, msg in bad:
            add(kind, msg, trip)
        if bad:
            break
        calls += 1
        try:
            x = ImageLoader().load_path(path)
        except Exception as e:  # noqa
            add("load-raised", "load_path of the written %s file raised %r" % (f, e), trip)
            break
        diffs = compare_image(x, ex, T, S, mask=rec["mask1"] if trip == 1 else None, tol=tol)
        for kind, msg in diffs:
            add(("idempotent-" if trip > 1 else "") + kind, "after load(save(x)): " + msg, trip)
        if diffs:
            break
    return findings, calls


def rt_worker(job):
    scratch, base, recs, mode_recs = job
    _imports()
    import tempfile
    T = Tables(mode_recs)
    tmp = tempfile.mkdtemp(prefix="g05rt-", dir=scratch)
    out, calls = [], 0
    try:
        for i, rec in enumerate(recs):
            _debug("RT", base + i, rec)
            try:
                fnd, c = rt_case(rec, base + i, tmp, T)
            except Exception as e:  # noqa
                import traceback
                fnd, c = [("M", "harness", "round-trip case %d: %s" % (base + i, traceback.format_exc()[-800:]))], 0
            out.extend(fnd)
            calls += c
            for fn in os.listdir(tmp):
                os.unlink(os.path.join(tmp, fn))
    finally:
        shutil.rmtree(tmp, ignore_errors=True)
    return out, calls


def _file_key(frec, suffix, scale):
    return json.dumps([frec, suffix, scale], sort_keys=True)


def _arg_list(crop, b2t, cp, psd=-1, always_cp=False):
    args = []
    if crop is not None:
        args.append("--crop=" + ",".join("x" if c == JUNK else str(c) for c in crop))
    if b2t:
        args.append("--black-to-transparent")
    if cp != "srgb" or always_cp:
        args += ["--colorspace-processing", cp]
    if psd != -1:
        args += ["--psd-single-layer", str(psd)]
    return args


def _make_loader(crop, b2t, cp, via_args):
    import argparse
    from toasty.image import ImageLoader
    if via_args:
        parser = argparse.ArgumentParser()
        ImageLoader.add_arguments(parser)
        return ImageLoader.create_from_args(parser.parse_args(_arg_list(crop, b2t, cp)))
    L = ImageLoader()
    if crop is not None:
        L.crop = list(crop)
    if b2t:
        L.black_to_transparent = True
    if cp != "srgb":
        L.colorspace_processing = cp
    return L


def _ld_deviation(rec):
    """The configurations whose specified outcome is a NAMED as-built deviation (a mismatch there is drift)."""
    f = rec["file"]
    opts = rec["crop"] != [] or rec["b2t"] or rec["cp"] != "srgb"
    if f["fmt"] in ("npy", "fits") and (opts or rec["entry"] != "path" or rec["suffix"] == ".NPY"):
        return True
    if f["kind"] in ("LA", "I;16", "F") and f["fmt"] != "npy" and f["fmt"] != "fits":
        return f["kind"] != "F" or rec["b2t"]
    r = rec["r"]
    if r["ok"] and (r["w"] == 0 or r["h"] == 0):
        return True
    return False


def ld_case(rec, idx, tmp, T, made):
    from PIL import Image as PI
    findings = []
    frec = rec["file"]
    S = S_JPG if frec["fmt"] == "jpg" else 1
    gz = rec["suffix"].lower().endswith(".gz")
    key = _file_key(frec, rec["suffix"], S)
    if key not in made:
        path = os.path.join(tmp, "f%d%s" % (len(made), rec["suffix"]))
        write_foreign_file(path, frec, T, S, gz=gz and frec["fmt"] == "fits")
        made[key] = path
    path = made[key]
    crop = None if rec["crop"] == [] else [c * S for c in rec["crop"]]
    dev = _ld_deviation(rec)
    where = "[%s file holding %s %dx%d (icc %s) named *%s; crop=%s black_to_transparent=%s colorspace_processing=%s; %s]" % (
        frec["fmt"], frec["kind"], frec["w"], frec["h"], frec["icc"], rec["suffix"], rec["crop"] or None, rec["b2t"], rec["cp"],
        {"path": "load_path", "stream": "load_stream", "pil": "load_pil"}[rec["entry"]])

    def add(kind, msg):
        findings.append(("D" if dev else "V", "G05:loader:%s" % kind, "%s %s" % (msg, where)))

    L = _make_loader(crop, rec["b2t"], rec["cp"], via_args=idx % 2 == 0)
    before = PI.MAX_IMAGE_PIXELS
    raised, img = None, None
    try:
        if rec["entry"] == "path":
            img = L.load_path(path)
        elif rec["entry"] == "stream":
            with open(path, "rb") as fh:
                img = L.load_stream(fh)
        elif frec["fmt"] == "tiff":
            # PIL memory-maps an uncompressed TIFF opened BY NAME read-only, and load_pil's in-place colour transform then
            # kills the interpreter (SIGSEGV in littleCMS; witnessed in a subprocess by crash_witness): opened from a file object
            with open(path, "rb") as fh:
                img = L.load_pil(PI.open(fh))
                img.asarray()
        else:
            img = L.load_pil(PI.open(path))
    except Exception as e:  # noqa
        raised = e
    if PI.MAX_IMAGE_PIXELS != before:
        findings.append(("V", "G05:loader:global-state", "PIL.Image.MAX_IMAGE_PIXELS is %r after the call, was %r %s" % (PI.MAX_IMAGE_PIXELS, before, where)))
        PI.MAX_IMAGE_PIXELS = before
    exp = rec["r"]
    if not exp["ok"]:
        if raised is None:
            add("not-refused", "the load returned a %s image, specified to raise" % img.mode.name)
        return findings
    if raised is not None:
        add("raised", "the load raised %r, specified a %s image of %d x %d" % (raised, exp["mode"], exp["w"], exp["h"]))
        return findings
    exp2 = dict(exp)
    for kind, msg in compare_image(img, exp2, T, S, mask=rec["mask"]):
        add(kind, msg)
    return findings


def ld_worker(job):
    scratch, base, recs, mode_recs = job
    _imports()
    import tempfile
    T = Tables(mode_recs)
    tmp = tempfile.mkdtemp(prefix="g05ld-", dir=scratch)
    out, made = [], {}
    try:
        for i, rec in enumerate(recs):
            _debug("LD", base + i, rec)
            try:
                out.extend(ld_case(rec, base + i, tmp, T, made))
            except Exception:  # noqa
                import traceback
                out.append(("M", "harness", "load case %d: %s" % (base + i, traceback.format_exc()[-800:])))
    finally:
        shutil.rmtree(tmp, ignore_errors=True)
    return out, len(recs)


# ---- histories
def cmd_text(c, args):
    if c["op"] == "new":
        return "L%d = ImageLoader()" % c["k"]
    if c["op"] == "args":
        a = args[c["j"] - 1]
        return "L%d = create_from_args(%s)" % (c["k"], " ".join(_arg_list(a["tok"] if a["hascrop"] else None, a["b2t"], a["cp"], a["psd"])) or "no options")
    if c["op"] == "pil":
        return "L%d.load_pil(P%d)" % (c["k"], c["j"])
    if c["op"] == "reopen":
        return "P%d = reopen" % c["j"]
    return "L%d.load_%s(F%d)" % (c["k"], c["op"], c["j"])


def pil_record_file(p):
    return {"fmt": "png", "kind": p["pm"], "w": p["w"], "h": p["h"], "px": p["px"], "icc": p["icc"], "q": "exact"}


def compare_pil(pil, exp, T):
    import numpy as np
    if pil.mode != exp["pm"]:
        return "PIL mode %s, specified %s" % (pil.mode, exp["pm"])
    arr = np.asarray(pil)
    r = compare_pixels(arr, exp["px"], exp["w"], exp["h"], T.layout(exp["pm"]), "exact", 1, exp["conv"], exp["pm"])
    return r[1] if r else None


def hist_worker(job):
    scratch, meta, states, mode_recs = job
    _imports()
    import argparse
    import tempfile
    from PIL import Image as PI
    from toasty.image import ImageLoader
    T = Tables(mode_recs)
    findings, calls = [], 0
    tmp = tempfile.mkdtemp(prefix="g05h-", dir=scratch)
    try:
        init = states[0]
        args, files = init["args"], init["files"]
        seed_paths, file_paths = [], []
        for j, p in enumerate(init["pils"]):
            sp = os.path.join(tmp, "seed%d.png" % j)
            write_foreign_file(sp, pil_record_file(p), T, 1)
            seed_paths.append(sp)
        for j, f in enumerate(files):
            fp = os.path.join(tmp, "file%d.%s" % (j, f["fmt"]))
            write_foreign_file(fp, f, T, 1)
            file_paths.append(fp)
        pils = [PI.open(sp) for sp in seed_paths]
        loaders = {}
        class_before = dict((a, getattr(ImageLoader, a)) for a in ("crop", "black_to_transparent", "colorspace_processing", "psd_single_layer"))
        maxpix = PI.MAX_IMAGE_PIXELS
        parser = argparse.ArgumentParser()
        ImageLoader.add_arguments(parser)
        txt = []
        for rec in states[1:]:
            c = rec["hist"][-1]
            txt.append(cmd_text(c, args))
            where = "[history %s: %s]" % (meta["name"], "; ".join(txt))
            deviation = rec["act"] == "PilMutatesArgument"
            raised, img = None, None
            calls += 1
            try:
                if c["op"] == "new":
                    loaders[c["k"]] = ImageLoader()
                elif c["op"] == "args":
                    a = args[c["j"] - 1]
                    loaders[c["k"]] = ImageLoader.create_from_args(parser.parse_args(
                        _arg_list(a["tok"] if a["hascrop"] else None, a["b2t"], a["cp"], a["psd"], always_cp=len(txt) % 2 == 0)))
                elif c["op"] == "pil":
                    img = loaders[c["k"]].load_pil(pils[c["j"] - 1])
                elif c["op"] == "path":
                    img = loaders[c["k"]].load_path(file_paths[c["j"] - 1])
                elif c["op"] == "stream":
                    with open(file_paths[c["j"] - 1], "rb") as fh:
                        img = loaders[c["k"]].load_stream(fh)
                elif c["op"] == "reopen":
                    pils[c["j"] - 1] = PI.open(seed_paths[c["j"] - 1])
            except Exception as e:  # noqa
                raised = e
            stop = False
            # the result of the call
            if c["op"] == "args":
                want_raise = rec["act"] == "CreateFromArgsRaises"
                if want_raise != (raised is not None):
                    findings.append(("V", "G05:history:create_from_args", "%s %s, specified to %s %s" % (
                        txt[-1], "raised %r" % (raised,) if raised is not None else "returned a loader", "raise" if want_raise else "return a loader", where)))
                    stop = True
            elif c["op"] in ("pil", "path", "stream"):
                exp = rec["res"]
                if not exp["ok"]:
                    if raised is None:
                        findings.append(("V", "G05:history:result:not-refused", "%s returned a %s image, specified to raise %s" % (txt[-1], img.mode.name, where)))
                        stop = True
                elif raised is not None:
                    findings.append(("V", "G05:history:result:raised", "%s raised %r, specified a %s image %s" % (txt[-1], raised, exp["mode"], where)))
                    stop = True
                else:
                    for kind, msg in compare_image(img, exp, T, 1):
                        # a result that differs on a step whose argument the model says was changed by an EARLIER in-place load is the deviation
                        tainted = c["op"] == "pil" and rec["before"] != init["pils"][c["j"] - 1]
                        findings.append(("D" if (deviation or tainted) else "V", "G05:history:result:%s" % kind, "%s: %s %s" % (txt[-1], msg, where)))
                        stop = True
            elif raised is not None:
                findings.append(("V", "G05:history:raised", "%s raised %r %s" % (txt[-1], raised, where)))
                stop = True
            # the caller's PIL objects
            for j, exp in enumerate(rec["pils"]):
                msg = compare_pil(pils[j], exp, T)
                if msg:
                    sev = "D" if (deviation or rec["pils"][j] != init["pils"][j]) else "V"
                    findings.append((sev, "G05:history:argument", "after %s the caller's PIL object P%d holds: %s %s" % (txt[-1], j + 1, msg, where)))
                    stop = True
            # every loader's options, the class defaults, the global
            for k, e in enumerate(rec["eff"]):
                if not e["live"]:
                    continue
                L = loaders.get(k + 1)
                got = (L.crop, L.black_to_transparent, L.colorspace_processing, L.psd_single_layer)
                want = (None if e["crop"] == [] else e["crop"], e["b2t"], e["cp"], None if e["psd"] == -1 else e["psd"])
                if (None if got[0] is None else list(got[0]), got[1], got[2], got[3]) != want:
                    findings.append(("V", "G05:history:options", "after %s loader L%d has (crop, black_to_transparent, colorspace_processing, psd_single_layer) = %r, specified %r %s"
                                     % (txt[-1], k + 1, got, want, where)))
                    stop = True
            now = dict((a, getattr(ImageLoader, a)) for a in class_before)
            if now != class_before:
                findings.append(("V", "G05:history:class-defaults", "after %s the class attributes of ImageLoader are %r, were %r %s" % (txt[-1], now, class_before, where)))
                for a, v in class_before.items():
                    setattr(ImageLoader, a, v)
                stop = True
            if PI.MAX_IMAGE_PIXELS != maxpix:
                findings.append(("V", "G05:history:global-state", "after %s PIL.Image.MAX_IMAGE_PIXELS is %r, was %r %s" % (txt[-1], PI.MAX_IMAGE_PIXELS, maxpix, where)))
                PI.MAX_IMAGE_PIXELS = maxpix
                stop = True
            if stop:
                break
    except Exception:  # noqa
        import traceback
        findings.append(("M", "harness", "history %s: %s" % (meta["name"], traceback.format_exc()[-800:])))
    finally:
        shutil.rmtree(tmp, ignore_errors=True)
    return findings, calls


CRASH_SCRIPT = """
import sys
sys.path.insert(0, %r)
sys.path.insert(0, %r)
import numpy as np
from PIL import Image as PI
from checks.g05 import make_profile
from toasty.image import ImageLoader
a = np.zeros((4, 3, 4), dtype=np.uint8)
a[..., 3] = 255
a[0, 0] = (200, 100, 50, 255)
PI.fromarray(a).save(sys.argv[1], icc_profile=make_profile())
img = ImageLoader().load_pil(PI.open(sys.argv[1]))
print(img.asarray()[0, 0].tolist())
"""


def crash_witness(ctx):
    """load_pil(PIL.Image.open(name)) of an uncompressed RGBA TIFF with an ICC profile, in a subprocess -> its exit status."""
    import subprocess
    import sys
    d = ctx.mkdtemp("crash")
    verif = os.path.dirname(os.path.dirname(os.path.abspath(__file__)))
    p = subprocess.run([sys.executable, "-c", CRASH_SCRIPT % (repo.REPO, verif), os.path.join(d, "m.tiff")],
                       stdout=subprocess.PIPE, stderr=subprocess.PIPE, timeout=120, text=True)
    return p.returncode, p.stdout.strip()


# ---- detection tables (main process: a hundred constructor calls)
def detect_cases(ctx, recs):
    import numpy as np
    from PIL import Image as PI
    from toasty.image import Image, ImageMode, ImageLoader
    import contextlib
    n = 0
    for r in recs:
        c = r["c"]
        if c["t"] == "array":
            shape = {0: (), 1: (3,), 2: (2, 3), 3: (2, 3, c["planes"]), 4: (2, 3, 3, 1)}[c["nd"]]
            arr = np.zeros(shape, dtype=np.dtype(c["dt"]))
            for what, fn, exp in (("Image.from_array", lambda: Image.from_array(arr).mode.name, r["a"]),
                                  ("ImageMode.from_array_info", lambda: ImageMode.from_array_info(shape, arr.dtype).name, r["ai"])):
                n += 1
                try:
                    got = fn()
                except ValueError:
                    got = "none"
                except Exception as e:  # noqa
                    got = "raised %r" % (e,)
                if got != exp:
                    ctx.violation("G05:detect:array", "%s of an array of shape %s dtype %s: %s, specified %s" % (what, shape, arr.dtype, got, exp), r)
        elif c["t"] == "pil":
            pil = PI.new(c["pm"], (3, 2))
            n += 2
            try:
                got = Image.from_pil(pil).mode.name
            except Exception:  # noqa
                got = "none"
            if got != r["pmode"]:
                ctx.violation("G05:detect:pil", "Image.from_pil of a PIL image of mode %s: %s, specified %s" % (c["pm"], got, r["pmode"]), r)
            try:
                with contextlib.redirect_stdout(io.StringIO()):
                    got = ImageLoader().load_pil(PI.new(c["pm"], (3, 2))).mode.name
            except Exception as e:  # noqa
                got = "raised %r" % (e,)
            if got != r["lmode"]:
                ctx.violation("G05:detect:pil", "ImageLoader().load_pil of a PIL image of mode %s: %s, specified %s" % (c["pm"], got, r["lmode"]), r)
        else:
            m = ImageMode[c["pm"]]
            n += 2
            buf = m.make_maskable_buffer(3, 5)
            bk = r["bufkind"]
            arr = buf.asarray()
            want_shape = (3, 5) + ((bk["planes"],) if bk["nd"] == 3 else ())
            if buf.mode.name != r["buf"] or tuple(arr.shape) != want_shape or arr.dtype != np.dtype(bk["dt"]):
                ctx.violation("G05:buffer:mode", "make_maskable_buffer of mode %s is a %s buffer of shape %s dtype %s; specified %s, %s, %s"
                              % (c["pm"], buf.mode.name, arr.shape, arr.dtype, r["buf"], want_shape, bk["dt"]), r)
            if buf.default_format != r["bufdflt"]:
                ctx.drift("make_maskable_buffer(%s).default_format = %r, the model has %r" % (c["pm"], buf.default_format, r["bufdflt"]))
            k = r["kind"]
            own = Image.from_array(np.zeros((2, 3) + ((k["planes"],) if k["nd"] == 3 else ()), dtype=np.dtype(k["dt"])))
            try:
                got = own.aspil().mode
            except Exception:  # noqa
                got = "none"
            if (got == "none") != (r["aspil"] == "none"):
                ctx.violation("G05:aspil:refusal", "aspil() of a %s image %s; specified %s" % (
                    c["pm"], "raised" if got == "none" else "returned a PIL image of mode " + got, "to raise" if r["aspil"] == "none" else "PIL mode " + r["aspil"]), r)
            elif got != r["aspil"]:
                ctx.drift("aspil() of a %s image has PIL mode %s, the model (PIL %s) has %s" % (c["pm"], got, PI.__version__, r["aspil"]))
        ctx.distinct(("detect", json.dumps(c, sort_keys=True)))
    ctx.count(n)
    ctx.trace_ok(len(recs))


# ------------------------------------------------------------------------------------------------
# inputs
# ------------------------------------------------------------------------------------------------
def chan(rng):
    """A colour channel value away from the odd profile's black threshold (14)."""
    return rng.choice([rng.randrange(0, 10), rng.randrange(20, 256), rng.randrange(20, 256)])


def random_image(rng, mode):
    w, h = rng.choice([(2, 2), (3, 1), (1, 4), (4, 3)])
    n = w * h

    def fcode():
        return rng.choice([NAN, NAN, PINF, NINF, 0, 0] + [rng.randrange(-4096, 4096) for _ in range(6)])
    if mode == "RGB":
        px = [[rng.choice([0, 0, chan(rng)]) for _ in range(3)] for _ in range(n)]
    elif mode == "RGBA":
        px = [[rng.choice([0, 0, chan(rng)]) for _ in range(3)] + [rng.choice([0, 255, rng.randrange(256)])] for _ in range(n)]
    elif mode in ("F32", "F64"):
        px = [[fcode()] for _ in range(n)]
    elif mode == "F16x3":
        px = [[fcode() for _ in range(3)] for _ in range(n)]
    elif mode == "U8":
        px = [[rng.choice([0, rng.randrange(256)])] for _ in range(n)]
    elif mode == "I16":
        px = [[rng.choice([0, rng.randrange(-32768, 32768)])] for _ in range(n)]
    else:
        px = [[rng.choice([0, rng.randrange(-2 ** 30, 2 ** 30)])] for _ in range(n)]
    return "Img(%s, %d, %d, %s, ClassDefaultFormat)" % (tla.lit(mode), w, h, tla.lit([tuple(p) for p in px]))


def random_file(rng, fmt, kind):
    w, h = rng.choice([(4, 3), (3, 4), (5, 2)])
    n = w * h
    if fmt == "jpg":
        cols = [(0, 0, 0), (255, 255, 255), (rng.randrange(60, 256), rng.randrange(60, 256), rng.randrange(60, 256)), (200, 30, 90)]
        px = [rng.choice(cols) for _ in range(n)]
    else:
        px = [tuple(rng.choice([0, 0, chan(rng)]) for _ in range(3)) for _ in range(n)]
    if kind == "RGBA":
        px = [p + (rng.choice([0, 255, rng.randrange(256)]),) for p in px]
    return "[fmt |-> %s, kind |-> %s, w |-> %d, h |-> %d, px |-> %s, q |-> %s, icc |-> %s]" % (
        tla.lit(fmt), tla.lit(kind), w, h, tla.lit(px), tla.lit("approx" if fmt == "jpg" else "exact"), tla.lit(rng.choice(["none", "none", "odd"])))


def C(op, k, j):
    return {"op": op, "k": k, "j": j}


CRAFTED = [
    # black_to_transparent works in place on an RGBA argument: the next loader (no option) sees the transparency
    ("b2t-leaks-through-argument", [C("args", 1, 3), C("pil", 1, 1), C("new", 2, 0), C("pil", 2, 1), C("reopen", 0, 1), C("pil", 2, 1)]),
    # the colour transform works in place: a loader with colorspace_processing = none gets converted colours
    ("colour-leaks-through-argument", [C("new", 1, 0), C("pil", 1, 2), C("args", 2, 4), C("pil", 2, 2), C("reopen", 0, 2), C("pil", 2, 2), C("pil", 1, 2)]),
    ("none-then-srgb", [C("args", 2, 4), C("pil", 2, 2), C("new", 1, 0), C("pil", 1, 2), C("pil", 2, 2), C("path", 2, 1), C("path", 1, 1)]),
    # crop copies: nothing leaks, nothing accumulates
    ("crop-isolated", [C("args", 1, 2), C("pil", 1, 1), C("pil", 1, 1), C("new", 2, 0), C("pil", 2, 1), C("path", 1, 1), C("path", 2, 1), C("path", 1, 1)]),
    # refused command lines leave the slot as it was; an npy file cannot be streamed
    ("refused-args", [C("args", 1, 8), C("new", 1, 0), C("args", 1, 9), C("pil", 1, 3), C("args", 1, 10), C("path", 1, 3), C("stream", 1, 3), C("stream", 1, 1)]),
    # a slot re-used for differently configured loaders
    ("slot-reuse", [C("args", 1, 5), C("path", 1, 2), C("args", 1, 1), C("path", 1, 2), C("new", 1, 0), C("path", 1, 2), C("args", 1, 6), C("path", 1, 1)]),
    # LA is converted (copied); with black_to_transparent its alpha survives
    ("gray-alpha", [C("args", 1, 3), C("pil", 1, 4), C("new", 2, 0), C("pil", 2, 4), C("pil", 1, 4)]),
    # black_to_transparent + colour conversion on the same object twice: the second load finds black where the profile sent a dark colour
    ("twice-is-not-once", [C("args", 1, 3), C("pil", 1, 3), C("pil", 1, 3), C("reopen", 0, 3), C("pil", 1, 3), C("new", 2, 0), C("pil", 2, 3)]),
    ("rgba-profile", [C("args", 1, 3), C("pil", 1, 3), C("args", 2, 4), C("pil", 2, 3), C("new", 2, 0), C("pil", 2, 3), C("reopen", 0, 3), C("pil", 2, 3)]),
    # a crop that fits no image: the load raises, the global is restored, the next loader is unaffected
    ("failing-load", [C("args", 1, 7), C("pil", 1, 1), C("path", 1, 2), C("stream", 1, 1), C("new", 2, 0), C("pil", 2, 1), C("path", 2, 2)]),
    ("two-configured", [C("args", 1, 2), C("args", 2, 5), C("path", 1, 1), C("path", 2, 1), C("stream", 1, 2), C("stream", 2, 2), C("pil", 2, 2), C("pil", 1, 2)]),
]


def random_script(rng, length):
    live, out = set(), []
    while len(out) < length:
        op = rng.choices(["new", "args", "pil", "path", "stream", "reopen"], [10, 25, 35, 15, 8, 7])[0]
        k = rng.choice([1, 2])
        if op in ("pil", "path", "stream") and k not in live:
            continue
        if op == "new":
            out.append(C("new", k, 0))
            live.add(k)
        elif op == "args":
            a = rng.randrange(1, N_ARGS + 1)
            out.append(C("args", k, a))
            if a not in BAD_ARGS:
                live.add(k)
        elif op == "pil":
            out.append(C("pil", k, rng.randrange(1, N_PILS + 1)))
        elif op == "reopen":
            out.append(C("reopen", 0, rng.randrange(1, N_PILS + 1)))
        else:
            out.append(C(op, k, rng.randrange(1, N_FILES + 1)))
    return out


def cmd_tla(c):
    return "Cmd(%s, %d, %d)" % (tla.lit(c["op"]), c["k"], c["j"])


def hist_key(hist):
    return tuple((c["op"], c["k"], c["j"]) for c in hist)


def cfg(spec, consts, invariants, properties=()):
    lines = ["SPECIFICATION %s" % spec, "CONSTANTS"] + [" %s" % c for c in consts]
    lines += ["INVARIANT %s" % i for i in invariants] + ["PROPERTY %s" % p for p in properties] + ["CHECK_DEADLOCK FALSE"]
    return "\n".join(lines) + "\n"


def mask_cfg():
    """cfg of ImageModesMask: Mask.tla's constants (read from the module, so that a constant added there does not break this run)."""
    import re
    with open(os.path.join(os.path.dirname(os.path.dirname(os.path.abspath(__file__))), "spec", "Mask.tla")) as f:
        text = f.read()
    m = re.search(r"^CONSTANTS?\b(.*?)^\s*$", text, re.M | re.S)
    block = "\n".join(line.split("\\*")[0] for line in m.group(1).splitlines())
    consts = re.findall(r"[A-Za-z]\w*", block)
    lines = ["SPECIFICATION AgreeSpec", "CONSTANTS"] + [" %s = %s" % (nm, "1" if nm in ("H", "W", "V") else "{}") for nm in consts] + ["CHECK_DEADLOCK FALSE"]
    return "\n".join(lines) + "\n"


def chunks(seq, n):
    k = max(1, (len(seq) + n - 1) // n)
    return [(i, seq[i:i + k]) for i in range(0, len(seq), k)]


# ------------------------------------------------------------------------------------------------
def run(ctx):
    repo.setup(ctx)
    import concurrent.futures as cf
    import multiprocessing as mp
    import time
    quick = ctx.quick
    rng = ctx.rng
    ctx.rule = ("TLC: every configuration of the round-trip space (8 modes x sizes x palettes holding black / near-black / alpha 0 / NaN / inf / 0 / "
                "negative / > 2^24 x {default, png, jpg, npy, fits, tiff} x save mode {none, RGB, RGBA} x default format x {direct, maskable buffer}), of "
                "the load space (37 file layouts incl. ICC profiles and foreign dtypes x crops incl. empty and too large x black_to_transparent x "
                "colorspace_processing x {load_path, load_stream, load_pil} x 11 suffixes), of the detection tables, and every history of two loader "
                "slots up to the bound; all contract sentences as invariants / action properties; the 'ideal' statements refuted. Replay: every emitted "
                "configuration and scripted / seeded-random / TLC-random histories on the real code. distinct = configuration or history prefix")
    n_rand_img = 1 if quick else 5
    n_scripts = 30 if quick else 300
    n_walks = 40 if quick else 400
    script_len = 7 if quick else 9
    hist_bound = 3 if quick else 4

    # ---- inputs (Python enumerates inputs only)
    modes = ["RGB", "RGBA", "F32", "F64", "F16x3", "U8", "I16", "I32"]
    rand_imgs = [random_image(rng, m) for m in modes for _ in range(n_rand_img)]
    rand_files = [random_file(rng, fmt, kind) for fmt, kind in (("png", "RGB"), ("png", "RGBA"), ("tiff", "RGBA"), ("jpg", "RGB")) for _ in range(1 if quick else 4)]
    scripts = [(name, s) for name, s in CRAFTED] + [("random-%d" % i, random_script(rng, script_len)) for i in range(n_scripts)]
    tier = "Quick" if quick else "Thorough"

    pool = cf.ProcessPoolExecutor(max_workers=6, mp_context=mp.get_context("fork"), initializer=_quiet_worker)
    t0 = time.time()
    try:
        set(f.result() for f in [pool.submit(_warm) for _ in range(6)])

        def tlc_detect():
            r = ctx.tlc("ImageDetect", cfg_text=cfg("Spec", [], D_INVARIANTS + ["Emit"])[:].replace("CONSTANTS\n", ""), workers=1, timeout=600)
            return r, r.json_lines("D")

        def tlc_mask():
            return ctx.tlc("ImageModesMask", cfg_text=mask_cfg(), workers=1, timeout=600)

        def tlc_rt():
            name = "MCG05RT"
            mod = tla.module(name, ["MCImageRoundTrip"], [("RunImages", "MCImages%s \\cup {%s}" % (tier, ",\n  ".join(rand_imgs)))])
            r = ctx.tlc(name, extra={name + ".tla": mod},
                        cfg_text=cfg("Spec", ["Images <- RunImages", "Requests <- MCRequests", "SaveModes <- MCSaveModes", "Defaults <- MCDefaults",
                                              "Routes <- MCRoutes"], RT_INVARIANTS + ["Emit"]), workers=2 if quick else 6, timeout=3600)
            return r, r.json_lines("RT")

        def tlc_ld():
            name = "MCG05LD"
            mod = tla.module(name, ["MCImageLoad"], [("RunFiles", "MCFiles%s \\cup {%s}" % (tier, ",\n  ".join(rand_files)))])
            r = ctx.tlc(name, extra={name + ".tla": mod},
                        cfg_text=cfg("Spec", ["Files <- RunFiles", "Crops <- MCCrops%s" % tier, "Entries <- MCEntries", "Suffixes <- MCSuffixes"],
                                     LD_INVARIANTS + ["Emit"]), workers=3 if quick else 6, timeout=3600)
            return r, r.json_lines("LD")

        hconsts = ["ArgSets <- MCArgSets", "PilSeeds <- MCPilSeeds", "PathFiles <- MCPathFiles"]

        def tlc_hist_all():
            return ctx.tlc("MCImageLoaderHistory", cfg_text=cfg("Spec", hconsts + ["MaxCalls = %d" % hist_bound, "Scripts = {}"], H_INVARIANTS, H_PROPERTIES),
                           workers=2 if quick else 8, timeout=7200)

        def tlc_hist_deep():
            return ctx.tlc("MCImageLoaderHistory", cfg_text=cfg("Spec", ["ArgSets <- MCArgSetsSmall", "PilSeeds <- MCPilSeedsSmall", "PathFiles <- MCPathFilesSmall",
                                                                         "MaxCalls = 5", "Scripts = {}"], H_INVARIANTS, H_PROPERTIES), workers=8, timeout=7200)

        def tlc_hist_scripts():
            name = "MCG05Scripts"
            mod = tla.module(name, ["MCImageLoaderHistory"],
                             [("RunScripts", "{" + ",\n  ".join("<<" + ", ".join(cmd_tla(c) for c in s) + ">>" for _n, s in scripts) + "}")])
            r = ctx.tlc(name, extra={name + ".tla": mod},
                        cfg_text=cfg("ScriptSpec", hconsts + ["MaxCalls = %d" % (script_len + 2), "Scripts <- RunScripts"], H_INVARIANTS + ["Emit"], H_PROPERTIES),
                        workers=2, timeout=3600)
            return r, r.json_lines("H")

        def tlc_hist_walks():
            r = ctx.tlc("MCImageLoaderHistory", cfg_text=cfg("Spec", hconsts + ["MaxCalls = %d" % script_len, "Scripts = {}"], H_INVARIANTS + ["Emit"]),
                        simulate=n_walks, depth=script_len + 1, workers=1, timeout=3600)
            return r, r.json_lines("H")

        def tlc_refute(module, spec, consts, inv):
            return ctx.tlc(module, cfg_text=cfg(spec, consts, [inv]), workers=1, timeout=3600, expect_violation=True, count=False)

        with cf.ThreadPoolExecutor(max_workers=7 if quick else 10) as tex:
            f_det = tex.submit(tlc_detect)
            f_rt = tex.submit(tlc_rt)
            f_ld = tex.submit(tlc_ld)
            f_hs = tex.submit(tlc_hist_scripts)
            f_hw = tex.submit(tlc_hist_walks)
            f_mask = tex.submit(tlc_mask)
            f_hall = tex.submit(tlc_hist_all)
            f_ref = {}
            f_deep = tex.submit(tlc_hist_deep) if not quick else None
            if not quick:
                rtc = ["Images <- MCImagesQuick", "Requests <- MCRequests", "SaveModes <- MCSaveModes", "Defaults <- MCDefaults", "Routes <- MCRoutes"]
                ldc = ["Files <- MCFilesQuick", "Crops <- MCCropsQuick", "Entries <- MCEntries", "Suffixes <- MCSuffixes"]
                for inv in RT_REFUTED:
                    f_ref[inv] = tex.submit(tlc_refute, "MCImageRoundTrip", "Spec", rtc, inv)
                for inv in LD_REFUTED:
                    f_ref[inv] = tex.submit(tlc_refute, "MCImageLoad", "Spec", ldc, inv)
                for inv in H_REFUTED:
                    f_ref[inv] = tex.submit(tlc_refute, "MCImageLoaderHistory", "Spec", hconsts + ["MaxCalls = 4", "Scripts = {}"], inv)

            r_det, det = f_det.result()
            mode_recs = [r for r in det if r["c"]["t"] == "mode"]
            if len(mode_recs) != 8:
                ctx.machinery("ImageDetect emitted %d mode records" % len(mode_recs))
            detect_cases(ctx, det)

            futs = []
            r_hs, recs_hs = f_hs.result()
            by = {}
            for r in recs_hs:
                by[hist_key(r["hist"])] = r
            jobs_h = []
            seen = set()

            def submit_hist(name, hist):
                k = hist_key(hist)
                if k in seen:
                    return
                seen.add(k)
                states = []
                for i in range(len(hist) + 1):
                    r = by.get(hist_key(hist[:i]))
                    if r is None:
                        break
                    states.append(r)
                if len(states) != len(hist) + 1:
                    ctx.machinery("history %s: the model does not enable command %d (%s)" % (name, len(states), hist[len(states) - 1]))
                jobs_h.append(({"name": name}, states))
                futs.append(("H", pool.submit(hist_worker, (ctx.scratch, {"name": name}, states, mode_recs))))
            for name, s in scripts:
                submit_hist(name, s)
            r_hw, recs_hw = f_hw.result()
            for r in recs_hw:
                by.setdefault(hist_key(r["hist"]), r)
            keys_w = set(hist_key(r["hist"]) for r in recs_hw)
            maximal = [k for k in keys_w if len(k) > 0 and not any(len(o) == len(k) + 1 and o[:len(k)] == k for o in keys_w)]
            for i, k in enumerate(sorted(maximal)):
                submit_hist("tlc-walk-%d" % i, by[k]["hist"])

            r_rt, recs_rt = f_rt.result()
            # TLC's workers print in any order: a canonical order makes the harness variants (backing, sink, how the options are set) deterministic
            recs_rt.sort(key=lambda r: json.dumps([r["src"], r["freq"], r["smode"], r["dflt"], r["route"]], sort_keys=True))
            for base, part in chunks(recs_rt, 18):
                futs.append(("RT", pool.submit(rt_worker, (ctx.scratch, base, part, mode_recs))))
            r_ld, recs_ld = f_ld.result()
            recs_ld.sort(key=lambda r: (r["file"]["fmt"], r["file"]["kind"], r["file"]["w"], r["suffix"],
                                        json.dumps([r["file"], r["crop"], r["b2t"], r["cp"], r["entry"]], sort_keys=True)))
            for base, part in chunks(recs_ld, 18):
                futs.append(("LD", pool.submit(ld_worker, (ctx.scratch, base, part, mode_recs))))
            t_emit = time.time() - t0

            results = [(tag, f.result()) for tag, f in futs]
            t_replay = time.time() - t0
            r_mask = f_mask.result()
            r_hall = f_hall.result()
            if not quick:
                r_deep = f_deep.result()
                ctx.note("tlc_histories_deep", {"bound": 5, "alphabet": "4 command lines, 2 PIL objects, 1 file", "distinct_states": r_deep.distinct})
                rc, outp = crash_witness(ctx)
                ctx.note("as_built_crash_load_pil_of_memory_mapped_tiff",
                         {"call": "ImageLoader().load_pil(PIL.Image.open('rgba-with-icc-profile.tiff'))", "subprocess_exit_status": rc, "stdout": outp,
                          "reading": "negative = killed by that signal (-11: SIGSEGV in littleCMS writing into PIL's read-only memory map); "
                                     "0 with converted colours = the in-place transform no longer hits a read-only map"})

            # ---- the statements the code does not keep must be refuted: by an emitted state ...
            refuted = {}
            for invs, recs, describe in ((RT_REFUTED, recs_rt, lambda r: "%s %dx%d, save(format=%s, mode=%s), default_format=%s, route=%s" % (
                                              r["src"]["mode"], r["src"]["w"], r["src"]["h"], r["freq"], r["smode"], r["dflt"], r["route"])),
                                         (LD_REFUTED, recs_ld, lambda r: "%s file holding %s %dx%d named *%s, crop=%s b2t=%s cp=%s via %s" % (
                                             r["file"]["fmt"], r["file"]["kind"], r["file"]["w"], r["file"]["h"], r["suffix"], r["crop"], r["b2t"], r["cp"], r["entry"])),
                                         (H_REFUTED, list(by.values()), lambda r: "; ".join(cmd_text(c, by[()]["args"]) for c in r["hist"]))):
                for inv in invs:
                    wit = [r for r in recs if r["ideal"][inv] is False]
                    if not wit:
                        ctx.machinery("no emitted state refutes %s: the model has lost the as-built deviation it is meant to expose" % inv)
                    w = min(wit, key=lambda r: (len(r.get("hist", [])), len(json.dumps(r))))
                    refuted[inv] = {"refuting_states": len(wit), "a_smallest_emitted_witness": describe(w)}
            # ... and (thorough tier) by a TLC run of its own
            for inv, f in f_ref.items():
                r = f.result()
                if r.violated != inv:
                    ctx.machinery("TLC no longer refutes %s (it reports %r)" % (inv, r.violated))
                refuted[inv]["refuted_by_tlc_run"] = True
    finally:
        pool.shutdown(wait=True, cancel_futures=True)

    # ---- verdicts
    counts = {"RT": 0, "LD": 0, "H": 0}
    drift_seen = {}
    for tag, (findings, calls) in results:
        ctx.count(calls)
        counts[tag] += calls
        for sev, key, msg in findings:
            if sev == "M":
                ctx.machinery(msg)
            elif sev == "V":
                ctx.violation(key, msg, {"case": msg[-400:]})
            else:
                drift_seen[key] = drift_seen.get(key, 0) + 1
                if drift_seen[key] <= 3:
                    ctx.drift("%s %s" % (key, msg))
    for key, n in drift_seen.items():
        if n > 3:
            ctx.drift("%s: %d further cases" % (key, n - 3))
    ctx.trace_ok(len(recs_rt) + len(recs_ld) + len(jobs_h))
    for r in recs_rt:
        ctx.distinct(("rt", r["src"]["mode"], r["src"]["w"], r["src"]["h"], json.dumps(r["src"]["px"]), r["freq"], r["smode"], r["dflt"], r["route"]))
    for r in recs_ld:
        ctx.distinct(("ld", json.dumps(r["file"], sort_keys=True), json.dumps(r["crop"]), r["b2t"], r["cp"], r["entry"], r["suffix"]))
    for _m, states in jobs_h:
        for s in states[1:]:
            ctx.distinct(("h",) + hist_key(s["hist"]))
    acts = {}
    for _m, states in jobs_h:
        for s in states[1:]:
            acts[s["act"]] = acts.get(s["act"], 0) + 1
    for need in ("New", "CreateFromArgs", "CreateFromArgsRaises", "PilClean", "PilMutatesArgument", "FileLoad", "Reopen"):
        if acts.get(need, 0) < 2:
            ctx.machinery("the histories to replay take action %s %d times" % (need, acts.get(need, 0)))
    pairs = {}
    for r in recs_rt:
        pairs[r["pair"]] = pairs.get(r["pair"], 0) + 1
    ctx.exhaustive = True
    ctx.note("tlc_round_trip", {"configurations": r_rt.distinct, "transitions": r_rt.generated, "by_pair_class": pairs, "invariants": RT_INVARIANTS})
    ctx.note("tlc_load", {"configurations": r_ld.distinct, "transitions": r_ld.generated, "invariants": LD_INVARIANTS})
    ctx.note("tlc_detect", {"cases": r_det.distinct, "invariants": D_INVARIANTS})
    ctx.note("tlc_histories", {"bound": hist_bound, "distinct_states": r_hall.distinct, "invariants": H_INVARIANTS, "action_properties": H_PROPERTIES,
                               "script_states": r_hs.distinct, "walk_states": r_hw.generated})
    ctx.note("tlc_mask_agreement", {"module": "ImageModesMask", "ok": r_mask.ok})
    ctx.note("tlc_refuted_ideals", refuted)
    ctx.note("replayed", {"round_trip_cases": len(recs_rt), "load_cases": len(recs_ld), "histories": len(jobs_h), "history_steps_by_action": acts,
                          "real_calls": counts, "detect_cases": len(det)})
    ctx.note("phase_wall_s", {"expected_emitted": round(t_emit, 1), "replay_done": round(t_replay, 1), "tlc_done": round(time.time() - t0, 1)})
    ex = [r for r in recs_rt if r["pair"] == "foreign" and r["smode"] == "none"][:1] + [r for r in recs_rt if r["pair"] == "exact" and r["route"] == "buffer"][:1]
    for r in ex:
        ctx.sample({"round_trip": {"mode": r["src"]["mode"], "px": r["src"]["px"], "freq": r["freq"], "route": r["route"], "pair": r["pair"],
                                   "file": r["s1"]["file"]["kind"], "back": r["x1"]["mode"], "back_px": r["x1"]["px"]}})
    for r in [r for r in recs_ld if r["b2t"] and r["crop"] == [1, 0, 0, 0] and r["file"]["kind"] == "RGB" and r["file"]["icc"] == "odd"][:1]:
        ctx.sample({"load": {"file": r["file"], "crop": r["crop"], "b2t": r["b2t"], "cp": r["cp"], "entry": r["entry"], "result": r["r"]}})
    m0, s0 = jobs_h[0]
    ctx.sample({"history": m0["name"], "commands": [cmd_text(c, s0[0]["args"]) for c in s0[-1]["hist"]], "actions": [s["act"] for s in s0[1:]],
                "last_result_mode": s0[-1]["res"]["mode"]})
    ctx.assume("JPEG: one abstract pixel is one 16 x 16 block, compared at block centres within +-%d counts (twice that after the ICC transform; "
               "+-%d for the second and third JPEG generation); near-black colours are not offered in JPEG files (the codec blurs them)" % (JPG_TOL, JPG_LATER_TOL))
    ctx.assume("the ICC -> sRGB transform is an uninterpreted function in the model; the expected colours are computed with littleCMS (PIL.ImageCms) on "
               "TLC's pre-transform pixels; the odd profile is built in the harness (sRGB primaries, gamma 3.0)")
    ctx.assume("not modelled: PSD / OpenEXR input (libraries absent), a FITS file decoded by PIL's own FITS reader (load_stream / load_pil / a name "
               "without a FITS suffix), WCS and DATAMIN / DATAMAX (C14, C16), pixel values of PIL's float -> byte conversions (q = unspec)")
