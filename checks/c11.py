"""C11 - plate-carree samplers return the source pixel containing each sky point.

Spec: spec/PlateCarree.tla.  Angles are integer units chosen so that every cell edge and every cell centre is an
even unit; the test angles are the odd units (never on an edge) plus the two poles.  TLC explores one state per
configuration (layout, nx, ny, resolution g, point family) and checks in every state the property's sentences
(exactly one containing cell, in range, period 2*pi - also +-far turns -, direction, where longitude 0 falls,
+90 on the top row, mirror/shift relations of the docstrings), that the closed forms and the transcription of
vec2pix (normalise, lon0/lat0, round-half-even, clip) compute that cell in exact arithmetic, and the refinement
action property.  Every state emits the expected value of an arange map for every (lon unit, lat unit).

Binding (spec -> code): for every emitted table the real sampler of that layout is built on data[r, c] = r*nx + c
(scalar map) and on an RGB map, called on the grid of those angles, and compared value by value; result shape =
request shape + colour axes; no exception.  "sky" tables are also pushed through plate_carree_galactic_sampler at
the ICRS coordinates whose Galactic image (astropy, trusted) are the table's angles.
"""
import json
import math
import os

from lib import repo, tla

SAMPLER_OF = {
    "sky": "plate_carree_sampler",
    "zeroright": "plate_carree_zeroright_sampler",
    "planet": "plate_carree_planet_sampler",
    "zeroleft": "plate_carree_planet_zeroleft_sampler",
}
LAYOUTS = ["sky", "zeroright", "planet", "zeroleft"]

CFG = """SPECIFICATION Spec
CONSTANTS
 Configs <- MCConfigs
INVARIANT UniqueInv
INVARIANT InRangeInv
INVARIANT PeriodicInv
INVARIANT DirectionInv
INVARIANT ZeroAtInv
INVARIANT TopRowInv
INVARIANT MirrorInv
INVARIANT ClosedFormInv
INVARIANT CodeShapeInv
INVARIANT Emit
PROPERTY Refines
CHECK_DEADLOCK FALSE
"""


def configs(shapes, g, mode, want_far):
    """want_far = wanted whole turns of the far-offset points (the spec's Far() reduces it where 32-bit integers demand)."""
    return [{"v": v, "nx": nx, "ny": ny, "g": g, "mode": mode, "far": want_far} for (nx, ny) in shapes for v in LAYOUTS]


def mc_module(cfgs):
    defs = [("MCConfigs", "{" + ", ".join(tla.lit(c) for c in cfgs) + "}"),
            'Emit == PrintT(<<"T", ToJson(Table(c))>>)']
    return tla.module("MCPlateCarree", ["PlateCarree", "Json"], defs)


# ------------------------------------------------------------------------------------------------
# replay of one TLC table into the real samplers
# ------------------------------------------------------------------------------------------------

def angles(rec):
    import numpy as np
    nx, ny, g = rec["nx"], rec["ny"], rec["g"]
    period = 4 * nx * g
    pole = 2 * ny * g
    ks = np.array(rec["ks"], dtype=np.int64)
    js = np.array(rec["js"], dtype=np.int64)
    lon = ks.astype(float) * (2.0 * math.pi / period)
    lat = js.astype(float) * (math.pi / (2.0 * pole))
    lat[js == pole] = math.pi / 2          # the poles exactly (never beyond +-pi/2)
    lat[js == -pole] = -math.pi / 2
    return ks, js, lon, lat


def replay_table(ctx, rec, S, gal_tools):
    """Returns the number of sampler evaluations."""
    import numpy as np
    v, nx, ny, g = rec["v"], rec["nx"], rec["ny"], rec["g"]
    ks, js, lon, lat = angles(rec)
    exp = np.array(rec["cells"], dtype=np.int64)                   # [lat index][lon index]
    LON, LAT = np.meshgrid(lon, lat)
    scalar_map = np.arange(nx * ny, dtype=np.int64).reshape(ny, nx)
    rgb_map = (3 * scalar_map[..., None] + np.arange(3)).astype(np.int32)
    case = {"layout": v, "nx": nx, "ny": ny, "g": g, "mode": rec["mode"],
            "lon_unit": "2*pi/%d" % (4 * nx * g), "lat_unit": "pi/%d" % (4 * ny * g)}
    n = 0

    def judge(name, label, make, lon_a, lat_a, want, colour):
        nonlocal n
        key = "C11:%s" % name
        n += 1
        try:
            out = np.asarray(make()(lon_a, lat_a))
        except Exception as e:  # noqa - an IndexError is "indexes outside the map"; anything else is no answer at all
            ctx.violation(key + ":raises", "%s on a %dx%d %s map raised %r for a request of shape %s"
                          % (name, ny, nx, label, e, lon_a.shape), dict(case, request_shape=list(lon_a.shape)))
            return
        if out.shape != lon_a.shape + colour:
            ctx.violation(key + ":shape", "%s on a %s map of shape %s: request shape %s gives result shape %s, expected %s"
                          % (name, label, (ny, nx) + colour, lon_a.shape, out.shape, lon_a.shape + colour),
                          dict(case, request_shape=list(lon_a.shape)))
            return
        bad = np.argwhere(out != want)
        if len(bad):
            first = bad[int(np.argmin(np.abs(lon_a[bad[:, 0], bad[:, 1]])))]       # report the mismatch nearest lon 0
            ia, ib = int(first[0]), int(first[1])
            lo, la = float(lon_a[ia, ib]), float(lat_a[ia, ib])
            e = want[tuple(first)]
            o = out[tuple(first)]
            div = 3 if colour else 1
            ctx.violation(key + ":cell",
                          "%s, %dx%d (ny x nx) %s map: at lon=%.12g lat=%.12g the containing pixel is (row %d, col %d) "
                          "but the sampler returned the value of (row %d, col %d); %d of %d points differ"
                          % (name, ny, nx, label, lo, la, (int(e) // div) // nx, (int(e) // div) % nx,
                             (int(o) // div) // nx, (int(o) // div) % nx, len(bad), want.size // (3 if colour else 1)),
                          dict(case, lon=lo, lat=la, expected_value=int(e), got_value=int(o)))

    name = SAMPLER_OF[v]
    fn = getattr(S, name)
    exp_rgb = 3 * exp[..., None] + np.arange(3)
    judge(name, "scalar", lambda: fn(scalar_map), LON, LAT, exp, ())
    judge(name, "RGB", lambda: fn(rgb_map), LON, LAT, exp_rgb, (3,))
    # other request shapes: transposed grid, a single row, a single point
    judge(name, "RGB", lambda: fn(rgb_map), LON.T.copy(), LAT.T.copy(), np.transpose(exp_rgb, (1, 0, 2)), (3,))
    judge(name, "scalar", lambda: fn(scalar_map), LON.reshape(1, -1), LAT.reshape(1, -1), exp.reshape(1, -1), ())
    judge(name, "scalar", lambda: fn(scalar_map.tolist()), LON[:1, :1], LAT[:1, :1], exp[:1, :1], ())
    if v == "sky":
        # Galactic map: the table's angles are Galactic (l, b); ask the sampler at their ICRS pre-images.
        SkyCoord, Galactic, u = gal_tools
        inner = np.abs(js) != 2 * ny * g               # at a pole the longitude is undefined
        if inner.any():
            l_a, b_a = LON[inner], LAT[inner]
            icrs = SkyCoord(l=l_a * u.rad, b=b_a * u.rad, frame=Galactic).icrs
            ra, dec = icrs.ra.rad, icrs.dec.rad
            judge("plate_carree_galactic_sampler", "scalar", lambda: S.plate_carree_galactic_sampler(scalar_map),
                  ra, dec, exp[inner], ())
            sub = slice(None, None, 3)
            judge("plate_carree_galactic_sampler", "RGB", lambda: S.plate_carree_galactic_sampler(rgb_map),
                  ra[:, sub] + 2 * math.pi, dec[:, sub], exp_rgb[inner][:, sub], (3,))
    return n


def run(ctx):
    repo.setup(ctx)
    import numpy as np  # noqa
    from toasty import samplers as S
    from astropy.coordinates import SkyCoord, Galactic
    import astropy.units as u
    gal_tools = (SkyCoord, Galactic, u)
    ctx.rule = ("configurations = (layout, nx, ny, resolution g, point family) enumerated by the harness; TLC checks the layout "
                "theorems in every configuration and emits the expected arange-map value for every (lon unit, lat unit) of the "
                "family (full: every odd unit of three periods + one period moved by +-far turns, every odd latitude unit and the "
                "poles; edge: the units adjacent to every cell edge and centre at 1/(4g) of a cell); each table is pushed through "
                "the real sampler (scalar and RGB maps, four request shapes) and, for the sky layout, the Galactic sampler. "
                "distinct = distinct (layout, nx, ny, g, family); every table is non-trivial (>= 4 points)")
    if ctx.replay_path:
        rep = json.load(open(ctx.replay_path))["replay"]
        fn = getattr(S, SAMPLER_OF[rep["layout"]])
        m = np.arange(rep["nx"] * rep["ny"]).reshape(rep["ny"], rep["nx"])
        got = fn(m)(np.array([[rep["lon"]]]), np.array([[rep["lat"]]]))
        print("replay: %s on %dx%d arange map at lon=%r lat=%r -> %r (expected %r)"
              % (SAMPLER_OF[rep["layout"]], rep["ny"], rep["nx"], rep["lon"], rep["lat"], got.tolist(), rep.get("expected_value")))
    small = [(nx, ny) for nx in range(1, 13) for ny in range(1, 13)]
    runs = []
    if ctx.quick:
        runs.append(configs(small, 1, "full", 10 ** 6))
        edge_shapes = [(nx, ny) for nx in (1, 2, 3, 4, 5, 7, 8, 12) for ny in (1, 2, 3, 5, 8)]
        runs.append(configs(edge_shapes, 25000, "edge", 100))
    else:
        big = [(16, 8), (24, 12), (25, 13), (32, 16), (45, 8), (48, 24), (64, 32), (100, 3), (3, 100), (128, 2)]
        runs.append(configs(small + big + [(256, 4), (5, 200)], 1, "full", 10 ** 6))
        runs.append(configs(small, 2, "full", 10 ** 6))
        runs.append(configs([(nx, ny) for nx in range(1, 13) for ny in (1, 2, 5, 12)], 3, "full", 10 ** 6))
        runs.append(configs(small + big, 25000, "edge", 100))
        runs.append(configs(small, 10 ** 6, "edge", 10))
    ntab = 0
    for cfgs in runs:
        r = ctx.tlc("MCPlateCarree", extra={"MCPlateCarree.tla": mc_module(cfgs)}, cfg_text=CFG, workers=8, timeout=3000)
        recs = r.json_lines("T")
        if len(recs) != len(cfgs):
            ctx.machinery("TLC emitted %d tables for %d configurations" % (len(recs), len(cfgs)))
        for rec in recs:
            n = replay_table(ctx, rec, S, gal_tools)
            ctx.count(n)
            ctx.trace_ok()
            ctx.distinct((rec["v"], rec["nx"], rec["ny"], rec["g"], rec["mode"]))
            ntab += 1
            ctx.add_note("points_compared", len(rec["ks"]) * len(rec["js"]))
        for rec in recs[:: max(1, len(recs) // 2)][:2]:
            ctx.sample({"layout": rec["v"], "nx": rec["nx"], "ny": rec["ny"], "g": rec["g"], "family": rec["mode"],
                        "lon_units": rec["ks"][:8], "lat_units": rec["js"][:4],
                        "expected_cells_first_rows": [row[:8] for row in rec["cells"][:4]]})
    ctx.exhaustive = False
    ctx.note("tables", ntab)
    ctx.assume("astropy's ICRS<->Galactic rotation is trusted (the Galactic sampler is judged relative to it)")
    ctx.assume("test angles are at least 1/(4g) of a cell away from every cell edge (g up to 10^6 in the thorough tier); "
               "points closer than that to an edge are not judged (the property allows either neighbour within rounding)")
    ctx.assume("plate_carree_ecliptic_sampler and ChunkedPlateCarreeSampler are outside the property's anchors and are not judged")
