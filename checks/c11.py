"""C11 - plate-carree samplers return the source pixel containing each sky point.

Spec: spec/PlateCarree.tla.  Angles are integer units chosen so that every cell edge and every cell centre is an
even unit.  Three point families: "full" / "edge" use the odd units (never on an edge) plus the two poles and have ONE
expected cell per point; "grid" uses the cell edges and centres themselves (the seam at the map edge, the corners and the
poles included) and has the SET of admissible cells per point (the cells sharing the edge; the property admits either).
TLC explores one state per configuration (layout, nx, ny, resolution g, family) and checks in every state the
property's sentences (exactly one containing cell, in range, period 2*pi - also +-far turns -, direction, where
longitude 0 falls, +90 on the top row, mirror/shift relations of the docstrings), that the closed forms and the
transcription of vec2pix (normalise, lon0/lat0, round-half-even, clip) compute that cell in exact arithmetic, the
refinement action property, and for the grid family the Boundary theorem (admissible set = the cells of the two odd
neighbours, two cells on an edge - columns 0 and nx-1 of the same row at the seam -, one row at a pole, periodic, and the
code's rounding picks an admissible one).  Every state emits the expected value(s) of an arange map for every
(lon unit, lat unit).

Binding (spec -> code): for every emitted table the real sampler of that layout is built on data[r, c] = r*nx + c
(scalar map), on an RGB map and on a second map with other content, called on the grid of those angles (grid family: in
three float renderings of the same angle, e.g. exactly math.pi for the seam), and compared value by value; result
shape = request shape + colour axes; no exception.  Call-history independence: a second request with the same shape, first
and last point (and every order-insensitive digest) but permuted interior points, two live samplers of different maps
called alternately with identical requests, and the same request arrays modified in place between calls must each give
TLC's value for every point.  Request presentation: the same points as Fortran-ordered arrays, transposed / strided /
reversed / sliced / broadcast views, read-only arrays, lon and lat in different layouts, 1-d / 3-d / 0-d requests and Python
floats, lon and lat being one array object or overlapping views of one array (three of these per sampler and table, in
rotation per sampler) must give TLC's value at every point in the request's own shape.  The battery's own request points are
read-only (ordinary calls get writeable copies), and every answer returned during a battery is held and compared with TLC's
table AGAIN after the battery's last call (key ...:held-answer: answers belong to the caller).  A sampler that writes into
a writeable request array without giving a wrong answer is reported as drift.  The map is the caller's array too: the same
pixel values as >f4, <f4, >f8, >i2, >u2, >i4, <i8, u1, as astropy.io.fits hands an image out, Fortran-ordered, strided,
read-only, RGB >i4 (two of these per sampler and table, in rotation; key ...:map-presentation), and with 1, 2, 4 or 5
colour planes instead of 3 (one per sampler and table, in rotation; result shape = request shape + the map's colour axes).  Edge-family tables are
also replayed with every point moved to within 1e-6 .. 1e-12 rad of its cell edge / centre / pole / seam (TLC's value for
the odd unit stands because a cell is an interval; below 1e-9 rad either neighbour), and the Galactic sampler is asked at
and within 0 .. 1e-6 rad of both Galactic poles, where the value must be one of TLC's values of the top / bottom row.  "sky" tables are also pushed through plate_carree_galactic_sampler (same battery) at the
ICRS coordinates whose Galactic image (astropy, trusted) are the table's angles.
"""
import json
import math
import os

from lib import repo, tla

SAMPLER_OF = {
    "sky": "plate_carree_sampler",
    "zeroright": "plate_carree_zeroright_sampler",
    "planet": "plate_carree_planet_sampler",
    "zeroleft": "plate_carree_planet_zeroleft_sampler",
}
LAYOUTS = ["sky", "zeroright", "planet", "zeroleft"]
# how the caller may present one and the same set of request points
REQUEST_LAYOUTS = ["lon and lat the same array object", "Fortran-ordered arrays", "transposed views", "lon Fortran-ordered, lat C-ordered", "strided views of larger arrays",
                   "views with negative strides", "1-d request", "non-contiguous column slices", "read-only arrays",
                   "lon C-ordered, lat a transposed view", "lon and lat overlapping views of one array", "3-d request", "broadcast views (zero strides)", "0-d request", "Python floats"]
LAYOUTS_PER_BATTERY = 3
# how the caller may hand over one and the same map
MAP_FORMS = [">f4", "fits", "<f4", ">f8", ">i2", "Fortran-ordered", ">u2", ">i4", "strided view", "u1", "read-only", "RGB >i4", "<i8"]
MAPS_PER_BATTERY = 2
map_counter = {}
COLOUR_LENGTHS = [2, 5, 1, 4]
colour_counter = {}
layout_counter = {}          # per sampler name: every sampler meets every presentation in turn
# the element types a caller's REQUEST arrays may have (the values are real numbers whatever their storage)
REQUEST_DTYPES = ["<f4", "<f2", ">f4", "longdouble", ">f8"]
CALLER_THREADS = 4

CFG = """SPECIFICATION Spec
CONSTANTS
 Configs <- MCConfigs
INVARIANT UniqueInv
INVARIANT InRangeInv
INVARIANT PeriodicInv
INVARIANT DirectionInv
INVARIANT ZeroAtInv
INVARIANT TopRowInv
INVARIANT MirrorInv
INVARIANT ClosedFormInv
INVARIANT CodeShapeInv
INVARIANT BoundaryInv
INVARIANT WideInv
INVARIANT Emit
PROPERTY Refines
CHECK_DEADLOCK FALSE
"""


def configs(shapes, g, mode, want_far):
    """want_far = wanted whole turns of the far-offset points (the spec's Far() reduces it where 32-bit integers demand)."""
    return [{"v": v, "nx": nx, "ny": ny, "g": g, "mode": mode, "far": want_far} for (nx, ny) in shapes for v in LAYOUTS]


def wide_configs(shapes, n_sampled, rng):
    """Maps too wide / tall to enumerate: the harness names the columns and rows (the ends, the middle, the neighbours of the
    middle and n_sampled others drawn from rng) whose centres TLC turns into test angles and expected values."""
    out = []
    for (nx, ny) in shapes:
        def pick(n):
            fixed = {0, 1, 2, n // 4, n // 2 - 1, n // 2, n // 2 + 1, (3 * n) // 4, n - 2, n - 1}
            some = {rng.randrange(n) for _ in range(min(n, n_sampled))}
            return sorted(i for i in fixed | some if 0 <= i < n)
        cols, rows = pick(nx), pick(ny)
        if len(rows) > 8 and len(cols) > 8:
            rows = rows[:: max(1, len(rows) // 8)]          # one long axis per table
        for v in LAYOUTS:
            out.append({"v": v, "nx": nx, "ny": ny, "g": 1, "mode": "wide", "far": 0, "cols": set(cols), "rows": set(rows)})
    return out


def mc_module(cfgs):
    defs = [("MCConfigs", "{" + ", ".join(tla.lit(c) for c in cfgs) + "}"),
            'Emit == PrintT(<<"T", ToJson(Table(c))>>)']
    return tla.module("MCPlateCarree", ["PlateCarree", "Json"], defs)


# ------------------------------------------------------------------------------------------------
# replay of one TLC table into the real samplers
# ------------------------------------------------------------------------------------------------

def angles(rec):
    """TLC's integer units as the floats a caller would pass.  Returns ks, js, lon, lat."""
    import numpy as np
    nx, ny, g = rec["nx"], rec["ny"], rec["g"]
    period = 4 * nx * g
    pole = 2 * ny * g
    ks = np.array(rec["ks"], dtype=np.int64)
    js = np.array(rec["js"], dtype=np.int64)
    lon = ks.astype(float) * (2.0 * math.pi / period)
    lat = js.astype(float) * (math.pi / (2.0 * pole))
    lat[js == pole] = math.pi / 2          # the poles exactly (never beyond +-pi/2)
    lat[js == -pole] = -math.pi / 2
    return ks, js, lon, lat


def grid_renderings(rec):
    """Grid family: the same edge / centre angle written the ways client code writes it.  Returns a list of (lon, lat)
    float vectors, all denoting TLC's units ks / js (a point on an edge may resolve to either neighbour, whatever the
    last bit of the float is)."""
    import numpy as np
    from fractions import Fraction
    nx, ny, g = rec["nx"], rec["ny"], rec["g"]
    period = 4 * nx * g
    pole = 2 * ny * g
    ks = [int(k) for k in rec["ks"]]
    js = [int(j) for j in rec["js"]]
    out = []
    # (a) unit * step
    _, _, lon_a, lat_a = angles(rec)
    out.append((lon_a, lat_a))
    # (b) reduced fraction of pi: k = period/2 -> exactly math.pi, 3*period/2 -> 3*math.pi, edges as c*2*pi/nx - pi ...
    lon_b = np.array([math.pi * Fraction(2 * k, period).numerator / Fraction(2 * k, period).denominator for k in ks])
    lat_b = np.array([math.pi * Fraction(j, 2 * pole).numerator / Fraction(j, 2 * pole).denominator for j in js])
    lat_b = np.clip(lat_b, -math.pi / 2, math.pi / 2)
    out.append((lon_b, lat_b))
    # (c) principal value plus whole turns: (k mod period) * 2*pi/period - pi + 2*pi*t, the way "edge c of the map" is computed
    lon_c = np.array([((k + period // 2) % period) * (2 * math.pi / period) - math.pi + 2 * math.pi * ((k + period // 2) // period) for k in ks])
    lat_c = np.array([math.pi / 2 - (pole - j) * (math.pi / (2 * pole)) for j in js])
    lat_c = np.clip(lat_c, -math.pi / 2, math.pi / 2)
    out.append((lon_c, lat_c))
    return out


_arange_cache = {}


def arange_map(nx, ny):
    """data[r, c] = r*nx + c (the last one is kept: the four layouts of one shape come one after the other)"""
    import numpy as np
    if (nx, ny) not in _arange_cache:
        _arange_cache.clear()
        m = np.arange(nx * ny, dtype=np.int64 if nx * ny < 2 ** 16 else np.uint32).reshape(ny, nx)
        m.setflags(write=False)
        _arange_cache[(nx, ny)] = m
    return _arange_cache[(nx, ny)]


def candidates(rec):
    """cand[a][b] = the admissible arange-map values (1 value off the edges; up to 4 on them, padded by repetition)"""
    import numpy as np
    if rec["mode"] == "grid":
        return np.array([[(c + c[-1:] * 4)[:4] for c in row] for row in rec["cells"]], dtype=np.int64)
    return np.array(rec["cells"], dtype=np.int64)[..., None]


def concurrent_callers(ctx, rec, S, gal_tools, rounds):
    """ONE sampler object, several callers at the same time.  A sampler is a function of its arguments: whatever it keeps between
    or during calls, every call must return TLC's value for ITS OWN points.  CALLER_THREADS threads meet at a barrier and then
    call the same sampler object, each with its own request drawn (ctx.rng) from TLC's table of this configuration; round after
    round the requests have one shape for all callers, a different shape per caller, or two shapes shared pairwise.  Every
    answer is compared with TLC's table after the threads have finished (nothing in the verdict depends on how the calls
    interleaved); a wrong answer is asked again with no other call in flight to tell the two failures apart."""
    import sys
    import threading
    import numpy as np
    v, nx, ny, g = rec["v"], rec["nx"], rec["ny"], rec["g"]
    ks, js, lon, lat = angles(rec)
    cand = candidates(rec)
    LON, LAT = np.meshgrid(lon, lat)
    big = nx * ny > 2 ** 16
    scalar_map = arange_map(nx, ny) if big else np.arange(nx * ny, dtype=np.int64).reshape(ny, nx)
    maps = [("scalar", scalar_map, (), lambda o: (o.astype(np.int64), np.ones(o.shape, dtype=bool)))]
    if not big:
        rgb_map = (3 * scalar_map[..., None] + np.arange(3)).astype(np.int32)
        maps.append(("RGB", rgb_map, (3,), lambda o: (o.astype(np.int64)[..., 0] // 3,
                                                     (o[..., 1] == o[..., 0] + 1) & (o[..., 2] == o[..., 0] + 2) & (o[..., 0] % 3 == 0))))
    case = {"layout": v, "nx": nx, "ny": ny, "g": g, "mode": rec["mode"],
            "lon_unit": "2*pi/%d" % (4 * nx * g), "lat_unit": "pi/%d" % (4 * ny * g)}
    routes = [(SAMPLER_OF[v], getattr(S, SAMPLER_OF[v]), LON.reshape(-1), LAT.reshape(-1), cand.reshape(-1, cand.shape[-1]))]
    if v == "sky":
        SkyCoord, Galactic, u = gal_tools
        inner = np.abs(js) != 2 * ny * g
        if inner.any():
            icrs = SkyCoord(l=LON[inner] * u.rad, b=LAT[inner] * u.rad, frame=Galactic).icrs
            routes.append(("plate_carree_galactic_sampler", S.plate_carree_galactic_sampler, icrs.ra.rad.reshape(-1), icrs.dec.rad.reshape(-1),
                           cand[inner].reshape(-1, cand.shape[-1])))
    T = CALLER_THREADS
    n = 0

    def wrong(ans, want, colour, decode, shape):
        """None if the answer is TLC's for every point, else (number of wrong points, index of the first one, value there)"""
        if ans[0] != "ok":
            return (int(np.prod(shape)), 0, None, "raised %r" % (ans[1],))
        out = np.asarray(ans[1])
        if out.shape != tuple(shape) + colour:
            return (int(np.prod(shape)), 0, None, "returned an array of shape %s" % (out.shape,))
        val, consistent = decode(out)
        ok = ((val[..., None] == want).any(axis=-1) & consistent).reshape(-1)
        bad = np.flatnonzero(~ok)
        if not len(bad):
            return None
        return (len(bad), int(bad[0]), int(val.reshape(-1)[bad[0]]), None)

    for name, make, lon_p, lat_p, want_p in routes:
        nprng = np.random.default_rng(ctx.rng.getrandbits(32))
        for label, m, colour, decode in maps:
            f = make(m)                                   # the one sampler object every caller uses
            plan = []
            for r in range(rounds):
                # mostly requests of 10^4 points (numpy drops the interpreter lock inside its loops: the calls really run side by
                # side), some of 10^3 (the callers alternate every few bytecodes)
                lo_, hi_ = (96, 161) if nprng.random() < 0.75 else (24, 65)
                h, w = int(nprng.integers(lo_, hi_)), int(nprng.integers(lo_, hi_))
                kind = ("the same shape for every caller", "a different shape for every caller", "the same shape for every caller",
                        "two shapes, each used by two callers")[r % 4]
                if r % 4 in (0, 2):
                    shapes = [(h, w)] * T
                elif r % 4 == 1:
                    shapes = [(h + t, w) for t in range(T)]
                else:
                    shapes = [(h, w) if t % 2 == 0 else (w + 1, h) for t in range(T)]
                idx = [nprng.integers(0, lon_p.size, size=sh) for sh in shapes]
                plan.append((kind, idx, [(lon_p[i], lat_p[i]) for i in idx]))
            answers = [[None] * rounds for _ in range(T)]
            barrier = threading.Barrier(T)

            def caller(t):
                for r in range(rounds):
                    a, b = plan[r][2][t]
                    try:
                        barrier.wait(timeout=60)
                    except threading.BrokenBarrierError:
                        pass
                    try:
                        answers[t][r] = ("ok", f(a, b))
                    except Exception as e:  # noqa - judged below
                        answers[t][r] = ("raised", e)
            old_int = sys.getswitchinterval()
            sys.setswitchinterval(1e-5)
            try:
                ths = [threading.Thread(target=caller, args=(t,)) for t in range(T)]
                for th in ths:
                    th.start()
                for th in ths:
                    th.join()
            finally:
                sys.setswitchinterval(old_int)
            n += T * rounds
            reported = False
            for r in range(rounds):
                for t in range(T):
                    kind, idx, reqs = plan[r]
                    want = want_p[idx[t]]
                    w_ = wrong(answers[t][r], want, colour, decode, idx[t].shape)
                    if w_ is None or reported:
                        continue
                    reported = True
                    a, b = reqs[t]
                    try:
                        alone = ("ok", f(a, b))
                    except Exception as e:  # noqa
                        alone = ("raised", e)
                    n += 1
                    alone_wrong = wrong(alone, want, colour, decode, idx[t].shape)
                    nbad, first, got, other = w_
                    lo, la = float(a.reshape(-1)[first]), float(b.reshape(-1)[first])
                    adm = sorted(set(int(x) for x in want.reshape(-1, want.shape[-1])[first]))
                    what = other if other else ("%d of its %d points got another pixel, e.g. lon=%.17g lat=%.17g is in %s but the value "
                                                "returned is that of (row %d, col %d)"
                                                % (nbad, idx[t].size, lo, la, " / ".join("(row %d, col %d)" % (x // nx, x % nx) for x in adm),
                                                   got // nx, got % nx))
                    ctx.violation("C11:%s:%s" % (name, "cell" if alone_wrong else "concurrent-callers"),
                                  "%s, one sampler object on a %dx%d (ny x nx) %s map called by %d threads at the same time, round %d (%s): "
                                  "caller %d asked a request of shape %s and %s; the same request asked again with no other call in flight "
                                  "was answered %s"
                                  % (name, ny, nx, label, T, r, kind, t, idx[t].shape, what, "wrongly too" if alone_wrong else "correctly"),
                                  dict(case, lon=lo, lat=la, expected_value=adm, got_value=got, threads=T, request_shape=list(idx[t].shape)))
    return n


def replay_table(ctx, rec, S, gal_tools):
    """Returns the number of sampler evaluations."""
    import numpy as np
    v, nx, ny, g = rec["v"], rec["nx"], rec["ny"], rec["g"]
    grid = rec["mode"] == "grid"
    ks, js, lon, lat = angles(rec)
    cand = candidates(rec)
    LON, LAT = np.meshgrid(lon, lat)
    wide = rec["mode"] == "wide"
    if wide:
        scalar_map = arange_map(nx, ny)                                  # up to 2^22 pixels: made once per shape, read-only
    else:
        scalar_map = np.arange(nx * ny, dtype=np.int64).reshape(ny, nx)
        other_map = (nx * ny - 1) - scalar_map                           # a second map: same shape, different content
        rgb_map = (3 * scalar_map[..., None] + np.arange(3)).astype(np.int32)
    case = {"layout": v, "nx": nx, "ny": ny, "g": g, "mode": rec["mode"],
            "lon_unit": "2*pi/%d" % (4 * nx * g), "lat_unit": "pi/%d" % (4 * ny * g)}
    n = 0

    held = []

    def recheck_held():
        """every answer handed out during the battery still is what it was: the arrays a sampler returned belong to the caller"""
        for name, label, raw, want, decode, before, hist in held:
            val, consistent = decode(np.asarray(raw))
            ok = ((val[..., None] == want).any(axis=-1) & consistent).reshape(-1)
            bad = np.flatnonzero(~ok)
            if len(bad):
                first = int(bad[0])
                adm = sorted(set(int(x) for x in want.reshape(ok.size, -1)[first]))
                o = int(np.asarray(val).reshape(-1)[first])
                ctx.violation("C11:%s:held-answer" % name,
                              "%s, %dx%d (ny x nx) %s map: an answer that was right when it was returned has changed by the end of the battery "
                              "of calls: at lon=%.17g lat=%.17g it held the value of %s and now holds that of (row %d, col %d); %d of %d points "
                              "changed (request shape %s)%s"
                              % (name, ny, nx, label, float(before[0].reshape(-1)[first]), float(before[1].reshape(-1)[first]),
                                 ", ".join("(row %d, col %d)" % (a // nx, a % nx) for a in adm), o // nx, o % nx, len(bad), ok.size,
                                 before[0].shape, hist), dict(case, request_shape=list(before[0].shape)))
        del held[:]

    def judge_out(name, label, call, lon_a, lat_a, want, colour, decode, what="cell", hist=""):
        """call() -> sampler output for the request (lon_a, lat_a); want[..., i] = admissible arange-map values;
        decode(out) -> arange-map value per point (and False where the colour planes are inconsistent)."""
        nonlocal n
        key = "C11:%s" % name
        n += 1
        before = (np.array(lon_a, dtype=float, copy=True), np.array(lat_a, dtype=float, copy=True))
        try:
            raw = call()
            out = np.asarray(raw)
        except Exception as e:  # noqa - an IndexError is "indexes outside the map"; anything else is no answer at all
            ctx.violation(key + ":raises", "%s on a %dx%d %s map raised %r for a request of shape %s%s"
                          % (name, ny, nx, label, e, np.shape(lon_a), hist), dict(case, request_shape=list(np.shape(lon_a))))
            return False
        req_shape = np.shape(lon_a)
        if out.shape != req_shape + colour:
            ctx.violation(key + ":shape", "%s on a %s map of shape %s: request shape %s gives result shape %s, expected %s%s"
                          % (name, label, (ny, nx) + colour, req_shape, out.shape, req_shape + colour, hist),
                          dict(case, request_shape=list(req_shape)))
            return False
        # the request arrays are the caller's.  A sampler that writes into them has not broken a sentence of the property (the
        # values denote the same sky points modulo 2*pi as long as the answers are right), so this alone is drift.
        if not (np.array_equal(before[0], np.asarray(lon_a, dtype=float)) and np.array_equal(before[1], np.asarray(lat_a, dtype=float))):
            ctx.drift("%s modified the caller's request arrays (%dx%d %s map, request shape %s)%s" % (name, ny, nx, label, req_shape, hist))
        val, consistent = decode(out)
        ok = ((val[..., None] == want).any(axis=-1) & consistent).reshape(-1)
        bad = np.flatnonzero(~ok)
        if not len(bad) and isinstance(raw, np.ndarray):
            held.append((name, label, raw, want, decode, before, hist))       # the answer is the caller's too: looked at again later
        if len(bad):
            lon_f, lat_f = before[0].reshape(-1), before[1].reshape(-1)   # logical (C) order, as passed
            first = int(bad[int(np.argmin(np.abs(lon_f[bad])))])                  # report the mismatch nearest lon 0
            lo, la = float(lon_f[first]), float(lat_f[first])
            adm = sorted(set(int(x) for x in want.reshape(ok.size, -1)[first]))
            o = int(np.asarray(val).reshape(-1)[first])
            ctx.violation(key + ":" + what,
                          "%s, %dx%d (ny x nx) %s map: at lon=%.17g lat=%.17g the %s %s but the sampler returned the value of "
                          "(row %d, col %d); %d of %d points differ%s"
                          % (name, ny, nx, label, lo, la,
                             "containing pixel is" if len(adm) == 1 else "point is on a cell edge and the adjacent pixels are",
                             ", ".join("(row %d, col %d)" % (a // nx, a % nx) for a in adm), o // nx, o % nx, len(bad), ok.size, hist),
                          dict(case, lon=lo, lat=la, expected_value=adm, got_value=o))
            return False
        return True

    def dec_scalar(out):
        return out.astype(np.int64), np.ones(out.shape, dtype=bool)

    def dec_other(out):
        return (nx * ny - 1) - out.astype(np.int64), np.ones(out.shape, dtype=bool)

    def dec_rgb(out):
        o = out.astype(np.int64)
        return o[..., 0] // 3, (o[..., 1] == o[..., 0] + 1) & (o[..., 2] == o[..., 0] + 2) & (o[..., 0] % 3 == 0)

    def battery(name, make, LONr, LATr, want):
        """one sampler factory, one request grid: maps, request shapes, then the call-history sequence"""
        f_scalar = make(scalar_map)
        flat = (1, LONr.size)
        # the battery's own copy of the request points is read-only: a sampler that scribbles on a request can spoil only the
        # call it was given, never the points of the later calls.  Ordinary calls get fresh writeable arrays.
        LONr, LATr = np.array(LONr, dtype=float), np.array(LATr, dtype=float)
        LONr.setflags(write=False)
        LATr.setflags(write=False)
        a1, b1, a2, b2 = LONr.copy(), LATr.copy(), LONr.copy(), LATr.copy()
        base_ok = all([
            judge_out(name, "scalar", lambda: f_scalar(a1, b1), a1, b1, want, (), dec_scalar),
            judge_out(name, "RGB", lambda: make(rgb_map)(a2, b2), a2, b2, want, (3,), dec_rgb),
            # other request shapes: transposed grid, a single row, a single point
            judge_out(name, "RGB", lambda: make(rgb_map)(LONr.T.copy(), LATr.T.copy()), LONr.T.copy(), LATr.T.copy(),
                      np.transpose(want, (1, 0, 2)), (3,), dec_rgb),
            judge_out(name, "scalar", lambda: f_scalar(LONr.reshape(flat), LATr.reshape(flat)), LONr.reshape(flat), LATr.reshape(flat),
                      want.reshape(flat + want.shape[2:]), (), dec_scalar),
            judge_out(name, "scalar", lambda: make(scalar_map.tolist())(LONr[:1, :1], LATr[:1, :1]), LONr[:1, :1], LATr[:1, :1],
                      want[:1, :1], (), dec_scalar)])
        if not base_ok:
            del held[:]
            return          # already wrong without any history: reported above, nothing more to learn from sequences
        # ---- the memory layout / dimensionality of the request is the caller's business: the same points presented as
        # Fortran-ordered arrays, views (transposed, strided, reversed, sliced, broadcast), read-only arrays, lon and lat in
        # different layouts, 0-d / 1-d / 3-d requests must give TLC's value at every point, in the request's own (logical) shape.
        # A few of the layouts per battery, in rotation, so that every sampler meets every layout many times per run.
        nj, nk = LONr.shape
        for _ in range(LAYOUTS_PER_BATTERY):
            which = layout_counter.get(name, 0) % len(REQUEST_LAYOUTS)
            layout_counter[name] = layout_counter.get(name, 0) + 1
            lay = REQUEST_LAYOUTS[which]
            lon_v = lat_v = want_v = None
            if lay in ("lon and lat the same array object", "lon and lat overlapping views of one array"):
                # angles that are both a longitude and a latitude of TLC's table (same float up to the last bits)
                lon1, lat1 = LONr[0], LATr[:, 0]
                if (LONr == lon1).all() and (LATr == lat1[:, None]).all():
                    d = np.abs(lon1[None, :] - lat1[:, None])
                    aa, bb = np.nonzero(d < 1e-12)
                    keep = np.abs(lat1[aa]) < math.pi / 2 - 1e-9
                    aa, bb = aa[keep], bb[keep]
                    if len(aa) >= 2 and lay == "lon and lat the same array object":
                        both = np.array(lat1[aa]).reshape(1, -1)                # one array, passed as lon AND as lat
                        lon_v = lat_v = both
                        want_v = want[aa, bb].reshape((1, len(aa)) + want.shape[2:])
                    elif len(aa) >= 3:
                        chain = np.array(lat1[aa])                             # lon = chain[:-1], lat = chain[1:], one buffer
                        lon_v, lat_v = chain[:-1].reshape(1, -1), chain[1:].reshape(1, -1)
                        want_v = want[aa[1:], bb[:-1]].reshape((1, len(aa) - 1) + want.shape[2:])
            elif lay == "Fortran-ordered arrays":
                lon_v, lat_v, want_v = np.asfortranarray(LONr), np.asfortranarray(LATr), want
            elif lay == "lon Fortran-ordered, lat C-ordered":
                lon_v, lat_v, want_v = np.asfortranarray(LONr), np.ascontiguousarray(LATr), want
            elif lay == "lon C-ordered, lat a transposed view":
                lon_v, lat_v, want_v = np.ascontiguousarray(LONr), np.ascontiguousarray(LATr.T).T, want
            elif lay == "transposed views":
                lon_v, lat_v, want_v = LONr.T, LATr.T, np.transpose(want, (1, 0, 2))
            elif lay == "strided views of larger arrays":
                big_lon, big_lat = np.full((2 * nj, 3 * nk), 1e3), np.full((2 * nj, 3 * nk), 0.1)
                big_lon[::2, 1::3] = LONr
                big_lat[::2, 1::3] = LATr
                lon_v, lat_v, want_v = big_lon[::2, 1::3], big_lat[::2, 1::3], want
            elif lay == "views with negative strides":
                lon_v, lat_v, want_v = LONr[::-1, ::-1], LATr[::-1, ::-1], want[::-1, ::-1]
            elif lay == "non-contiguous column slices":
                wide_lon, wide_lat = np.full((nj, nk + 4), -1e3), np.full((nj, nk + 4), -0.1)
                wide_lon[:, 2:-2] = LONr
                wide_lat[:, 2:-2] = LATr
                lon_v, lat_v, want_v = wide_lon[:, 2:-2], wide_lat[:, 2:-2], want
            elif lay == "read-only arrays":
                lon_v, lat_v, want_v = LONr.copy(), LATr.copy(), want
                lon_v.setflags(write=False)
                lat_v.setflags(write=False)
            elif lay == "broadcast views (zero strides)":
                if (LONr == LONr[:1]).all() and (LATr == LATr[:, :1]).all():
                    lon_v, lat_v, want_v = np.broadcast_to(LONr[0], (nj, nk)), np.broadcast_to(LATr[:, :1], (nj, nk)), want
            elif lay == "1-d request":
                lon_v, lat_v, want_v = LONr.reshape(-1), LATr.reshape(-1), want.reshape((-1,) + want.shape[2:])
            elif lay == "3-d request":
                lon_v, lat_v, want_v = LONr.reshape(nj, 1, nk), LATr.reshape(nj, 1, nk), want.reshape((nj, 1, nk) + want.shape[2:])
            elif lay == "0-d request":
                a, b = nj // 2, (2 * nk) // 3
                lon_v, lat_v, want_v = np.array(LONr[a, b]), np.array(LATr[a, b]), want[a, b]
            elif lay == "Python floats":
                a, b = nj - 1, nk // 3
                lon_v, lat_v, want_v = float(LONr[a, b]), float(LATr[a, b]), want[a, b]
            if lon_v is None:
                continue
            if which % 2:
                judge_out(name, "RGB", lambda: make(rgb_map)(lon_v, lat_v), lon_v, lat_v, want_v, (3,), dec_rgb, "request-layout",
                          " [request given as %s]" % lay)
            else:
                judge_out(name, "scalar", lambda: f_scalar(lon_v, lat_v), lon_v, lat_v, want_v, (), dec_scalar, "request-layout",
                          " [request given as %s]" % lay)
        # ---- every point's answer is independent of the call history.  Request B has the shape, the first and the last
        # element (hence every order-insensitive digest too) of request A but its interior points are permuted; both are
        # asked of two live sampler objects built from different maps, alternately, and once through the same array
        # objects mutated in place.  Expected values: TLC's table, permuted the same way.
        if LONr.size >= 4:
            perm = np.arange(LONr.size)
            inner = perm[1:-1].copy()
            ctx.rng.shuffle(inner)
            if (inner == perm[1:-1]).all():
                inner = inner[::-1].copy()
            perm[1:-1] = inner
            shp = LONr.shape
            LONb, LATb = LONr.ravel()[perm].reshape(shp), LATr.ravel()[perm].reshape(shp)
            wantb = want.reshape((-1,) + want.shape[2:])[perm].reshape(want.shape)
            f_other = make(other_map)
            h = " [call history: %s]"
            judge_out(name, "scalar", lambda: f_scalar(LONb, LATb), LONb, LATb, wantb, (), dec_scalar, "history",
                      h % "same sampler, previous request had the same shape, first and last point but other interior points")
            judge_out(name, "second", lambda: f_other(LONb, LATb), LONb, LATb, wantb, (), dec_other, "history",
                      h % "identical request just answered by a sampler built from another map")
            judge_out(name, "scalar", lambda: f_scalar(LONr, LATr), LONr, LATr, want, (), dec_scalar, "history",
                      h % "A, B, then A again; another map's sampler called in between")
            judge_out(name, "second", lambda: f_other(LONr, LATr), LONr, LATr, want, (), dec_other, "history",
                      h % "two samplers called alternately")
            buf_lon, buf_lat = LONr.copy(), LATr.copy()
            try:
                f_scalar(buf_lon, buf_lat)
            except Exception:  # noqa - judged by the calls above
                pass
            buf_lon[...] = LONb
            buf_lat[...] = LATb
            judge_out(name, "scalar", lambda: f_scalar(buf_lon, buf_lat), buf_lon, buf_lat, wantb, (), dec_scalar, "history",
                      h % "the same request arrays, modified in place since the previous call")
        # ---- the MAP is the caller's array too: the same pixel values in the dtypes and byte orders that FITS readers and
        # client code hand over, in non-contiguous and read-only arrays.  The sampled values must be TLC's (as numbers).
        for _ in range(MAPS_PER_BATTERY):
            which = map_counter.get(name, 0) % len(MAP_FORMS)
            map_counter[name] = map_counter.get(name, 0) + 1
            form = MAP_FORMS[which]
            m = None
            if form == "fits":
                from astropy.io import fits
                import io as _io
                bio = _io.BytesIO()
                fits.PrimaryHDU(scalar_map.astype(np.float32)).writeto(bio)
                bio.seek(0)
                with fits.open(bio, memmap=False) as hdul:
                    m = hdul[0].data                      # big-endian float32, as astropy.io.fits hands it out
            elif form == "u1":
                if nx * ny <= 255:
                    m = scalar_map.astype("u1")
            elif form == "Fortran-ordered":
                m = np.asfortranarray(scalar_map.astype(np.float64))
            elif form == "strided view":
                bigm = np.full((2 * ny + 1, 3 * nx), -7, dtype=np.int32)
                bigm[1::2, 1::3] = scalar_map
                m = bigm[1::2, 1::3]
            elif form == "read-only":
                m = scalar_map.astype(np.float32)
                m.setflags(write=False)
            elif form == "RGB >i4":
                m = rgb_map.astype(">i4")
            else:
                m = scalar_map.astype(form)
            if m is None:
                continue
            keep = np.array(m, copy=True)
            a, b = LONr.copy(), LATr.copy()
            if m.ndim == 3:
                judge_out(name, "RGB", lambda: make(m)(a, b), a, b, want, (3,), dec_rgb, "map-presentation", " [map given as %s]" % form)
            else:
                judge_out(name, "scalar", lambda: make(m)(a, b), a, b, want, (), dec_scalar, "map-presentation",
                          " [map given as %s, dtype %s]" % (form, m.dtype.str))
            if not np.array_equal(np.asarray(m), keep):
                ctx.drift("%s modified the caller's map array (%dx%d, given as %s)" % (name, ny, nx, form))
        # ---- the map's colour axes are whatever the caller's array has after (rows, columns): 1, 2, 4 or 5 planes as well as 3,
        # on maps of every shape (very few rows included).  Result shape = request shape + (planes,), every plane from TLC's pixel.
        c = COLOUR_LENGTHS[colour_counter.get(name, 0) % len(COLOUR_LENGTHS)]
        colour_counter[name] = colour_counter.get(name, 0) + 1
        planes_map = (c * scalar_map[..., None] + np.arange(c)).astype(np.int32)

        def dec_planes(out):
            o = out.astype(np.int64)
            good = o[..., 0] % c == 0
            for i in range(1, c):
                good = good & (o[..., i] == o[..., 0] + i)
            return o[..., 0] // c, good
        a, b = LONr.copy(), LATr.copy()
        judge_out(name, "%d-plane" % c, lambda: make(planes_map)(a, b), a, b, want, (c,), dec_planes, "map-presentation",
                  " [map of shape %s: %d rows, %d columns, %d colour planes]" % (planes_map.shape, ny, nx, c))
        recheck_held()

    def near_lattice(name, make, to_request, skip_pole_rows, eps_list):
        """edge family: the table's odd units sit 1/(4g) of a cell from an even unit (a cell edge, a cell centre, a pole, the
        seam).  Move every point towards its even unit until it is only eps away from it: between the two TLC units the cell
        cannot change (a cell is an interval), so TLC's value for the odd unit stands; below 1e-9 rad either neighbour of an
        edge is admitted.  eps runs down to 1e-12 rad: poles and seam are approached from inside, both hemispheres."""
        half = 2 * g
        period, pole = 4 * nx * g, 2 * ny * g
        ulon, ulat = 2.0 * math.pi / period, math.pi / (2.0 * pole)
        kk = [int(k) for k in ks]
        jj = [int(j) for j in js]
        bsel = [b for b, k in enumerate(kk) if abs(k) * ulon <= 3 * math.pi + 1e-9]
        asel = [a for a, j in enumerate(jj) if abs(j) != pole]
        if skip_pole_rows:
            asel = [a for a in asel if abs(jj[a]) + 1 != pole]
        if not bsel or not asel:
            return
        kpos = {k: b for b, k in enumerate(kk)}
        jpos = {j: a for a, j in enumerate(jj)}
        dk = [1 if (kk[b] - 1) % half == 0 else -1 for b in bsel]
        dj = [1 if (jj[a] - 1) % half == 0 else -1 for a in asel]
        b2 = [kpos.get(kk[b] - 2 * d, b) for b, d in zip(bsel, dk)]
        a2 = [jpos.get(jj[a] - 2 * d, a) for a, d in zip(asel, dj)]
        strict = cand[np.ix_(asel, bsel)]
        relaxed = np.concatenate([cand[np.ix_(asel, bsel)], cand[np.ix_(a2, bsel)], cand[np.ix_(asel, b2)], cand[np.ix_(a2, b2)]], axis=-1)
        for eps in eps_list:
            if eps >= 0.5 * min(ulon, ulat):
                continue
            lon_n = np.array([(kk[b] - d) * ulon + d * eps for b, d in zip(bsel, dk)])
            lat_n = np.clip(np.array([(jj[a] - d) * ulat + d * eps for a, d in zip(asel, dj)]), -math.pi / 2, math.pi / 2)
            LONn, LATn = np.meshgrid(lon_n, lat_n)
            ra, de = to_request(LONn, LATn)
            judge_out(name, "scalar", lambda: make(scalar_map)(ra, de), ra, de, strict if eps >= 1e-9 else relaxed, (), dec_scalar,
                      "cell", " [points %g rad from a cell edge / cell centre / pole / seam]" % eps)

    def request_dtypes(name, make, galactic):
        """wide family: TLC's table has, for every sampled column (row), its centre and the two units a quarter of a cell on
        either side, all three with one value: every real number in that window lies in that cell, >= 1/4 cell from its edges.
        The request arrays are given in other element types (float32, float16, big-endian, long double): each element IS a real
        number, and those that fall in the window of the unit they render must get the window's value.  Elements that leave
        their window (float16 on all but narrow maps, whole turns in float32 on the widest) are not asked."""
        period, pole = 4 * nx * g, 2 * ny * g
        ulon, ulat = 2.0 * math.pi / period, math.pi / (2.0 * pole)
        kpos = {int(k): b for b, k in enumerate(ks)}
        jpos = {int(j): a for a, j in enumerate(js)}

        def window_centres(pos):
            out = []
            for k in sorted(pos):
                c = [m for m in (k - 1, k, k + 1) if m in pos and (m - 1) in pos and (m + 1) in pos]
                if len(c) != 1:
                    return None
                out.append(c[0])
            return out
        kc, jc = window_centres(kpos), window_centres(jpos)
        if kc is None or jc is None or not (cand == cand[np.ix_([jpos[j] for j in jc], [kpos[k] for k in kc])]).all():
            ctx.machinery("C11 wide table %s %dx%d: the units do not come as (centre - 1, centre, centre + 1) with one value" % (v, ny, nx))
            return
        lon_c, lat_c = np.array(kc, dtype=float) * ulon, np.array(jc, dtype=float) * ulat       # centre of each point's window
        f = make(scalar_map)
        if not galactic:
            a0, b0 = LON.copy(), LAT.copy()
            if not judge_out(name, "scalar", lambda: f(a0, b0), a0, b0, cand, (), dec_scalar):
                return
            for dt in REQUEST_DTYPES:
                lon_d, lat_d = lon.astype(dt), lat.astype(dt)
                keep_b = np.abs(lon_d.astype(float) - lon_c) <= 0.999 * ulon
                keep_a = np.abs(lat_d.astype(float) - lat_c) <= 0.999 * ulat
                if keep_b.sum() < 2 or keep_a.sum() < 1:
                    ctx.add_note("request_dtype_tables_without_points", 1)
                    continue
                LONd, LATd = np.meshgrid(lon_d[keep_b], lat_d[keep_a])
                ctx.add_note("request_dtype_points", int(LONd.size))
                judge_out(name, "scalar", lambda: f(LONd, LATd), LONd, LATd, cand[np.ix_(keep_a, keep_b)], (), dec_scalar, "request-dtype",
                          " [request arrays of dtype %s; every element is a number within 1/4 cell of the centre of its cell; the same "
                          "numbers in float64 arrays are answered correctly]" % np.dtype(dt).name)
            return
        SkyCoord, Galactic, u = gal_tools
        icrs = SkyCoord(l=LON * u.rad, b=LAT * u.rad, frame=Galactic).icrs
        ra, de = icrs.ra.rad, icrs.dec.rad
        a0, b0 = ra.copy(), de.copy()
        if not judge_out(name, "scalar", lambda: f(a0, b0), a0, b0, cand, (), dec_scalar):
            return
        LONc, LATc = np.meshgrid(lon_c, lat_c)
        for dt in (REQUEST_DTYPES[:2] if ctx.quick else REQUEST_DTYPES):
            ra_d, de_d = ra.astype(dt), de.astype(dt)
            back = SkyCoord(ra=ra_d.astype(float) * u.rad, dec=de_d.astype(float) * u.rad, frame="icrs").galactic    # trusted, float64
            dl = (back.l.rad - LONc + math.pi) % (2 * math.pi) - math.pi
            keep = (np.abs(dl) <= 0.999 * ulon - 1e-11) & (np.abs(back.b.rad - LATc) <= 0.999 * ulat - 1e-11)
            if keep.sum() < 2:
                ctx.add_note("request_dtype_tables_without_points", 1)
                continue
            ra_k, de_k = ra_d[keep], de_d[keep]
            ctx.add_note("request_dtype_points", int(ra_k.size))
            judge_out(name, "scalar", lambda: f(ra_k, de_k), ra_k, de_k, cand[keep], (), dec_scalar, "request-dtype",
                      " [ICRS request arrays of dtype %s; the Galactic image of every element is within 1/4 cell of the centre of its "
                      "cell; the same numbers in float64 arrays are answered correctly]" % np.dtype(dt).name)

    name = SAMPLER_OF[v]
    if wide:
        request_dtypes(name, getattr(S, name), False)
        if v == "sky":
            request_dtypes("plate_carree_galactic_sampler", S.plate_carree_galactic_sampler, True)
        recheck_held()
        return n
    requests = grid_renderings(rec) if grid else [(lon, lat)]
    for lon_r, lat_r in requests:
        LONr, LATr = np.meshgrid(lon_r, lat_r)
        battery(name, getattr(S, name), LONr, LATr, cand)
    if rec["mode"] == "edge":
        near_lattice(name, getattr(S, name), lambda a, b: (a, b), False, [1e-6, 1e-8, 1e-10, 1e-12])
    if v == "sky":
        # Galactic map: the table's angles are Galactic (l, b); ask the sampler at their ICRS pre-images.
        SkyCoord, Galactic, u = gal_tools

        def to_icrs(l_a, b_a):
            c = SkyCoord(l=l_a * u.rad, b=b_a * u.rad, frame=Galactic).icrs
            return c.ra.rad, c.dec.rad
        if rec["mode"] == "edge":
            near_lattice("plate_carree_galactic_sampler", S.plate_carree_galactic_sampler, to_icrs, True, [1e-6, 1e-8])
        # the poles of the Galactic frame, both hemispheres, approached down to 1e-12 rad and hit exactly: the Galactic longitude
        # is ill-conditioned there, the ROW is not - the value must be one of TLC's values for the top / bottom row
        pole_rows = {1: int(np.argmax(js)), -1: int(np.argmin(js))}
        eps_p = np.array([0.0, 1e-12, 1e-11, 1e-10, 1e-9, 3e-9, 1e-8, 3e-8, 1e-7, 1e-6])
        l_p = (np.arange(96) + 0.37) * (2 * math.pi / 96)
        Lp, Ep = np.meshgrid(l_p, eps_p)
        for sgn in (1, -1):
            rowvals = sorted(set(int(x) for x in cand[pole_rows[sgn]].reshape(-1)))
            wantp = np.broadcast_to(np.array(rowvals, dtype=np.int64), Lp.shape + (len(rowvals),))
            ra, de = to_icrs(Lp, sgn * (math.pi / 2 - Ep))
            judge_out("plate_carree_galactic_sampler", "scalar", lambda: S.plate_carree_galactic_sampler(scalar_map)(ra, de), ra, de, wantp, (),
                      dec_scalar, "cell", " [points 0 .. 1e-6 rad from the %s Galactic pole: any pixel of the %s row]"
                      % ("north" if sgn > 0 else "south", "top" if sgn > 0 else "bottom"))
        inner_rows = np.abs(js) != 2 * ny * g               # at a pole the longitude is undefined
        if inner_rows.any():
            l_a, b_a = LON[inner_rows], LAT[inner_rows]
            icrs = SkyCoord(l=l_a * u.rad, b=b_a * u.rad, frame=Galactic).icrs
            ra, dec = icrs.ra.rad, icrs.dec.rad
            battery("plate_carree_galactic_sampler", S.plate_carree_galactic_sampler, ra, dec, cand[inner_rows])
            sub = slice(None, None, 3)
            judge_out("plate_carree_galactic_sampler", "RGB", lambda: S.plate_carree_galactic_sampler(rgb_map)(ra[:, sub] + 2 * math.pi, dec[:, sub]),
                      ra[:, sub] + 2 * math.pi, dec[:, sub], cand[inner_rows][:, sub], (3,), dec_rgb)
    return n


def run(ctx):
    repo.setup(ctx)
    layout_counter.clear()
    map_counter.clear()
    colour_counter.clear()
    import numpy as np  # noqa
    from toasty import samplers as S
    from astropy.coordinates import SkyCoord, Galactic
    import astropy.units as u
    gal_tools = (SkyCoord, Galactic, u)
    ctx.rule = ("configurations = (layout, nx, ny, resolution g, point family) enumerated by the harness; TLC checks the layout "
                "theorems in every configuration and emits the expected arange-map value for every (lon unit, lat unit) of the "
                "family (full: every odd unit of three periods + one period moved by +-far turns, every odd latitude unit and the "
                "poles; edge: the units adjacent to every cell edge and centre at 1/(4g) of a cell; grid: the cell edges, corners and centres "
                "themselves with the set of admissible cells, in three float renderings); each table is pushed through "
                "the real sampler (scalar, RGB and a second map, four request shapes, then a call-history sequence with colliding "
                "requests: permuted interior, alternating samplers, request arrays modified in place; and the same points in other memory layouts / "
                "dimensionalities: Fortran order, views, read-only, mixed layouts, 0-d/1-d/3-d) and, for the sky layout, the Galactic sampler. "
                "distinct = distinct (layout, nx, ny, g, family); every table is non-trivial (>= 4 points)")
    if ctx.replay_path:
        rep = json.load(open(ctx.replay_path))["replay"]
        fn = getattr(S, SAMPLER_OF[rep["layout"]])
        m = np.arange(rep["nx"] * rep["ny"]).reshape(rep["ny"], rep["nx"])
        got = fn(m)(np.array([[rep["lon"]]]), np.array([[rep["lat"]]]))
        print("replay: %s on %dx%d arange map at lon=%r lat=%r -> %r (expected %r)"
              % (SAMPLER_OF[rep["layout"]], rep["ny"], rep["nx"], rep["lon"], rep["lat"], got.tolist(), rep.get("expected_value")))
    small = [(nx, ny) for nx in range(1, 13) for ny in range(1, 13)]
    runs = []
    wide_shapes = [(12, 5), (256, 1), (1000, 2), (4096, 1), (3, 4096), (65536, 3), (2 ** 20, 1), (3 * 2 ** 20, 1), (2, 2 ** 20), (2 ** 22, 1),
                   (1, 2 ** 22)]
    if ctx.quick:
        runs.append(wide_configs(wide_shapes, 100, ctx.rng))
        runs.append(configs(small, 1, "full", 10 ** 6))
        edge_shapes = [(nx, ny) for nx in (1, 2, 3, 4, 5, 7, 8, 12) for ny in (1, 2, 3, 5, 8)]
        runs.append(configs(edge_shapes, 25000, "edge", 100))
        grid_shapes = [(nx, ny) for nx in (1, 2, 3, 4, 5, 6, 8, 12) for ny in (1, 2, 3, 4, 8)]
        runs.append(configs(grid_shapes, 1, "grid", 10 ** 6))
    else:
        big = [(16, 8), (24, 12), (25, 13), (32, 16), (45, 8), (48, 24), (64, 32), (100, 3), (3, 100), (128, 2)]
        runs.append(wide_configs(wide_shapes + [(7, 7), (100, 50), (1024, 1), (1296000, 1), (2 ** 21 - 1, 2), (2 ** 22, 2), (2, 2 ** 22), (1, 1000003)],
                                 400, ctx.rng))
        runs.append(configs(small + big + [(256, 4), (5, 200)], 1, "full", 10 ** 6))
        runs.append(configs(small, 2, "full", 10 ** 6))
        runs.append(configs([(nx, ny) for nx in range(1, 13) for ny in (1, 2, 5, 12)], 3, "full", 10 ** 6))
        runs.append(configs(small + big, 25000, "edge", 100))
        runs.append(configs(small, 10 ** 6, "edge", 10))
        runs.append(configs(small + big, 1, "grid", 10 ** 6))
    ntab = 0
    # the TLC runs are independent: started together (three at a time, the replay overlapping the later ones), used in order
    from concurrent.futures import ThreadPoolExecutor

    def run_tlc(cfgs):
        r = ctx.tlc("MCPlateCarree", extra={"MCPlateCarree.tla": mc_module(cfgs)}, cfg_text=CFG, workers=4, timeout=3000)
        recs = sorted(r.json_lines("T"), key=lambda q: (q["nx"], q["ny"], q["g"], q["mode"], q["v"]))    # TLC prints in worker order
        if len(recs) != len(cfgs):
            ctx.machinery("TLC emitted %d tables for %d configurations" % (len(recs), len(cfgs)))
        return recs
    tp = ThreadPoolExecutor(max_workers=3)
    futures = [tp.submit(run_tlc, cfgs) for cfgs in runs]
    for fut in futures:
        recs = fut.result()
        # ---- several callers of one sampler object at the same time, on a few tables of the run (every layout; the largest
        # table and some drawn from ctx.rng); the edge families' points are the full families' points moved, and are left out
        if recs and recs[0]["mode"] != "edge":
            for v in LAYOUTS:
                mine = sorted((r for r in recs if r["v"] == v and len(r["ks"]) * len(r["js"]) >= 16), key=lambda r: (r["nx"] * r["ny"], r["nx"]))
                picked = ([mine[ctx.rng.randrange(len(mine))]] if ctx.quick and recs[0]["mode"] == "grid" else mine[-1:]) if mine else []
                picked += [mine[ctx.rng.randrange(len(mine))] for _ in range(0 if ctx.quick or not mine else 4)]
                for rec in picked:
                    ctx.count(concurrent_callers(ctx, rec, S, gal_tools, 8 if ctx.quick else 32))
                    ctx.add_note("tables_asked_by_concurrent_callers", 1)
        for rec in recs:
            n = replay_table(ctx, rec, S, gal_tools)
            ctx.count(n)
            ctx.trace_ok()
            ctx.distinct((rec["v"], rec["nx"], rec["ny"], rec["g"], rec["mode"]))
            ntab += 1
            ctx.add_note("points_compared", len(rec["ks"]) * len(rec["js"]))
        for rec in recs[:: max(1, len(recs) // 2)][:2]:
            ctx.sample({"layout": rec["v"], "nx": rec["nx"], "ny": rec["ny"], "g": rec["g"], "family": rec["mode"],
                        "lon_units": rec["ks"][:8], "lat_units": rec["js"][:4],
                        "expected_cells_first_rows": [row[:8] for row in rec["cells"][:4]]})
    tp.shutdown()
    ctx.exhaustive = False
    ctx.note("tables", ntab)
    ctx.assume("astropy's ICRS<->Galactic rotation is trusted (the Galactic sampler is judged relative to it)")
    ctx.assume("strict test angles are at least 1/(4g) of a cell away from every cell edge (g up to 10^6 in the thorough tier); points exactly on "
               "an edge (any float rendering) must resolve to one of the cells sharing it; points strictly between are not sampled")
    ctx.assume("plate_carree_ecliptic_sampler and ChunkedPlateCarreeSampler are outside the property's anchors and are not judged")
