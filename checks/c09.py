"""C09 - tiling images on a common TAN grid equals tiling the assembled mosaic.

Spec: spec/Mosaic.tla (on top of spec/StudyTiling.tla, which it instantiates): global pixelisation from the CRPIX
extrema, per-input sub-tilings, parity reconciliation, the four slices of the tiling loop, UpdateInto (an undefined
source pixel is never written), the ImageSet fields; two state machines over abstract mosaics at tile size 2..4:
  SpecPaste  inputs pasted one after the other in EVERY order, for every assignment of storage parities and both
             tile parities: PlacementOK, FieldsOK, TilesAreTilingOfMosaic (the tiles equal StudyTiling's single-image
             tiling of the large image pasted at display level, after every prefix), LastWins, OrderIndependent,
             ParityIndependent, CellTableOK, NeverOverwritten (action property);
  SpecPar    workers taking inputs from the queue, every tile update split into Lock / Read / Write / Unlock, then
             the lock clean-up: Mutex, NoContributionLost, ParallelEqualsSerial, NoLocksRemain, Returns (liveness);
             with UseLock = FALSE TLC must refute NoContributionLost (the theorems depend on the lock).
Binding (M4, spec -> code): abstract sizes cannot be scaled to 256-pixel tiles, so the harness draws real
decompositions (critical and seeded sizes, 2-5 overlapping sub-images with NaN borders and holes, both storage
parities, half-pixel reference points, rotated grids) and hands exactly those file sets to TLC, which evaluates the
same operators at TS = 256 (RealCaseOK theorems + RealCase expectation: global size, levels, offsets, CRPIX, ImageSet
fields in integers, per-input and whole-mosaic segment tables, file-row tables, the cell table of the pasted image).
The harness writes the FITS files, runs the real MultiTanProcessor (serial; under the deterministic scheduler of
lib/simmp with lock / read / write of update_image as extra scheduling points; with real processes; through the
tile-multi-tan CLI) for fits and npy tiles, tiles the pasted mosaic through the real single-image study path, and
compares every deepest-level tile with TLC's expectation and with the single-image result, the ImageSet fields with
the single-image run and TLC's integers, and lists *.lock files.
"""
import concurrent.futures as cf
import contextlib
import itertools
import json
import os
import random
import threading

from lib import repo, simmp, simrun, tla

T = 256
CRIT = [255, 256, 257, 511, 512, 513]
FIELDS = ["center_x", "center_y", "base_degrees_per_tile", "rotation_deg", "offset_x", "offset_y", "tile_levels"]
TOL = 1e-9
PAR = ("topdown", "bottomup")
# how "undefined" is encoded in the input files: NaN directly, or a blank value that the loader must turn into NaN
# (int as the CLI parses it, float, exactly zero, a large exactly representable number)
BLANKS = [None, 0, -999, None, 0.0, float(2 ** 100)]
# how the sub-images reach the tiler: one file each (HDU guessed / HDU 0 named), several HDUs of one multi-extension
# file (the same path listed once per HDU, HDU order unrelated to the collection order), or a mixture
PACKS = ["files", "mef", "mixed", "files-idx"]
# grid rotations whose matrix elements are exact: <<cos, sin>>
EXACT_ROT = {"0": (1.0, 0.0), "90": (0.0, 1.0), "-90": (0.0, -1.0), "180": (-1.0, 0.0), "45": (0.5 ** 0.5, 0.5 ** 0.5)}


# ------------------------------------------------------------------------------------------------
# abstract decompositions for the state machines
# ------------------------------------------------------------------------------------------------

def sub(ox, oy, w, h, bl=0, br=0, bt=0, bb=0, hole=(0, 0, 0, 0)):
    return dict(ox=ox, oy=oy, w=w, h=h, bl=bl, br=br, bt=bt, bb=bb, hx0=hole[0], hx1=hole[1], hy0=hole[2], hy1=hole[3])


def covers(subs, W, H):
    return (min(s["ox"] for s in subs) == 0 and min(s["oy"] for s in subs) == 0 and
            max(s["ox"] + s["w"] for s in subs) == W and max(s["oy"] + s["h"] for s in subs) == H)


def intervals(L):
    return [(a, b - a) for a in range(L) for b in range(a + 1, L + 1)]


def tiny_decomps(maxw, maxh):
    """EVERY decomposition of every mosaic up to maxw x maxh into two border-free sub-images."""
    out = []
    for W in range(1, maxw + 1):
        xs = [(a, b) for a in intervals(W) for b in intervals(W) if min(a[0], b[0]) == 0 and max(a[0] + a[1], b[0] + b[1]) == W]
        for H in range(1, maxh + 1):
            ys = [(a, b) for a in intervals(H) for b in intervals(H) if min(a[0], b[0]) == 0 and max(a[0] + a[1], b[0] + b[1]) == H]
            for (xa, xb) in xs:
                for (ya, yb) in ys:
                    out.append((W, H, [sub(xa[0], ya[0], xa[1], ya[1]), sub(xb[0], yb[0], xb[1], yb[1])]))
    return out


def random_sub(rng, W, H, big):
    w = rng.randint(max(1, (W * 2) // 5) if big else 1, W)
    h = rng.randint(max(1, (H * 2) // 5) if big else 1, H)
    return [rng.randint(0, W - w), rng.randint(0, H - h), w, h]


def random_decomp(rng, W, H, n, border, big=True):
    """n sub-images whose bounding box is the W x H mosaic; undefined borders up to `border`, sometimes a hole."""
    rs = [random_sub(rng, W, H, big) for _ in range(n)]
    for axis, L in ((0, W), (1, H)):                        # somebody touches each side of the bounding box
        lo, hi = rng.randrange(n), rng.randrange(n)
        if lo == hi:
            rs[lo][axis], rs[lo][axis + 2] = 0, L
        else:
            rs[lo][axis] = 0
            rs[hi][axis] = L - rs[hi][axis + 2]
    subs = []
    for (ox, oy, w, h) in rs:
        b4 = [rng.randint(0, border) if rng.random() < 0.7 else 0 for _ in range(4)]
        if rng.random() < 0.35:
            # asymmetric: one side's undefined band is tall / wide (up to 60 % of the input: more than a tile's share
            # of the segment, whole tile rows or columns of it), the opposite side keeps its thin one
            side = rng.randrange(4)
            b4[side] = rng.randint(0, max(border, (6 * (w if side < 2 else h)) // 10))
        bl, br, bt, bb = b4
        if rng.random() < 0.1:
            bl = w                                          # a completely undefined input
        hole = (0, 0, 0, 0)
        if rng.random() < 0.4 and w >= 3 and h >= 3:
            hx0 = rng.randint(0, w - 1)
            hy0 = rng.randint(0, h - 1)
            hole = (hx0, rng.randint(hx0 + 1, w), hy0, rng.randint(hy0 + 1, h))
        subs.append(sub(ox, oy, w, h, bl, br, bt, bb, hole))
    assert covers(subs, W, H), (W, H, subs)
    return subs


def decomp_lit(W, H, subs, agree, r1, r2):
    return tla.lit(dict(W=W, H=H, r1=r1, r2=r2, agree=agree, subs=list(subs)))


def abstract_sets(rng, quick):
    """-> {name: (TS, [decomposition literals])} for SpecPaste, and the SpecPar families."""
    fam = {}
    # every two-input decomposition up to 3 x 3 (quick: 3 x 2), disagreeing values (LastWins names the input) ...
    tiny = tiny_decomps(3, 2) if quick else tiny_decomps(4, 3)
    lits = [decomp_lit(W, H, s, False, rng.randint(-5, 9), rng.randint(-5, 9)) for (W, H, s) in tiny]
    # ... and agreeing ones (OrderIndependent) for a third of them
    lits += [decomp_lit(W, H, s, True, rng.randint(-5, 9), rng.randint(-5, 9)) for (W, H, s) in tiny[::3]]
    fam["tiny-ts2"] = (2, lits, len(tiny))
    for ts, cnt in ((2, 24 if quick else 500), (4, 16 if quick else 400), (3, 0 if quick else 300)):
        lits = []
        for i in range(cnt):
            n = (4 if i == 0 else rng.choice([2, 3, 3])) if quick else (rng.choice([2, 3, 3, 4]) if ts == 2 else rng.choice([2, 3, 3]))
            W = rng.randint(1, ts * 2 + ts // 2 + 1)
            H = rng.randint(1, ts * 2 + ts // 2 + 1)
            lits.append(decomp_lit(W, H, random_decomp(rng, W, H, n, rng.choice([1, 1, ts]) if ts == 2 else rng.choice([2, 2, ts + 1]), big=rng.random() < 0.6),
                                   rng.random() < 0.5, rng.randint(-9, 15), rng.randint(-9, 15)))
        if lits:
            fam["random-ts%d" % ts] = (ts, lits, 0)
    # SpecPar: few inputs on few tiles (the interleavings are the point)
    par = []
    for _ in range(3 if quick else 40):
        W, H = rng.randint(2, 4), rng.randint(1, 3)
        par.append(decomp_lit(W, H, random_decomp(rng, W, H, 2, 1), rng.random() < 0.6, rng.randint(-3, 7), rng.randint(-3, 7)))
    par.append(decomp_lit(3, 2, [sub(0, 0, 2, 2), sub(1, 0, 2, 2, bl=1), sub(0, 1, 3, 1)], True, 2, 3))
    par.append(decomp_lit(2, 2, [sub(0, 0, 2, 2, br=1), sub(0, 0, 2, 2, bt=1)], False, 1, 1))   # two inputs, one tile
    return fam, par


PASTE_CFG = """SPECIFICATION SpecPaste
CONSTANTS
 TS = %d
 Decomps <- MCDecomps
 NWorkers = 1
 UseLock = TRUE
 ReleaseUnlinks = TRUE
INVARIANT PlacementOK
INVARIANT FieldsOK
INVARIANT TilesAreTilingOfMosaic
INVARIANT LastWins
INVARIANT OrderIndependent
INVARIANT ParityIndependent
INVARIANT CellTableOK
PROPERTY NeverOverwritten
CHECK_DEADLOCK FALSE
"""

PAR_CFG = """SPECIFICATION SpecPar
CONSTANTS
 TS = 2
 Decomps <- MCDecomps
 NWorkers = %d
 UseLock = %s
 ReleaseUnlinks = %s
INVARIANT PlacementOK
INVARIANT Mutex
INVARIANT NoContributionLost
INVARIANT ParallelEqualsSerial
INVARIANT NoLocksRemain
INVARIANT LocksOnlyWhileRunning
%s
CHECK_DEADLOCK FALSE
"""

REAL_CFG = """INIT IdleInit
NEXT IdleNext
CONSTANTS
 TS = 256
 Decomps <- MCDecomps
 NWorkers = 1
 UseLock = TRUE
 ReleaseUnlinks = TRUE
CHECK_DEADLOCK FALSE
"""


def mc_decomps(name, lits):
    return tla.module(name, ["Mosaic"], [("MCDecomps", "{" + ",\n ".join(lits) + "}")])


# ------------------------------------------------------------------------------------------------
# real decompositions
# ------------------------------------------------------------------------------------------------

def real_cases(rng, quick):
    """Display-level cases at real sizes."""
    cases = []

    def add(W, H, n, **kw):
        anchor = kw.pop("anchor", None)
        c = dict(W=W, H=H, subs=random_decomp(rng, W, H, n, kw.pop("border", 25), big=kw.pop("big", True)),
                 agree=kw.pop("agree", rng.random() < 0.7),
                 r1=rng.randint(-600, 2 * W + 600), r2=rng.randint(-600, 2 * H + 600),
                 rot=kw.pop("rot", None) or rng.choice(["0", "0", "90", "-90", "180", "45", 0.3, -1.1, 2.6]),
                 form=kw.pop("form", None) or rng.choice(["cd", "cd", "cd", "pc"]), scale=rng.choice([1e-3, 2.5e-4, 7e-3]),
                 crval=rng.choice([(10.0, 20.0), (283.25, -45.5), (0.5, 88.0)]),
                 dtype=rng.choice(["f4", "f4", "f8"]), seed=rng.randrange(1 << 30), tag=kw.pop("tag", "seeded"))
        c.update(kw)
        if anchor is None and rng.random() < 0.3:
            anchor = rng.randrange(16)
        if anchor is not None:
            anchor_reference(c, anchor)
        c.setdefault("blank", BLANKS[len(cases) % len(BLANKS)])
        c.setdefault("extreme", len(cases) % 2 == 0)
        cases.append(c)
    # the critical sizes of C08, in pairs that reach 1, 2 and 4 tiles per axis
    crit_pairs = [(255, 256), (256, 256), (257, 255), (511, 300), (512, 513), (513, 511)] if quick else \
                 [(a, b) for a in CRIT for b in CRIT if (a + b) % 3 != 0] + [(1023, 200), (1024, 1025), (1025, 640)]
    for (W, H) in crit_pairs:
        add(W, H, rng.choice([2, 3, 3]), tag="critical")
    for _ in range(10 if quick else 90):
        W = rng.choice([rng.randint(30, 250), rng.randint(258, 700), rng.randint(300, 1100)])
        H = rng.choice([rng.randint(30, 250), rng.randint(258, 700), rng.randint(300, 1100)])
        add(W, H, rng.choice([2, 3, 3, 4, 5]))
    # wide / tall mosaics (untouched tile rows and columns), and everything inside one tile
    add(900, 180, 3, tag="wide")
    add(150, 700, 4, tag="tall")
    add(200, 180, 3, tag="one-tile", big=True)
    add(256, 90, 2, tag="one-tile")
    # an input that covers a whole aligned tile which an earlier input also populates, with an undefined band / hole of
    # the covering input inside that tile (a tile may never be replaced wholesale): a 1024-wide mosaic sits at gx0 = 0
    for hh in ([600] if quick else [600, 1024, 300]):
        ox = rng.randint(300, 420)
        band = 512 - ox + rng.randint(20, 120)                   # reaches into tile column 2, which the input covers
        pw = rng.randint(ox + band + 30, 760)
        cover = sub(ox, 0, 1024 - ox, hh, bl=band, bt=rng.randint(0, 9), hole=(band + 40, band + 90, hh // 2 - 30, hh // 2 + 40))
        add(1024, hh, 2, tag="full-tile", agree=(hh != 1024))
        cases[-1]["subs"] = [sub(0, 0, pw, hh, br=rng.randint(0, 12)), cover]
    # vertically / horizontally ASYMMETRIC undefined bands: a frame spanning several tile rows and columns whose band on one
    # side (30-55 % of it) is taller than the piece its opposite edge pokes into the first / last tile, and a strip that
    # supplies the band's region; each side in turn
    for side in (["bb", "bt", "br", "bl"] if quick else ["bb", "bt", "br", "bl", "bb", "bt"]):
        W, H = rng.randint(520, 760), rng.randint(520, 760)
        L = H if side in ("bb", "bt") else W
        band = rng.randint((3 * L) // 10, (55 * L) // 100)
        frame = sub(0, 0, W, H, **{side: band})
        thin = {k: rng.randint(0, 6) for k in ("bl", "br", "bt", "bb")}
        if side == "bb":
            strip = sub(rng.randint(0, 40), H - band - 10, W - 60, band + 10, **thin)
        elif side == "bt":
            strip = sub(rng.randint(0, 40), 0, W - 60, band + 10, **thin)
        elif side == "br":
            strip = sub(W - band - 10, rng.randint(0, 40), band + 10, H - 60, **thin)
        else:
            strip = sub(0, rng.randint(0, 40), band + 10, H - 60, **thin)
        add(W, H, 2, tag="asym-band")
        cases[-1]["subs"] = [frame, strip]
    # the reference pixel on an edge of an input (CRPIX exactly 1, 0, width, width + 1 in x and / or y): all 16 combinations
    # over a few small mosaics, three inputs each so that every input order is run
    for a in ([0, 5, 10, 15, 2, 8] if quick else range(16)):
        add(rng.randint(150, 420), rng.randint(150, 420), 3, tag="ref-on-edge", anchor=a, border=10)
    # grids rotated by exactly 0, +-90, 180 and 45 degrees (matrix elements that are exactly 0 or equal), written as a CD
    # matrix and as PC + CDELT; one tile and several tiles
    for i, rot in enumerate(["0", "90", "-90", "180", "45"]):
        for j, form in enumerate(["cd", "pc"]):
            W, H = [(300, 280), (140, 230), (520, 260)][(i + j) % 3]
            add(W, H, 2, tag="exact-rotation", rot=rot, form=form, border=8)
    if not quick:
        add(2049, 300, 3, tag="wide-l4")
        add(1500, 1300, 5, tag="big")
    return cases


def anchor_reference(c, a):
    """Put the common grid's reference pixel on an edge of one input, so that this input's CRPIX1 (or CRPIX2, counted from
    the top) is exactly 1, 0, its width or its width + 1: its extents relative to the reference pixel are then exactly 0.0
    (or +-1) at some point of the accumulation of the global extents, whatever the input order."""
    ix, iy = a % 4, (a // 4) % 4
    s = c["subs"][0 if a % 3 == 0 else (a % len(c["subs"]))]       # often the first sub-image (frequently the leftmost / topmost)
    left = min(c["subs"], key=lambda t: t["ox"])
    top = min(c["subs"], key=lambda t: t["oy"])
    sx = left if a % 2 == 0 else s
    sy = top if a % 2 == 1 else s
    c["r1"] = [2 * sx["ox"] + 2, 2 * sx["ox"], 2 * (sx["ox"] + sx["w"]), 2 * (sx["ox"] + sx["w"]) + 2][ix]
    c["r2"] = [2 * sy["oy"] + 2, 2 * sy["oy"], 2 * (sy["oy"] + sy["h"]), 2 * (sy["oy"] + sy["h"]) + 2][iy]


def file_records(case, perm, pars):
    """What the files say, in collection order (the same arithmetic as Mosaic!FileOf)."""
    files, defs = [], []
    for k, par in zip(perm, pars):
        s = case["subs"][k]
        c2td = case["r2"] - 2 * s["oy"]
        files.append(dict(w=s["w"], h=s["h"], par=par, c1=case["r1"] - 2 * s["ox"],
                          c2=(2 * (s["h"] + 1) - c2td) if par == "bottomup" else c2td))
        defs.append({f: s[f] for f in ("bl", "br", "bt", "bb", "hx0", "hx1", "hy0", "hy1")})
    return dict(files=files, defs=defs)


def variants(case, rng, quick):
    """(perm, pars, fmt) triples: all orders for <= 3 inputs, sampled beyond; parities mixed."""
    n = len(case["subs"])
    perms = list(itertools.permutations(range(n)))
    if n > 3:
        rng.shuffle(perms)
        perms = perms[:3 if quick else 8]
    out = []
    for i, perm in enumerate(perms):
        if case["form"] == "pc":
            # the parity flip rewrites a PC + CDELT header as a CD matrix, and toasty's header comparison then refuses a
            # collection of mixed storage parities (observed_outside_property): one parity per collection
            pars = [PAR[(i + case["seed"]) % 2]] * n
        elif i == 0:
            pars = [PAR[(j + 1) % 2] for j in range(n)]             # mixed
        elif i == 1:
            pars = ["bottomup"] * n
        elif i == 2:
            pars = ["topdown"] * n
        else:
            pars = [rng.choice(PAR) for _ in range(n)]
        out.append(dict(perm=list(perm), pars=pars, fmt="npy" if i % 3 == 2 else "fits",
                        pack=PACKS[(i + case["seed"]) % len(PACKS)]))
    return out


def real_module(recs):
    defs = [("MCDecomps", "{}"),
            ("Cases", tla.lit(recs)),
            "ASSUME \\A i \\in DOMAIN Cases : RealCaseOK(Cases[i]) \\/ (PrintT(<<\"RealCaseOK fails\", i>>) /\\ FALSE)",
            "ASSUME JsonSerialize(IOEnv.OUT, [i \\in DOMAIN Cases |-> RealCase(Cases[i])])"]
    return tla.module("MCReal", ["Mosaic", "Json", "IOUtils", "TLC"], defs)


# ------------------------------------------------------------------------------------------------
# building inputs and expectations (pool workers)
# ------------------------------------------------------------------------------------------------

def truth_array(case):
    import numpy as np
    g = np.random.default_rng(case["seed"])
    a = (g.random((case["H"], case["W"])) * 100.0 + 1.0).astype(case["dtype"])
    # defined pixels that are easily mistaken for undefined ones (only NaN is undefined): infinities, both zeros, the
    # largest / smallest magnitudes of the type, negative data - single pixels everywhere (overlaps, borders of the inputs,
    # tile edges) and a few small blocks
    fi = np.finfo(a.dtype)
    special = [np.inf, -np.inf, 0.0, -0.0, fi.tiny, fi.smallest_subnormal]
    if case.get("extreme", True):
        # (not everywhere: a tile that holds +-max has the same recorded data range whatever else is merged into it)
        special += [fi.max, -fi.max, -1.0, -fi.eps]
    special = np.array(special, dtype=a.dtype)
    n = a.size
    idx = g.choice(n, size=max(8, n // 150), replace=False)
    a.flat[idx] = special[g.integers(0, len(special), size=len(idx))]
    for _ in range(6):
        y, x = int(g.integers(0, case["H"])), int(g.integers(0, case["W"]))
        a[y:y + 5, x:x + 7] = special[int(g.integers(0, len(special)))]
    if case.get("blank") is not None:
        a[a == case["blank"]] = 7.0          # the blank value itself cannot be data (for 0 that means both zeros)
    return a


def display_array(case, truth, k):
    import numpy as np
    s = case["subs"][k]
    a = truth[s["oy"]:s["oy"] + s["h"], s["ox"]:s["ox"] + s["w"]].copy()
    if not case["agree"]:
        a += 1000.0 * (k + 1)
    # exactly Mosaic!DefLocal: defined iff bl <= x < w - br and bt <= y < h - bb (and outside the hole).  A border may be
    # wider than the image (the input is then wholly undefined): the bounds are clamped, a negative slice start would
    # count from the other end
    a[:, :min(s["bl"], s["w"])] = np.nan
    a[:, max(0, s["w"] - s["br"]):] = np.nan
    a[:min(s["bt"], s["h"]), :] = np.nan
    a[max(0, s["h"] - s["bb"]):, :] = np.nan
    a[s["hy0"]:s["hy1"], s["hx0"]:s["hx1"]] = np.nan
    return a


def write_fits(path, disp, par, c1, c2, case):
    make_hdu(disp, par, c1, c2, case, True).writeto(path, overwrite=True)


def encode_blank(case, disp, sub_, i):
    """The stored pixels of one input: undefined pixels as NaN, or - when the collection declares a blank value - as that
    value (every other input keeps its hole as NaN: both encodings in one file)."""
    import numpy as np
    if case.get("blank") is None:
        return disp
    enc = disp.copy()
    m = np.isnan(enc)
    if i % 2:
        m[sub_["hy0"]:sub_["hy1"], sub_["hx0"]:sub_["hx1"]] = False
    enc[m] = case["blank"]
    return enc


def write_inputs(wd, case, var, rec, disps, plain=False):
    """-> (paths, hdu_index) in collection order.  plain: one file per input, NaN for undefined (what the tile-multi-tan
    CLI can express); otherwise the variant's packaging and the case's encoding of undefined."""
    from astropy.io import fits
    n = len(disps)
    pack = "files" if plain else var.get("pack", "files")
    in_mef = [pack == "mef" or (pack == "mixed" and i % 2 == 0) for i in range(n)]
    ext = {}
    members = [i for i in range(n) if in_mef[i]]
    for j, i in enumerate(reversed(members)):                 # HDU order is not the collection order
        ext[i] = j + 1
    hdus = {}
    paths, idx = [], []
    for i, (k, f) in enumerate(zip(var["perm"], rec["files"])):
        data = disps[i] if plain else encode_blank(case, disps[i], case["subs"][k], i)
        hdu = make_hdu(data, f["par"], f["c1"], f["c2"], case, not in_mef[i])
        if in_mef[i]:
            hdus[ext[i]] = hdu
            paths.append(os.path.join(wd, "mef.fits"))
            idx.append(ext[i])
        else:
            p = os.path.join(wd, "%s%d.fits" % ("plain" if plain else "in", i))
            hdu.writeto(p, overwrite=True)
            paths.append(p)
            idx.append(0)
    if hdus:
        fits.HDUList([fits.PrimaryHDU()] + [hdus[j] for j in sorted(hdus)]).writeto(os.path.join(wd, "mef.fits"), overwrite=True)
    if pack == "files":
        idx = None                                            # let the loader find the image HDU
    return paths, idx


def make_hdu(disp, par, c1, c2, case, primary):
    """disp: the image in display orientation (row 0 at the top); c1, c2: doubled CRPIX as in the header."""
    import numpy as np
    from astropy.io import fits
    from astropy.wcs import WCS
    c, k = EXACT_ROT[case["rot"]] if case["rot"] in EXACT_ROT else (float(np.cos(case["rot"])), float(np.sin(case["rot"])))
    s = case["scale"]
    sy = -1.0                                                    # top-down: CD = s [[-c, k], [-k, -c]], positive determinant
    data = disp
    if par == "bottomup":
        sy = 1.0                                                 # y counted from the other end: second column negated
        data = disp[::-1]
    w = WCS(naxis=2)
    w.wcs.ctype = ["RA---TAN", "DEC--TAN"]
    w.wcs.crval = list(case["crval"])
    if case["form"] == "pc":
        w.wcs.cdelt = [-s, sy * s]
        w.wcs.pc = [[c, sy * k], [-sy * k, c]]
    else:
        w.wcs.cd = [[-c * s, -sy * k * s], [-k * s, sy * c * s]]
    w.wcs.crpix = [c1 / 2.0, c2 / 2.0]
    cls = fits.PrimaryHDU if primary else fits.ImageHDU
    return cls(data=np.ascontiguousarray(data), header=w.to_header())


def expected_mosaic(exp, disps, dtype):
    """The pasted large image, from TLC's cell table (winner of every cell) - no update rule applied here."""
    import numpy as np
    E = np.full((exp["h"], exp["w"]), np.nan, dtype=dtype)
    xc, yc, win = exp["cells"]["xc"], exp["cells"]["yc"], exp["cells"]["win"]
    for j in range(len(yc) - 1):
        for i in range(len(xc) - 1):
            k = win[j][i]
            if k:
                ins = exp["ins"][k - 1]
                E[yc[j]:yc[j + 1], xc[i]:xc[i + 1]] = disps[k - 1][yc[j] - ins["jmin"]:yc[j + 1] - ins["jmin"],
                                                                  xc[i] - ins["imin"]:xc[i + 1] - ins["imin"]]
    return E


def cut_tiles(table, img, rowkey):
    """Tiles {(tx, ty): file-orientation array} of `img` placed by a segment table of TLC (xs, ys: <<tile, toff, ioff,
    len>>; rowkey 'bu' / 'td': first and last file row receiving the segment's image rows, in image order)."""
    import numpy as np
    out = {}
    for (ty, toy, ioy, ly), (r0, r1) in zip(table["ys"], table[rowkey]):
        step = 1 if r1 >= r0 else -1
        rows = np.arange(r0, r1 + step, step)
        if len(rows) != ly:
            raise RuntimeError("file-row table inconsistent with the segment table")
        for (tx, tox, iox, lx) in table["xs"]:
            t = np.full((T, T), np.nan, dtype=img.dtype)
            t[rows, tox:tox + lx] = img[ioy:ioy + ly, iox:iox + lx]
            out[(tx, ty)] = t
    return out


def paste_by_segments(exp, disps, dtype, rowkey):
    """Cross-check of the two expectations TLC delivers: the per-input segment tables applied one input after the other
    (with the update rule) must give the tiles of the cell-table mosaic."""
    import numpy as np
    tiles = {}
    for ins, d in zip(exp["ins"], disps):
        for pos, t in cut_tiles(ins, d, rowkey).items():
            cur = tiles.setdefault(pos, np.full((T, T), np.nan, dtype=dtype))
            m = ~np.isnan(t)
            cur[m] = t[m]
    return tiles


def _bits(a):
    import numpy as np
    n = np.ascontiguousarray(a, dtype=a.dtype.newbyteorder("="))          # FITS arrays are big-endian
    return n.view("u%d" % n.dtype.itemsize)


def diffmask(a, b):
    """Pixels that differ at bit level (0.0 / -0.0 differ, +inf / -inf / huge / subnormal values must survive exactly);
    two NaNs are the same undefined pixel.  None if shape or float type differ."""
    import numpy as np
    if a.shape != b.shape or a.dtype.kind != "f" or b.dtype.kind != "f" or a.dtype.itemsize != b.dtype.itemsize:
        return None
    return ~((_bits(a) == _bits(b)) | (np.isnan(a) & np.isnan(b)))


def same(a, b):
    m = diffmask(a, b)
    return m is not None and not bool(m.any())


def read_tiles(out, fmt, lev):
    """-> ({(tx, ty): array}, [unexpected files], [lock files], {(tx, ty): (DATAMIN, DATAMAX)} for FITS tiles)"""
    import numpy as np
    from astropy.io import fits
    tiles, odd, locks, cards = {}, [], [], {}
    for root, _ds, fs in os.walk(out):
        for fn in fs:
            p = os.path.join(root, fn)
            rel = os.path.relpath(p, out)
            if fn.endswith(".lock"):
                locks.append(rel)
                continue
            parts = rel.split(os.sep)
            try:
                stem, ext = fn.rsplit(".", 1)
                ty, tx = [int(v) for v in stem.split("_")]
                ok = len(parts) == 3 and int(parts[0]) == lev and int(parts[1]) == ty and ext == fmt
            except ValueError:
                ok = False
            if not ok:
                if fn not in ("index_rel.wtml",):
                    odd.append(rel)
                continue
            if fmt == "fits":
                with fits.open(p) as hdul:
                    tiles[(tx, ty)] = np.array(hdul[0].data)
                    cards[(tx, ty)] = (hdul[0].header.get("DATAMIN"), hdul[0].header.get("DATAMAX"))
            else:
                tiles[(tx, ty)] = np.load(p)
    return tiles, sorted(odd), sorted(locks), cards


def finite_range(t):
    """(min, max) of the finite pixels, (None, None) if there is none - what a FITS tile records as DATAMIN / DATAMAX."""
    import numpy as np
    f = t[np.isfinite(t)]
    return (float(f.min()), float(f.max())) if f.size else (None, None)


def compare_cards(cards, pixels, single_cards, what, res, key, rep):
    """The tile FILES, beyond their pixels: every deepest-level FITS tile records the range of its own (expected) pixels,
    and the same cards as the tile of the pasted mosaic."""
    for p in sorted(cards):
        if p not in pixels:
            continue
        exp = finite_range(pixels[p])
        tol = 2e-6 if pixels[p].dtype.itemsize == 4 else 1e-12
        for name, got, want in (("DATAMIN", cards[p][0], exp[0]), ("DATAMAX", cards[p][1], exp[1])):
            bad = (got is None) != (want is None) or (got is not None and abs(float(got) - want) > tol * max(1.0, abs(want)))
            if bad:
                res.append(("V", key, "%s: tile (x %d, y %d) records %s = %r, its pixels (as the specification predicts them) range to %r"
                            % (what, p[0], p[1], name, got, want), rep))
                return False
        if single_cards is not None and p in single_cards and tuple(single_cards[p]) != tuple(cards[p]):
            res.append(("V", key, "%s: tile (x %d, y %d) records DATAMIN/DATAMAX %r, the tile of the pasted mosaic %r" % (what, p[0], p[1], cards[p], single_cards[p]), rep))
            return False
    return True


def field_diff(name, a, b):
    """Rotations are angles: 180 and -180 degrees (atan2 of +0.0 / -0.0) are the same description."""
    if name == "rotation_deg":
        return abs((a - b + 180.0) % 360.0 - 180.0)
    return abs(a - b)


def fields_of(imgset):
    return {f: float(getattr(imgset, f)) for f in FIELDS}


def compare_tiles(got, want, what, res, key, rep):
    import numpy as np
    want_stored = {p for p, t in want.items() if not np.all(np.isnan(t))}
    if set(got) != want_stored:
        res.append(("V", key, "%s: tile files that should not exist %s, tile files missing %s (x, y)"
                    % (what, sorted(set(got) - want_stored)[:4], sorted(want_stored - set(got))[:4]), rep))
        return False
    for p in sorted(got):
        g, w = got[p], want[p]
        if not same(g, w):
            bad = diffmask(g, w)
            if bad is None:
                msg = "shape %s type %s, expected %s %s" % (g.shape, g.dtype, w.shape, w.dtype)
            else:
                ys, xs = np.nonzero(bad)
                lost = int(np.sum(bad & np.isnan(g)))
                ghost = int(np.sum(bad & np.isnan(w)))
                msg = ("%d pixels differ (first at file row %d, column %d: %r, expected %r; %d undefined where data are expected, "
                       "%d defined where nothing is expected)" % (int(bad.sum()), ys[0], xs[0], float(g[ys[0], xs[0]]), float(w[ys[0], xs[0]]), lost, ghost))
            res.append(("V", key, "%s: tile (x %d, y %d) %s" % (what, p[0], p[1], msg), rep))
            return False
    return True


def weak_compare(got, fmt, exp, E, canv, what, res, key, rep):
    """Workers and disagreeing inputs: the paste order per tile is the lock order, so every pixel must be defined iff
    some input defines it and carry the value of one of the inputs defined there (Mosaic!NoContributionLost)."""
    import numpy as np
    p2 = exp["p2"]
    G = np.full((p2, p2), np.nan, dtype=E.dtype)
    for (tx, ty), t in got.items():
        if t.shape != (T, T) or not (0 <= tx < p2 // T and 0 <= ty < p2 // T):
            res.append(("V", key, "%s: unexpected tile (x %d, y %d) of shape %s" % (what, tx, ty, t.shape), rep))
            return
        G[ty * T:(ty + 1) * T, tx * T:(tx + 1) * T] = t[::-1] if fmt == "fits" else t
    inner = G[exp["gy0"]:exp["gy0"] + exp["h"], exp["gx0"]:exp["gx0"] + exp["w"]].copy()
    G[exp["gy0"]:exp["gy0"] + exp["h"], exp["gx0"]:exp["gx0"] + exp["w"]] = np.nan
    if not np.all(np.isnan(G)):
        res.append(("V", key, "%s: defined pixels outside the mosaic's place in the padded square" % what, rep))
        return
    okpix = np.isnan(inner) & np.isnan(E)
    for c in canv:
        okpix |= (inner == c)
    if not np.all(okpix):
        ys, xs = np.nonzero(~okpix)
        res.append(("V", key, "%s: %d pixels carry no input's value (first at mosaic x %d, y %d: %r; %d are undefined although an input "
                    "defines them)" % (what, len(ys), xs[0], ys[0], float(inner[ys[0], xs[0]]), int(np.sum(~okpix & np.isnan(inner)))), rep))


# ------------------------------------------------------------------------------------------------
# running the real code
# ------------------------------------------------------------------------------------------------

@contextlib.contextmanager
def sim_gates():
    """Inside a simulated run the three steps of PyramidIO.update_image become scheduling points: taking the lock
    (enabled only while the lock file does not exist - the blocked acquirer polls), reading and writing the tile."""
    import filelock
    from toasty.pyramid import PyramidIO
    o_acq = filelock.SoftFileLock._acquire
    o_read, o_write = PyramidIO.read_image, PyramidIO.write_image
    seen = set()

    def in_sim():
        S = simmp.S
        return S is not None and not S.killed and S.me() is not None

    def _acquire(self):
        if in_sim():
            lf = self.lock_file
            seen.add("lock")
            simmp.S.sync(("tile_lock", os.path.basename(lf)), lambda: ({"ok": lambda: None} if not os.path.exists(lf) else {}))
        return o_acq(self)

    def read_image(self, pos, *a, **k):
        if in_sim():
            seen.add("read")
            simmp.S.sync(("tile_read", tuple(pos)), lambda: {"ok": lambda: None})
        return o_read(self, pos, *a, **k)

    def write_image(self, pos, *a, **k):
        if in_sim():
            seen.add("write")
            simmp.S.sync(("tile_write", tuple(pos)), lambda: {"ok": lambda: None})
        return o_write(self, pos, *a, **k)
    o_makedirs = os.makedirs

    def makedirs(name, *a, **k):
        # creating a directory is a step other workers can interleave with (check-then-create sequences around it)
        if in_sim():
            simmp.S.sync(("mkdir", os.path.basename(str(name))), lambda: {"ok": lambda: None})
        return o_makedirs(name, *a, **k)
    filelock.SoftFileLock._acquire = _acquire
    PyramidIO.read_image, PyramidIO.write_image = read_image, write_image
    os.makedirs = makedirs
    try:
        yield seen
    finally:
        os.makedirs = o_makedirs
        filelock.SoftFileLock._acquire = o_acq
        PyramidIO.read_image, PyramidIO.write_image = o_read, o_write


def pol_stall_write(rng):
    """A worker that has read a tile is not allowed to write it back while anything else can run."""
    def choose(en):
        rest = [i for i, c in enumerate(en) if c[1][0] != "tile_write"]
        if rest and rng.random() < 0.9:
            return rng.choice(rest)
        return rng.randrange(len(en))
    return choose


def pol_stall_unlocked(rng):
    """Prefer whoever is about to read a tile; writes last (many readers between one read and its write)."""
    return simrun.pol_priority(rng, lambda c: 0 if c[1][0] in ("tile_read", "tile_lock") else (2 if c[1][0] == "tile_write" else 1), noise=0.1)


SIM_POLICIES = {"random": simrun.pol_random, "stall-write": pol_stall_write, "readers-first": pol_stall_unlocked,
                "starve-feeder": simrun.pol_starve_feeder, "workers-last": simrun.pol_workers_last, "flag-race": simrun.pol_flag_race}


def run_multi(paths, out, fmt, mode, parallel=1, policy=None, seed=0, stale_lock=None, hdu_index=None, blankval=None):
    """One run of the real MultiTanProcessor.  -> dict(fields, lev, status, note)"""
    from toasty import multi_tan, collection, pyramid, builder
    from toasty.pyramid import Pos
    r = dict(status="ok", note=None, gates=None)
    if mode == "cli":
        from toasty import cli
        import io
        with simrun.quiet(), contextlib.redirect_stderr(io.StringIO()):
            cli.entrypoint(["tile-multi-tan", "--outdir", out, "--parallelism", "1"] + list(paths))
        r["wtml"] = os.path.join(out, "index_rel.wtml")
        return r
    if mode == "cli-view":
        # `toasty view --tile-only`: CollectionLoader options (--hdu-index list, --blankval) -> FitsTiler -> MultiTanProcessor
        # (+ cascade); the pyramid lands next to the first input
        from toasty import cli
        import io
        argv = ["view", "--tile-only", "--tiling-method", "tan", "--parallelism", "1"]
        if hdu_index is not None:
            argv.append("--hdu-index=" + ",".join(str(i) for i in hdu_index))
        if blankval is not None:
            argv.append("--blankval=" + repr(blankval))
        with simrun.quiet(), contextlib.redirect_stderr(io.StringIO()):
            cli.entrypoint(argv + list(paths))
        first = paths[0].split(".gz")[0]
        r["outdir"] = first[:first.rfind(".")] + "_tiled"
        r["wtml"] = os.path.join(r["outdir"], "index_rel.wtml")
        return r
    pio = pyramid.PyramidIO(out, default_format=fmt)
    bld = builder.Builder(pio)
    kw = {}
    if hdu_index is not None:
        kw["hdu_index"] = list(hdu_index)
    if blankval is not None:
        kw["blankval"] = blankval
    proc = multi_tan.MultiTanProcessor(collection.SimpleFitsCollection(paths, **kw))
    proc.compute_global_pixelization(bld)
    r["fields"] = fields_of(bld.imgset)
    r["lev"] = int(bld.imgset.tile_levels)
    if stale_lock is not None:
        # a lock file left behind by an interrupted earlier run, at a deepest-level position no input touches
        lp = pio.tile_path(Pos(r["lev"], stale_lock[0], stale_lock[1])) + ".lock"
        open(lp, "w").close()
    if mode == "serial":
        with simrun.quiet():
            proc.tile(pio, parallel=1)
    elif mode == "sim":
        with sim_gates() as seen:
            o = simrun.run(lambda: proc.tile(pio, parallel=parallel), SIM_POLICIES[policy](random.Random(seed)), max_steps=20000)
        r["gates"] = sorted(seen)
        r["status"] = o.status
        r["steps"] = o.steps
        r["sched"] = hash(tuple((a, op[0], oc) for a, op, oc in o.trace))
        if o.status == "raised":
            r["note"] = repr(o.exc)
        elif o.status != "returned":
            r["note"] = "trace tail: %s" % ([(a, op[0], oc) for a, op, oc in o.trace[-12:]],)
        if o.workers_alive_at_return:
            r["alive"] = o.workers_alive_at_return
    elif mode == "procs":
        from lib import guard

        def body():
            with simrun.quiet():
                proc.tile(pio, parallel=parallel)
            return True
        kind, val = guard.run_guarded(body, 180)
        if kind != "ok":
            r["status"], r["note"] = kind, val
    else:
        raise ValueError(mode)
    return r


def run_single(mosaic_path, out, fmt):
    """The single-image study path, as `toasty tile-study` drives it for a FITS image."""
    from toasty import pyramid, builder
    from toasty.image import ImageLoader
    img = ImageLoader().load_path(mosaic_path)
    img.ensure_negative_parity()
    pio = pyramid.PyramidIO(out, default_format=fmt)
    bld = builder.Builder(pio)
    tiling = bld.prepare_study_tiling(img)
    bld.apply_wcs_info(img.wcs, img.width, img.height)
    with simrun.quiet():
        bld.execute_study_tiling(img, tiling)
    return fields_of(bld.imgset), int(bld.imgset.tile_levels)


def wtml_fields(path):
    from xml.etree import ElementTree as etree
    el = etree.parse(path).getroot().find(".//ImageSet")
    names = {"center_x": "CenterX", "center_y": "CenterY", "base_degrees_per_tile": "BaseDegreesPerTile", "rotation_deg": "Rotation",
             "offset_x": "OffsetX", "offset_y": "OffsetY", "tile_levels": "TileLevels"}
    # wwt_data_formats leaves out attributes that have their default value (e.g. OffsetX="0"): absent means 0
    return {f: float(el.get(a, "0")) for f, a in names.items()}


def replay_group(args):
    """All runs of one (case, order, parities): serial fits/npy, optional sim / procs / cli runs, the single-image
    run of the pasted mosaic.  Returns findings [(sev, key, message, replay)], counters and digests."""
    (case, var, exp, runs, scratch) = args
    repo.setup()
    import warnings
    warnings.simplefilter("ignore")
    import hashlib
    import tempfile
    import numpy as np
    res = []
    info = dict(nrun=0, digests={}, single=0, sched=[], gates=None)
    wd = tempfile.mkdtemp(prefix="g-", dir=scratch)
    rep = {"case": {k: case[k] for k in case if k != "subs"}, "subs": case["subs"], "order": var["perm"], "parities": var["pars"]}
    truth = truth_array(case)
    rec = file_records(case, var["perm"], var["pars"])
    rep["pack"], rep["blank"] = var.get("pack", "files"), case.get("blank")
    disps = [display_array(case, truth, k) for k in var["perm"]]
    paths, hdu_index = write_inputs(wd, case, var, rec, disps)
    plain_paths = None
    # ---- harness sanity against TLC's placement (the spec must recover the offsets the files were written for)
    for i, k in enumerate(var["perm"]):
        s = case["subs"][k]
        if (exp["ins"][i]["imin"], exp["ins"][i]["jmin"]) != (s["ox"], s["oy"]):
            return [("M", "", "TLC places input %d at %s, the files were written for %s" % (i, (exp["ins"][i]["imin"], exp["ins"][i]["jmin"]), (s["ox"], s["oy"])), rep)], info
    if (exp["w"], exp["h"]) != (case["W"], case["H"]) or exp["crpix"] != [case["r1"], case["r2"]]:
        return [("M", "", "TLC's global size / CRPIX %s %s differ from the decomposition's" % ((exp["w"], exp["h"]), exp["crpix"]), rep)], info
    E = expected_mosaic(exp, disps, truth.dtype)
    want = {}
    for fmt, rowkey in (("fits", "bu"), ("npy", "td")):
        want[fmt] = cut_tiles(exp["full"], E, rowkey)
        alt = paste_by_segments(exp, disps, truth.dtype, rowkey)
        for p in set(want[fmt]) | set(alt):
            a = want[fmt].get(p)
            b = alt.get(p)
            blank = np.full((T, T), np.nan, dtype=truth.dtype)
            if not same(a if a is not None else blank, b if b is not None else blank):
                return [("M", "", "TLC's cell table and TLC's per-input segment tables predict different tiles at %s" % (p,), rep)], info
    touched = {(x[0], y[0]) for ins in exp["ins"] for x in ins["xs"] for y in ins["ys"]}
    nt = 2 ** exp["lev"]
    untouched = sorted((x, y) for x in range(nt) for y in range(nt) if (x, y) not in touched)
    fl = exp["fields"]
    s = case["scale"]
    # TLC's integers: scale in pixels, offsets in half pixels; the tiled description expresses offsets in degrees, the untiled one in pixels
    ounit = s / 2.0 if fl["levels"] > 0 else 0.5
    spec_fields = {"tile_levels": fl["levels"], "base_degrees_per_tile": s * fl["scalepix"], "offset_x": ounit * fl["offx2"],
                   "offset_y": ounit * fl["offy2"], "center_x": case["crval"][0], "center_y": case["crval"][1]}
    # for runs whose paste order is not determined (workers) and inputs that disagree: one canvas per input
    canv = []
    if not case["agree"]:
        for ins, d in zip(exp["ins"], disps):
            c = np.full((exp["h"], exp["w"]), np.nan, dtype=truth.dtype)
            c[ins["jmin"]:ins["jmin"] + d.shape[0], ins["imin"]:ins["imin"] + d.shape[1]] = d
            canv.append(c)

    # ---- the single-image path on the pasted mosaic (once per tile format)
    single = {}
    for fmt in sorted({r["fmt"] for r in runs}):
        mp_ = os.path.join(wd, "mosaic-%s.fits" % fmt)
        mpar = "bottomup" if fmt == "fits" else "topdown"            # either storage parity of the mosaic file
        c2 = (2 * (exp["h"] + 1) - exp["crpix"][1]) if mpar == "bottomup" else exp["crpix"][1]
        write_fits(mp_, E, mpar, exp["crpix"][0], c2, case)
        so = os.path.join(wd, "single-" + fmt)
        try:
            sf, slev = run_single(mp_, so, fmt)
            st, sodd, _, scards = read_tiles(so, fmt, slev)
            single[fmt] = (sf, slev, st, scards)
            info["single"] += 1
        except Exception as e:  # noqa
            import traceback
            res.append(("D", "single", "the single-image study path failed on the pasted mosaic: %r %s" % (e, traceback.format_exc()[-300:]), rep))
    # ---- the multi-image runs
    for ri, run in enumerate(runs):
        fmt, mode = run["fmt"], run["mode"]
        mkey = {"serial": "serial", "sim": "scheduled", "procs": "processes", "cli": "cli", "cli-view": "cli"}[mode]
        key = "C09:multi_tan:%s" % mkey
        rrep = dict(rep, run=dict(run))
        out = os.path.join(wd, "out-%d" % ri)
        stale = untouched[0] if (run.get("stale") and untouched) else None
        info["nrun"] += 1
        try:
            if mode == "cli" and plain_paths is None:
                plain_paths, _ = write_inputs(wd, case, var, rec, disps, plain=True)
            r = run_multi(plain_paths if mode == "cli" else paths, out, fmt, mode, run.get("parallel", 1), run.get("policy"), run.get("seed", 0), stale,
                          hdu_index=hdu_index, blankval=case.get("blank"))
        except Exception as e:  # noqa
            import traceback
            res.append(("V", key + ":raised", "MultiTanProcessor (%s, %s tiles) raised %r on a valid collection (%s)" % (mkey, fmt, e, traceback.format_exc()[-400:]), rrep))
            continue
        if r["status"] == "limit":
            res.append(("D", key, "scheduled run stopped at the step limit under %s (%s)" % (run.get("policy"), r["note"]), rrep))
            continue
        if r["status"] not in ("ok", "returned"):
            res.append(("V", key + ":no-result", "tile(parallel=%s) under %s ended as %s: %s" % (run.get("parallel"), run.get("policy") or mode, r["status"], r["note"]), rrep))
            continue
        if mode == "sim":
            info["sched"].append(r["sched"])
            info["gates"] = r["gates"]
            if r.get("alive"):
                res.append(("V", key + ":workers-alive", "tile() returned while workers %s were running" % (r["alive"],), rrep))
        if mode in ("cli", "cli-view"):
            fields = wtml_fields(r["wtml"])
            lev = int(fields["tile_levels"])
        else:
            fields, lev = r["fields"], r["lev"]
        got, odd, locks, cards = read_tiles(r.get("outdir", out), fmt, lev)
        if mode == "cli-view":
            odd = []                                            # `view` also builds the shallower levels
        # (1) tiles against TLC's expectation and against the single-image run
        if mode in ("sim", "procs") and not case["agree"]:
            ok = False
            weak_compare(got, fmt, exp, E, canv, "%s run, %s tiles" % (mkey, fmt), res, key + ":tiles", rrep)
        else:
            ok = compare_tiles(got, want[fmt], "%s run, %s tiles, against the paste predicted by the specification" % (mkey, fmt), res, key + ":tiles", rrep)
        if fmt in single and ok:
            sgl = {p: np.full((T, T), np.nan, dtype=truth.dtype) for p in want[fmt]}
            sgl.update(single[fmt][2])
            compare_tiles(got, sgl,
                          "%s run, %s tiles, against the single-image tiling of the pasted mosaic" % (mkey, fmt), res, key + ":tiles", rrep)
        if fmt == "fits":
            strict = ok and fmt in single
            compare_cards(cards, want[fmt] if ok else got, single[fmt][3] if strict else None,
                          "%s run, fits tiles" % mkey, res, key + ":tile-range", rrep)
        if odd:
            res.append(("V", key + ":tiles", "files outside the deepest level were written: %s" % (odd[:4],), rrep))
        # (2) lock files
        if locks:
            res.append(("V", key + ":locks", "%d lock file(s) remain after tile() returned: %s%s" % (len(locks), locks[:3],
                        " (one was left by an interrupted earlier run)" if stale else ""), rrep))
        # (3) the astrometric description
        for f in FIELDS:
            if f in spec_fields and field_diff(f, fields[f], spec_fields[f]) > TOL:
                res.append(("V", "C09:multi_tan:fields", "%s = %r, the specification gives %r (levels %d, scale %d px, offsets %d/2, %d/2 px)"
                            % (f, fields[f], spec_fields[f], fl["levels"], fl["scalepix"], fl["offx2"], fl["offy2"]), rrep))
                break
        if fmt in single:
            sf = single[fmt][0]
            for f in FIELDS:
                if field_diff(f, fields[f], sf[f]) > TOL:
                    res.append(("V", "C09:multi_tan:fields", "%s = %r for the collection, %r for the pasted mosaic tiled as one image" % (f, fields[f], sf[f]), rrep))
                    break
        h = hashlib.sha1()
        for p in sorted(got):
            h.update(repr(p).encode())
            view = got[p] if fmt == "npy" else got[p][::-1]             # display orientation
            h.update(np.ascontiguousarray(view, dtype=np.float64).tobytes())   # (FITS arrays are big-endian)
        info["digests"][ri] = h.hexdigest()
    import shutil
    shutil.rmtree(wd, ignore_errors=True)
    return res, info


def probe_cdelt_mixed(d):
    import numpy as np
    from astropy.io import fits
    from astropy.wcs import WCS
    from toasty import multi_tan, collection, pyramid, builder
    out = {}
    for pars in (("bottomup", "bottomup"), ("topdown", "topdown"), ("topdown", "bottomup")):
        paths = []
        for i, par in enumerate(pars):
            w = WCS(naxis=2)
            w.wcs.ctype = ["RA---TAN", "DEC--TAN"]
            w.wcs.crval = [10.0, 20.0]
            c2 = 81 - 30 * i
            w.wcs.cdelt = [-1e-3, 1e-3 if par == "bottomup" else -1e-3]
            w.wcs.crpix = [101 - 50 * i, (100 + 1 - c2) if par == "bottomup" else c2]
            p = os.path.join(d, "%s-%d.fits" % ("".join(x[0] for x in pars), i))
            fits.PrimaryHDU(data=np.ones((100, 120), dtype=np.float32), header=w.to_header()).writeto(p, overwrite=True)
            paths.append(p)
        try:
            proc = multi_tan.MultiTanProcessor(collection.SimpleFitsCollection(paths))
            proc.compute_global_pixelization(builder.Builder(pyramid.PyramidIO(os.path.join(d, "o"), default_format="fits")))
            out["+".join(pars)] = "accepted"
        except Exception as e:  # noqa
            out["+".join(pars)] = "refused: %s" % (str(e).replace(d + os.sep, "")[:140],)
    return {"what": "two files of one grid whose WCS uses CDELT/PC keywords (not a CD matrix)", "outcome": out}


# ------------------------------------------------------------------------------------------------

class Background(object):
    def __init__(self):
        self.threads, self.results, self.errors = [], {}, {}

    def start(self, name, fn):
        def body():
            try:
                self.results[name] = fn()
            except BaseException as e:  # noqa
                self.errors[name] = e
        t = threading.Thread(target=body, daemon=True)
        t.start()
        self.threads.append(t)

    def join(self):
        for t in self.threads:
            t.join()
        for name, e in self.errors.items():
            raise e


_JVMS = {"sem": None}


def tlc(ctx, module, **kw):
    """ctx.tlc with a bounded heap (the JVM otherwise claims a quarter of the machine's memory per run and several model
    checkers run side by side) and, in the thorough tier, at most four JVMs at a time."""
    if _JVMS["sem"] is None:
        _JVMS["sem"] = threading.BoundedSemaphore(8 if ctx.quick else 4)
    kw.setdefault("jvm_opts", ["-Xmx2g" if ctx.quick else "-Xmx3g"])
    with _JVMS["sem"]:
        return ctx.tlc(module, **kw)


def _noop(_):
    return os.getpid()


def report(ctx, res):
    for sev, key, msg, rep in res:
        if sev == "M":
            ctx.machinery(msg + " %s" % (rep,))
        elif sev == "V":
            ctx.violation(key, msg, rep)
        else:
            ctx.drift(msg)


def replay_only(ctx):
    """--replay FILE: re-run the recorded (decomposition, order, parities, run); TLC computes its expectation afresh."""
    rec = (json.load(open(ctx.replay_path)).get("replay") or {})
    if "a" in rec and "b" in rec:
        case = rec["case"]
        todo = [(rec["a"][0], [rec["a"][1]]), (rec["b"][0], [rec["b"][1]])]
    elif "subs" in rec:
        case = dict(rec["case"], subs=rec["subs"])
        todo = [(dict(perm=rec["order"], pars=rec["parities"]), [rec.get("run") or dict(fmt="fits", mode="serial")])]
    else:
        ctx.machinery("replay file %s carries no case" % ctx.replay_path)
    recs = [file_records(case, var["perm"], var["pars"]) for var, _runs in todo]
    outp = os.path.join(ctx.scratch, "real.json")
    tlc(ctx, "MCReal", extra={"MCReal.tla": real_module(recs)}, cfg_text=REAL_CFG, env={"OUT": outp}, workers=1, timeout=3000, count=False)
    exps = json.load(open(outp))
    digests = []
    for (var, runs), exp in zip(todo, exps):
        res, info = replay_group((case, var, exp, runs, ctx.scratch))
        report(ctx, res)
        ctx.count(info["nrun"] + info["single"])
        ctx.trace_ok(info["nrun"])
        digests += list(info["digests"].values())
    if len(todo) == 2 and case["agree"] and len(set(digests)) > 1:
        ctx.violation("C09:multi_tan:order-parity-workers", "the two recorded runs of one decomposition give different deepest-level tiles", rec)
    ctx.note("replayed_case", {"mosaic": [case["W"], case["H"]], "runs": [r for _v, runs in todo for r in runs]})


def run(ctx):
    repo.setup(ctx)
    import multiprocessing as mp
    import warnings
    warnings.simplefilter("ignore")
    import filelock
    rng, quick = ctx.rng, ctx.quick
    ctx.rule = ("abstract: TLC explores SpecPaste over every two-input decomposition of mosaics up to 3 x 2 (thorough: 4 x 3) at tile size 2 plus seeded "
                "decompositions (2-4 inputs, undefined borders and holes, tile sizes 2-4) x every storage-parity assignment x both tile "
                "parities x every input order, and SpecPar over all interleavings of 2 workers; real: seeded and critical-size "
                "decompositions are handed to TLC, which evaluates the TS = 256 operators and theorems for exactly those file sets; each "
                "(decomposition, order, parities) is then run through the real code (serial fits/npy, scheduled, processes, CLI) and "
                "compared with TLC's expectation and with the real single-image tiling of the pasted mosaic. distinct = distinct "
                "(decomposition, order, parities, tile format, mode, schedule); non-trivial = at least two inputs share a tile")
    ctx.note("filelock_version", getattr(filelock, "__version__", "?"))
    if ctx.replay_path:
        return replay_only(ctx)

    # ---- the pool is forked before this process has threads
    pool = cf.ProcessPoolExecutor(max_workers=8, mp_context=mp.get_context("fork"))
    list(pool.map(_noop, range(16)))

    # ---- real cases -> TLC (TS = 256)
    cases = real_cases(rng, quick)
    groups = []
    for ci, case in enumerate(cases):
        for var in variants(case, rng, quick):
            groups.append((ci, var))
    recs = [file_records(cases[ci], var["perm"], var["pars"]) for ci, var in groups]
    bg = Background()
    outp = os.path.join(ctx.scratch, "real.json")
    bg.start("real", lambda: tlc(ctx, "MCReal", extra={"MCReal.tla": real_module(recs)}, cfg_text=REAL_CFG, env={"OUT": outp},
                                     workers=1, timeout=3000, count=False))
    # ---- abstract state machines (--real-only: development switch, skips them)
    fam, par = abstract_sets(rng, quick)
    real_only = "--real-only" in (getattr(ctx, "extra_args", None) or [])
    if real_only:
        fam = {}
        ctx.note("real_only", True)
    for name, (ts, lits, ntiny) in sorted(fam.items()):
        bg.start(name, (lambda name=name, ts=ts, lits=lits: tlc(ctx, "MC_" + name.replace("-", "_"),
                 extra={"MC_%s.tla" % name.replace("-", "_"): mc_decomps("MC_" + name.replace("-", "_"), lits)},
                 cfg_text=PASTE_CFG % ts, workers=3 if quick else 4, timeout=7200)))
    if not real_only:
        bg.start("par", lambda: tlc(ctx, "MCPar", extra={"MCPar.tla": mc_decomps("MCPar", par)},
                                        cfg_text=PAR_CFG % (2, "TRUE", "TRUE", "PROPERTY Returns"), workers=3 if quick else 6, timeout=7200))
        # a lock that leaves its file behind when released: the clean-up is what empties the directory
        bg.start("par-keepfile", lambda: tlc(ctx, "MCParK", extra={"MCParK.tla": mc_decomps("MCParK", par[-1:] if quick else par[-4:])},
                                                 cfg_text=PAR_CFG % (2, "TRUE", "FALSE", ""), workers=1, timeout=3000))
        # without the lock the design loses contributions: TLC must say so
        bg.start("par-nolock", lambda: tlc(ctx, "MCParN", extra={"MCParN.tla": mc_decomps("MCParN", par[-1:])},
                                               cfg_text=PAR_CFG % (2, "FALSE", "TRUE", ""), workers=1, timeout=3000,
                                               expect_violation=True, count=False))
        if not quick:
            bg.start("par3", lambda: tlc(ctx, "MCPar3", extra={"MCPar3.tla": mc_decomps("MCPar3", par[-8:])},
                                             cfg_text=PAR_CFG % (3, "TRUE", "TRUE", "PROPERTY Returns"), workers=6, timeout=7200))
    ctx.note("abstract_models", {n: {"TS": v[0], "decompositions": len(v[1])} for n, v in fam.items()})
    if not real_only:
        ctx.note("abstract_exhaustive_part", "every decomposition of every mosaic up to %s into two border-free sub-images (%d), x 4 storage-parity "
                 "assignments x 2 tile parities x both orders" % ("3 x 2" if quick else "4 x 3", fam["tiny-ts2"][2]))

    # wait for the TS = 256 expectations only
    bg.threads[0].join()
    if "real" in bg.errors:
        pool.shutdown(cancel_futures=True)
        bg.join()
    exps = json.load(open(outp))
    if len(exps) != len(groups):
        ctx.machinery("TLC returned %d expectations for %d cases" % (len(exps), len(groups)))
    ctx.note("real_cases", {"decompositions": len(cases), "order_parity_variants": len(groups)})

    # ---- run plan per group
    pols = list(SIM_POLICIES)
    tasks = []
    nsim = nprocs = nview = 0
    seen_case = set()
    for gi, ((ci, var), exp) in enumerate(zip(groups, exps)):
        case = cases[ci]
        first = ci not in seen_case
        seen_case.add(ci)
        runs = [dict(fmt=var["fmt"], mode="serial")]
        if first:
            runs.append(dict(fmt="npy" if var["fmt"] == "fits" else "fits", mode="serial", stale=True))
        n = len(case["subs"])
        shared = len({(x[0], y[0]) for ins in exp["ins"] for x in ins["xs"] for y in ins["ys"]}) < sum(len(ins["xs"]) * len(ins["ys"]) for ins in exp["ins"])
        if first and shared and (case["tag"] in ("one-tile", "critical", "wide", "tall", "full-tile", "asym-band") or not quick):
            k = 4 if case["tag"] == "one-tile" else (2 if quick else 6)
            for j in range(k):
                runs.append(dict(fmt="fits" if j % 3 else "npy", mode="sim", parallel=2 + (j % 2 if n > 2 else 0), policy=pols[(nsim + j) % len(pols)],
                                 seed=rng.randrange(1 << 30)))
            nsim += k
        if first and shared and (nprocs < (3 if quick else 12)) and case["tag"] in ("one-tile", "wide", "critical", "big", "full-tile"):
            runs.append(dict(fmt="fits", mode="procs", parallel=2 + nprocs % 2))
            nprocs += 1
        if first and case["tag"] == "tall":
            runs.append(dict(fmt="fits", mode="cli"))
        if var["pack"] in ("mef", "mixed") and case["blank"] is not None and nview < (2 if quick else 12) and case["W"] * case["H"] < 400000:
            runs.append(dict(fmt="fits", mode="cli-view"))
            nview += 1
        tasks.append((case, var, exp, runs, ctx.scratch))
    # long groups first
    order = sorted(range(len(tasks)), key=lambda i: -sum({"procs": 40, "sim": 6, "cli": 3}.get(r["mode"], 1) for r in tasks[i][3]))
    futs = {i: pool.submit(replay_group, tasks[i]) for i in order}
    results = {}
    for i in range(len(tasks)):
        try:
            results[i] = futs[i].result(timeout=3000)
        except Exception as e:  # noqa
            pool.shutdown(cancel_futures=True)
            bg.join()
            ctx.machinery("replay worker failed on group %d: %r %s" % (i, e, str(getattr(e, "__cause__", "") or "")[-1500:]))
    pool.shutdown()
    bg.join()
    if not real_only and bg.results["par-nolock"].violated != "NoContributionLost":
        ctx.machinery("without the lock the specification should lose a contribution (TLC said %r)" % (bg.results["par-nolock"].violated,))

    # ---- verdicts
    by_case = {}
    gates_seen = None
    for i, (case, var, exp, runs, _s) in enumerate(tasks):
        res, info = results[i]
        ci = groups[i][0]
        report(ctx, res)
        ctx.count(info["nrun"] + info["single"])
        ctx.trace_ok(info["nrun"])
        shared = len({(x[0], y[0]) for ins in exp["ins"] for x in ins["xs"] for y in ins["ys"]}) < sum(len(ins["xs"]) * len(ins["ys"]) for ins in exp["ins"])
        for ri, run in enumerate(runs):
            if shared:
                ctx.distinct((ci, tuple(var["perm"]), tuple(var["pars"]), run["fmt"], run["mode"], run.get("policy"), run.get("seed")))
            if ri in info["digests"] and not run["mode"].startswith("cli"):
                by_case.setdefault(ci, []).append((info["digests"][ri], var, run))
        if info["gates"] is not None:
            gates_seen = info["gates"] if gates_seen is None else sorted(set(gates_seen) | set(info["gates"]))
    # the sentences about order / parity / worker count, stated directly: where overlapping inputs agree every run of a
    # decomposition gives the same display-orientation tiles
    for ci, lst in by_case.items():
        if cases[ci]["agree"] and len({d for d, _v, _r in lst}) > 1:
            a = lst[0]
            b = [x for x in lst if x[0] != a[0]][0]
            ctx.violation("C09:multi_tan:order-parity-workers", "the same decomposition gives different deepest-level tiles for (order %s, parities %s, %s %s) and "
                          "(order %s, parities %s, %s %s)" % (a[1]["perm"], a[1]["pars"], a[2]["mode"], a[2]["fmt"], b[1]["perm"], b[1]["pars"], b[2]["mode"], b[2]["fmt"]),
                          {"case": cases[ci], "a": [a[1], a[2]], "b": [b[1], b[2]]})
    if nsim and gates_seen is not None and sorted(gates_seen) != ["lock", "read", "write"]:
        ctx.drift("update_image no longer passes through SoftFileLock._acquire / PyramidIO.read_image / write_image (scheduling points seen: %s): "
                  "the scheduled runs interleave less finely" % (gates_seen,))
    ctx.note("runs", {"groups": len(tasks), "serial": sum(1 for t in tasks for r in t[3] if r["mode"] == "serial"), "scheduled": nsim,
                      "processes": nprocs, "cli": sum(1 for t in tasks for r in t[3] if r["mode"].startswith("cli")),
                      "distinct_schedules": len({s for i in results for s in results[i][1]["sched"]})})
    for i in (0, len(tasks) // 2):
        case, var, exp, runs, _s = tasks[i]
        ctx.sample({"mosaic": [case["W"], case["H"]], "subs": case["subs"], "order": var["perm"], "parities": var["pars"], "agree": case["agree"],
                    "tlc": {"levels": exp["lev"], "gx0": exp["gx0"], "gy0": exp["gy0"], "crpix_x2": exp["crpix"], "fields": exp["fields"],
                            "placement": [[i_["imin"], i_["jmin"]] for i_ in exp["ins"]], "input0_xsegs": exp["ins"][0]["xs"],
                            "cell_winners": exp["cells"]["win"][:6]}, "runs": runs})
    # ---- observed, not judged (the property does not quantify over header representations): the same grid written with
    # CDELT/PC keywords instead of a CD matrix, one file top-down and one bottom-up
    try:
        ctx.note("observed_outside_property", probe_cdelt_mixed(ctx.mkdtemp("probe")))
    except Exception as e:  # noqa
        ctx.note("observed_outside_property", "probe failed: %r" % (e,))
    ctx.assume("the queue hands every input to exactly one worker (C03) and SoftFileLock excludes by file existence (C10); the scheduled runs use "
               "threads for processes with lock / read / write of update_image as the interleaving points")
    ctx.assume("inputs are float images (NaN = undefined) whose WCS is written as a CD matrix; integer and RGBA update rules are C15's")
    ctx.assume("a lock file left at an untouched deepest-level position by an interrupted earlier run counts for 'no lock files remain afterwards'")
