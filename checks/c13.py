"""C13 - quadtree enumeration and tile counts are consistent and match what is visited.

Spec: spec/Quadtree.tla (relations, generator) + spec/Reduce.tla (generator flavours, reduction iterator,
the four reductions).  TLC (a) checks the relation theorems for every position to a depth bound and for
seeded deep positions, (b) explores the iterator state machine exhaustively over a set of pyramid
configurations (kind x filter x apex), checking AssertsHold / DoneOK / StackShape in every state, and emits
for every configuration the terminal history.  Binding (spec -> code): every emitted configuration is
built as a real Pyramid and the real generator, iterator (with tokens that expose slot placement), counts,
leaf visit and serial walk are compared with the spec's history.
"""
import itertools
import json
import os
import random

from lib import repo, tla

ROOT = (0, 0, 0)


def kids(p):
    n, x, y = p
    return [(n + 1, 2 * x + (i % 2), 2 * y + (i // 2)) for i in range(4)]


def parent(p):
    return (p[0] - 1, p[1] // 2, p[2] // 2)


def level(n):
    return [(n, x, y) for y in range(2 ** n) for x in range(2 ** n)]


def random_accept(rng, depth, style):
    """A user filter as the set of accepted positions (only the part reachable from the root matters)."""
    acc = set()
    if style == "pertile":      # depth-2 family: each level-1 tile rejected, or accepted with a subset of its kids
        for t in level(1):
            if rng.random() < 0.8:
                acc.add(t)
                for k in kids(t):
                    if rng.random() < 0.55:
                        acc.add(k)
        return frozenset(acc)
    pr = {"sparse": 0.45, "dense": 0.85, "mid": 0.65}[style]
    frontier = [t for t in level(1)]
    while frontier:
        nxt = []
        for t in frontier:
            if rng.random() < pr:
                acc.add(t)
                if t[0] < depth:
                    nxt.extend(kids(t))
        frontier = nxt
    return frozenset(acc)


def d2_all_filters():
    """All 17^4 effective depth-2 filters (thorough tier)."""
    per = []
    for t in level(1):
        opts = [frozenset()]
        ks = kids(t)
        for r in range(5):
            for sub in itertools.combinations(ks, r):
                opts.append(frozenset((t,) + sub))
        per.append(opts)
    for combo in itertools.product(*per):
        yield frozenset().union(*combo)


def mc_module(depth, accepts, apexes, kinds, theorem_depth):
    defs = [
        ("MCAccept", tla.lit(set(accepts))),
        ("MCApex", tla.lit(set(apexes))),
        ("MCKinds", tla.lit(set(kinds))),
        'Emit == phase = "done" => PrintT(<<"R", ToJson([kind |-> kind, acc |-> acc, apex |-> apex, out |-> out, final |-> final])>>)',
    ]
    if theorem_depth:
        defs.append("ASSUME RelationsAgree(%d) /\\ GeneratePosOK(%d)" % (theorem_depth, min(theorem_depth, 3)))
    return tla.module("MCReduce", ["Reduce", "Json"], defs)


CFG = """SPECIFICATION Spec
CONSTANTS
 Depth = %d
 AcceptSets <- MCAccept
 Apexes <- MCApex
 Kinds <- MCKinds
INVARIANT AssertsHold
INVARIANT DoneOK
INVARIANT StackShape
INVARIANT Emit
CHECK_DEADLOCK FALSE
"""


# ------------------------------------------------------------------------------------------------
# replay of one emitted configuration into the real code (runs in pool workers)
# ------------------------------------------------------------------------------------------------

def _build(kind, depth, acc, apex, use_plain_toast=False):
    from toasty.pyramid import Pyramid, Pos
    if kind == "generic":
        p = Pyramid.new_generic(depth)
    elif use_plain_toast:
        p = Pyramid.new_toast(depth)
    else:
        p = Pyramid.new_toast_filtered(depth, lambda t: tuple(t.pos) in acc)
    if apex != ROOT:
        p = p.subpyramid(Pos(*apex))
    return p


PAR_FRACTION = 16        # one case in PAR_FRACTION (all cases with a gap tile) is also visited with two workers
_GEO_CENTRES = {}


def _centre_key(corners):
    import numpy as np
    c = np.array([[float(p_[0]), float(p_[1])] for p_ in corners])
    v = np.stack([np.cos(c[:, 1]) * np.cos(c[:, 0]), np.cos(c[:, 1]) * np.sin(c[:, 0]), np.sin(c[:, 1])], axis=1).sum(axis=0)
    v /= np.linalg.norm(v)
    return tuple(int(round(float(t) * 1e7)) for t in v)


def _geo_filters(depth, acc):
    """The position filter `acc` lifted to geometry, once per coordinate system: a tile is accepted iff the centre of the
    corners it is shown with is the centre of an accepted position of its level IN THAT coordinate system (reference
    geometry: create_single_tile, judged by C04)."""
    from toasty import toast
    from toasty.pyramid import Pos
    out = []
    for csname, cs in (("astronomical", toast.ToastCoordinateSystem.ASTRONOMICAL), ("planetary", toast.ToastCoordinateSystem.PLANETARY)):
        table = _GEO_CENTRES.setdefault((csname, depth), {})
        if not table:
            for n in range(1, depth + 1):
                for q_ in level(n):
                    table[(n, _centre_key(toast.create_single_tile(Pos(*q_), coordsys=cs).corners))] = tuple(q_)

        def flt(tile, table=table):
            q_ = table.get((tile.pos.n, _centre_key(tile.corners)))
            return q_ is not None and q_ in acc
        out.append((csname, {"filter": flt, "cs": cs}))
    return out


def replay_case(args):
    """Returns a list of (severity, key, message); severity 'V' = property monitor failed, 'D' = drift."""
    depth, rec = args
    repo.setup()
    import io
    import contextlib
    from toasty.pyramid import Pos
    kind = rec["kind"]
    acc = frozenset(tuple(p) for p in rec["acc"])
    apex = tuple(rec["apex"])
    out = rec["out"]
    fin = rec["final"]
    full = all(tuple(q) in acc for n in range(1, depth + 1) for q in level(n))
    plain = kind == "toast" and full and apex == ROOT
    res = []
    case = {"kind": kind, "depth": depth, "acc": sorted(acc), "apex": apex}

    def bad(sev, key, msg):
        res.append((sev, "%s:%s" % (kind, key), msg, case))

    exp_pos = [tuple(o["pos"]) for o in out]
    exp_leaves = [tuple(o["pos"]) for o in out if o["leaf"]]
    exp_ops = [tuple(o["pos"]) for o in out if (not o["leaf"]) and o["val"]["wk"]]
    # (0) the child relation asked for as a user would, who then uses the returned list as his own (a stack-based traversal
    # pops from it): the relation must be the documented one now and for everybody who asks later in this process
    from toasty import pyramid as _pyr
    for n_ in range(min(depth, 2) + 1):
        for q_ in level(n_):
            got_k = _pyr.pos_children(Pos(*q_))
            if [tuple(k) for k in got_k] != kids(q_):
                bad("V", "pos-children", "pos_children(%s) = %s, documented order %s" % (q_, [tuple(k) for k in got_k], kids(q_)))
            if isinstance(got_k, list):
                got_k.reverse()
                del got_k[1:]
    sink = io.StringIO()
    with contextlib.redirect_stdout(sink):
        # (1) the iterator, with tokens: set_data(i) for the i-th item; child_data must be the tokens of the kids
        p = _build(kind, depth, acc, apex, plain)
        token = {}
        got = []
        try:
            riter = p._make_iter_reducer(default_value=-1)
            i = 0
            for pos, tile, is_leaf, data in riter:
                pt = tuple(pos)
                got.append(pt)
                if kind == "toast" and tile is not None and tuple(tile.pos) != pt:
                    bad("V", "generator-tile-pos", "generator paired position %s with the tile of %s" % (pt, tuple(tile.pos)))
                if kind == "toast" and tile is None and pt != ROOT:
                    bad("V", "generator-tile-missing", "no tile geometry delivered for %s" % (pt,))
                if i < len(out):
                    o = out[i]
                    if is_leaf != o["leaf"]:
                        bad("V", "iterator-leaf-flag", "is_leaf=%s for %s, expected %s" % (is_leaf, pt, o["leaf"]))
                    expd = [token.get(k, -1) for k in kids(pt)]
                    if list(data) != expd:
                        bad("D", "iterator-child-data", "child data of %s is %s, expected the children's values %s" % (pt, list(data), expd))
                    if len(riter._levels) != o["nlev"]:
                        bad("D", "levels-depth", "stack depth %d after %s, spec %d" % (len(riter._levels), pt, o["nlev"]))
                token[pt] = i
                riter.set_data(i)
                i += 1
            if got != exp_pos:
                bad("V", "enumeration", "iterator visited %s, expected %s" % (got, exp_pos))
            else:
                r = riter.result()
                exp_r = (len(out) - 1) if (out and exp_pos[-1] == apex) else -1
                if r != exp_r:
                    bad("V", "iterator-result", "result() = %r, expected %r" % (r, exp_r))
        except AssertionError as e:
            bad("V", "iterator-assert", "iterator assertion failed after %s: %r" % (got[-3:], e))
        # (2) counts
        for name, key in (("count_leaf_tiles", "lf"), ("count_live_tiles", "lv"), ("count_operations", "op")):
            p = _build(kind, depth, acc, apex, plain)
            try:
                v = getattr(p, name)()
            except Exception as e:  # noqa
                bad("V", name, "%s raised %r" % (name, e))
                continue
            if v != fin[key] and not (exp_pos == [] and v == 0):
                bad("V", name, "%s() = %r, spec %r" % (name, v, fin[key]))
        # (3) leaf visit and serial walk
        p = _build(kind, depth, acc, apex, plain)
        seen = []
        tiles_ok = True

        def leaf_cb(pos, tile):
            seen.append(tuple(pos))
            if kind == "toast" and depth > 0 and (tile is None or tuple(tile.pos) != tuple(pos)):
                bad("V", "leaf-geometry", "leaf %s delivered with tile %r" % (tuple(pos), tile and tuple(tile.pos)))
        try:
            p.visit_leaves(leaf_cb, parallel=1)
            if seen != exp_leaves:
                bad("V", "visit-leaves-serial", "visited leaves %s, expected %s" % (seen, exp_leaves))
        except Exception as e:  # noqa
            bad("V", "visit-leaves-serial", "visit_leaves raised %r" % (e,))
        p = _build(kind, depth, acc, apex, plain)
        walked = []
        try:
            p.walk(lambda pos: walked.append(tuple(pos)), parallel=1)
            if walked != exp_ops:
                bad("V", "walk-serial", "walk called back for %s, expected %s" % (walked, exp_ops))
        except Exception as e:  # noqa
            bad("V", "walk-serial", "walk raised %r" % (e,))
        # (3a) the same visits with worker processes (deterministic scheduler): the SET of tiles visited is the one counted.
        # Cases with a "gap" (a tile the filter accepts while it rejects all four children) on the level above the leaves,
        # where a parallel walk seeds its queue, are always taken; of the others, a fixed fraction
        gap = any(q_[0] == depth - 1 and q_ in acc and not any(k in acc for k in kids(q_)) for q_ in acc) if depth >= 2 else False
        if depth >= 1 and (gap or (hash((kind, tuple(sorted(acc)), apex)) % PAR_FRACTION == 0)):
            from lib import simrun
            for what, expv in (("walk", exp_ops), ("visit_leaves", exp_leaves)):
                p = _build(kind, depth, acc, apex, plain)
                got2 = []
                if what == "walk":
                    fn = lambda: p.walk(lambda pos: got2.append(tuple(pos)), parallel=2)      # noqa: E731
                else:
                    fn = lambda: p.visit_leaves(lambda pos, tile: got2.append(tuple(pos)), parallel=2)      # noqa: E731
                o2 = simrun.run(fn, simrun.pol_random(random.Random(len(acc) * 7919 + depth)))
                if o2.status == "returned" and sorted(got2) != sorted(expv):
                    extra = sorted(set(got2) - set(expv))
                    bad("V", "%s-parallel" % what, "%s with 2 workers visited %d tiles, spec %d (not in the spec's set: %s; missing: %s)"
                        % (what, len(got2), len(expv), extra[:4], sorted(set(expv) - set(got2))[:4]))
                elif o2.status != "returned" and expv:
                    bad("D", "%s-parallel" % what, "%s with 2 workers ended as %s under the scheduler (C01 / C03 judge termination)" % (what, o2.status))
        # (3a'') the filter given as a callable OBJECT that happens to be falsy (a collection of footprint boxes, empty or not,
        # whose __call__ decides by position): "no filter" is `None`, nothing else
        if kind == "toast" and not plain and apex == ROOT:
            class Boxes(list):
                def __call__(self, tile):
                    return tuple(tile.pos) in acc
            from toasty.pyramid import Pyramid as _P
            for name, key in (("count_leaf_tiles", "lf"), ("count_live_tiles", "lv"), ("count_operations", "op")):
                try:
                    v = getattr(_P.new_toast_filtered(depth, Boxes()), name)()
                except Exception as e:  # noqa
                    bad("V", "falsy-filter:" + name, "[filter = an empty list subclass with __call__] %s raised %r" % (name, e))
                    continue
                if v != fin[key] and not (exp_pos == [] and v == 0):
                    bad("V", "falsy-filter:" + name, "[filter = a callable object whose truth value is False] %s() = %r, spec %r" % (name, v, fin[key]))
        # (3b) the same filter decided from the tile's GEOMETRY (as footprint filters do) in each coordinate system: the
        # pyramid must show its filter tiles of its own coordinate system everywhere - counts, leaf visits and walks
        if kind == "toast" and not plain and depth >= 1:
            for csname, geo in _geo_filters(depth, acc):
                def build():
                    from toasty.pyramid import Pyramid
                    q_ = Pyramid.new_toast_filtered(depth, geo["filter"], coordsys=geo["cs"])
                    return q_.subpyramid(Pos(*apex)) if apex != ROOT else q_
                for name, key in (("count_leaf_tiles", "lf"), ("count_live_tiles", "lv"), ("count_operations", "op")):
                    try:
                        v = getattr(build(), name)()
                    except Exception as e:  # noqa
                        bad("V", "geometry-filter:" + name, "[%s, filter deciding from tile corners] %s raised %r" % (csname, name, e))
                        continue
                    if v != fin[key] and not (exp_pos == [] and v == 0):
                        bad("V", "geometry-filter:" + name, "[%s pyramid, filter deciding from the tile's corners] %s() = %r, spec %r" % (csname, name, v, fin[key]))
                seen2, walked2 = [], []
                try:
                    build().visit_leaves(lambda pos, tile: seen2.append(tuple(pos)), parallel=1)
                    build().walk(lambda pos: walked2.append(tuple(pos)), parallel=1)
                    if seen2 != exp_leaves:
                        bad("V", "geometry-filter:visit-leaves", "[%s pyramid, filter deciding from the tile's corners] visited %d leaves, spec %d" % (csname, len(seen2), len(exp_leaves)))
                    if walked2 != exp_ops:
                        bad("V", "geometry-filter:walk", "[%s pyramid, filter deciding from the tile's corners] walk called back for %s, spec %s" % (csname, walked2, exp_ops))
                except Exception as e:  # noqa
                    bad("V", "geometry-filter:visit", "[%s pyramid, filter deciding from the tile's corners] visit raised %r" % (csname, e))
        # (4) the generator itself: every in-scope position once, children first, tile paired with its position
        p = _build(kind, depth, acc, apex, plain)
        g = [tuple(pos) for pos, _t in p._generator()]
        if len(set(g)) != len(g):
            bad("V", "generator-dup", "generator yielded a position twice: %s" % (g,))
        cut = [q for q in g if q[0] >= apex[0]] if g and all(q[0] >= apex[0] for q in g[:len(exp_pos)]) else g
        if g[:len(exp_pos)] != exp_pos:
            bad("V", "generator-order", "generator yields %s..., spec %s" % (g[:len(exp_pos) + 2], exp_pos))
    return res, len(exp_pos), (kind, tuple(sorted(acc)), apex)


def replay_history(args):
    """One Pyramid OBJECT used through a history: depth changed in between (the attribute is documented as changeable).
    Every count / visit after the change must be the one the spec gives for the new depth."""
    recs = args            # list of (depth, rec) for the same (kind, filter, apex), different depths
    repo.setup()
    import io
    import contextlib
    d0, r0 = recs[0]
    kind = r0["kind"]
    acc = frozenset(tuple(p) for p in r0["acc"])
    apex = tuple(r0["apex"])
    res = []
    sink = io.StringIO()
    with contextlib.redirect_stdout(sink):
        p = _build(kind, d0, acc, apex)
        order = [recs[0], recs[1], recs[0], recs[1]]
        for step, (d, rec) in enumerate(order):
            p.depth = d
            fin = rec["final"]
            out = rec["out"]
            case = {"kind": kind, "acc": sorted(acc), "apex": apex, "history": [x[0] for x in order[:step + 1]]}
            exp_leaves = [tuple(o["pos"]) for o in out if o["leaf"]]
            exp_ops = [tuple(o["pos"]) for o in out if (not o["leaf"]) and o["val"]["wk"]]
            for name, key in (("count_leaf_tiles", "lf"), ("count_live_tiles", "lv"), ("count_operations", "op")):
                try:
                    v = getattr(p, name)()
                except Exception as e:  # noqa
                    res.append(("V", "%s:history:%s" % (kind, name), "%s raised %r after the depth was changed to %d" % (name, e, d), case))
                    continue
                if v != fin[key] and not (not out and v == 0):
                    res.append(("V", "%s:history:%s" % (kind, name), "after depth changes %s on one Pyramid object, %s() = %r, spec %r" % (case["history"], name, v, fin[key]), case))
            seen = []
            try:
                p.visit_leaves(lambda pos, tile: seen.append(tuple(pos)), parallel=1)
                if seen != exp_leaves:
                    res.append(("V", "%s:history:visit-leaves" % kind, "after depth changes %s visit_leaves gives %d leaves, spec %d" % (case["history"], len(seen), len(exp_leaves)), case))
            except Exception as e:  # noqa
                res.append(("V", "%s:history:visit-leaves" % kind, "visit_leaves raised %r" % (e,), case))
            walked = []
            try:
                p.walk(lambda pos: walked.append(tuple(pos)), parallel=1)
                if walked != exp_ops:
                    res.append(("V", "%s:history:walk" % kind, "after depth changes %s walk calls back for %d tiles, spec %d" % (case["history"], len(walked), len(exp_ops)), case))
            except Exception as e:  # noqa
                res.append(("V", "%s:history:walk" % kind, "walk raised %r" % (e,), case))
    return res


def algebra_samples(rng, n, maxdepth):
    cases = []
    for _ in range(n):
        d = rng.randint(1, maxdepth)
        x = rng.randrange(2 ** d)
        y = rng.randrange(2 ** d)
        a_n = rng.randint(0, d)
        if rng.random() < 0.6:
            a = (a_n, x >> (d - a_n), y >> (d - a_n))
            if rng.random() < 0.3 and a_n > 0:
                a = (a_n, a[1] ^ 1, a[2])       # sibling branch: not an ancestor
        else:
            a = (a_n, rng.randrange(2 ** a_n), rng.randrange(2 ** a_n))
        cases.append(((d, x, y), a))
    # directed: deeper positions exactly on / next to the edges of the shallower tile's block
    for _ in range(n // 2):
        a_n = rng.randint(0, maxdepth - 1)
        dn = rng.randint(1, maxdepth - a_n)
        ax, ay = rng.randrange(2 ** a_n), rng.randrange(2 ** a_n)
        size = 2 ** dn
        lim = 2 ** (a_n + dn)

        def edge(a0):
            return rng.choice([a0 * size - 1, a0 * size, (a0 + 1) * size - 1, (a0 + 1) * size, a0 * size + rng.randrange(size)])
        x, y = edge(ax), edge(ay)
        if 0 <= x < lim and 0 <= y < lim:
            cases.append(((a_n + dn, x, y), (a_n, ax, ay)))
    return cases


def run(ctx):
    repo.setup(ctx)
    from toasty import pyramid as P
    from toasty.pyramid import Pos
    import multiprocessing as mp
    ctx.rule = ("configurations = (kind, user filter as accept set, apex) enumerated by the harness and handed to TLC; TLC explores "
                "the iterator state machine for each, checks AssertsHold/DoneOK/StackShape and emits the terminal history; each emitted "
                "configuration is rebuilt as a real Pyramid and compared step by step. distinct = distinct (kind, effective filter, apex); "
                "non-trivial = at least one position visited")
    rng = ctx.rng
    depth = 2
    # ---- configurations at depth 2
    accepts = set()
    l1 = level(1)
    for r in range(5):
        for sub in itertools.combinations(l1, r):                       # 16 live patterns, all kids accepted
            accepts.add(frozenset(sub) | frozenset(k for t in sub for k in kids(t)))
    accepts.add(frozenset(l1))                                          # tiles accepted, no child accepted
    accepts.add(frozenset(l1) | {(2, 0, 0), (2, 3, 3)})
    accepts.add(frozenset(k for t in l1 for k in kids(t)))              # children accepted, parents not
    if ctx.quick:
        while len(accepts) < 1200:
            accepts.add(random_accept(rng, 2, "pertile"))
        apexes = [ROOT, (1, 1, 0), (1, 0, 1), (2, 2, 1), (2, 0, 3)]
    else:
        accepts.update(d2_all_filters())
        apexes = [ROOT, (1, 1, 0), (2, 2, 1)]
    kinds = ["generic", "toast"]
    r = ctx.tlc("MCReduce", extra={"MCReduce.tla": mc_module(2, accepts, apexes, kinds, 4)}, cfg_text=CFG % 2,
                timeout=3000)
    recs = [(2, rec) for rec in r.json_lines("R")]
    ctx.note("d2_filters", len(accepts))
    ctx.exhaustive = not ctx.quick
    if not ctx.quick:
        # all 21 apexes on a stratified sub-family
        sub = set(list(accepts)[:: max(1, len(accepts) // 4000)])
        allapex = [q for n in range(3) for q in level(n)]
        r2 = ctx.tlc("MCReduce", extra={"MCReduce.tla": mc_module(2, sub, allapex, kinds, 0)}, cfg_text=CFG % 2, timeout=3000)
        recs += [(2, rec) for rec in r2.json_lines("R")]
    # ---- depth 3 (and 1, 0): seeded filters
    n3 = 150 if ctx.quick else 4000
    acc3 = set()
    full3 = frozenset(q for n in range(1, 4) for q in level(n))
    acc3.add(full3)
    while len(acc3) < n3:
        acc3.add(random_accept(rng, 3, rng.choice(["sparse", "mid", "dense"])))
    ap3 = [ROOT, (1, 0, 1), (2, 1, 2), (3, 5, 2), (3, 0, 0)] + ([(2, 3, 3), (1, 1, 1), (3, 7, 7)] if not ctx.quick else [])
    r3 = ctx.tlc("MCReduce", extra={"MCReduce.tla": mc_module(3, acc3, ap3, kinds, 0)}, cfg_text=CFG % 3, timeout=3000)
    recs3 = [(3, rec) for rec in r3.json_lines("R")]
    recs += recs3
    # the same filters and apexes at depth 2: histories on one Pyramid object whose depth attribute is changed in between
    ap32 = [a for a in ap3 if a[0] <= 2]
    sub3 = sorted(acc3, key=lambda a: sorted(a))[: (60 if ctx.quick else 600)]
    r32 = ctx.tlc("MCReduce", extra={"MCReduce.tla": mc_module(2, sub3, ap32, kinds, 0)}, cfg_text=CFG % 2, timeout=3000)
    by_key = {}
    for d, rec in recs3 + [(2, rec) for rec in r32.json_lines("R")]:
        k = (rec["kind"], tuple(sorted(tuple(p) for p in rec["acc"])), tuple(rec["apex"]))
        by_key.setdefault(k, {})[d] = rec
    histories = [[(3, v[3]), (2, v[2])] for v in by_key.values() if 2 in v and 3 in v]
    for d, accs, aps in ((1, [frozenset(s) for r_ in range(5) for s in itertools.combinations(l1, r_)], [ROOT, (1, 0, 0), (1, 1, 1)]),
                         (0, [frozenset()], [ROOT])):
        rr = ctx.tlc("MCReduce", extra={"MCReduce.tla": mc_module(d, accs, aps, kinds, 0)}, cfg_text=CFG % d, timeout=600)
        recs += [(d, rec) for rec in rr.json_lines("R")]
    if not recs:
        ctx.machinery("TLC emitted no configurations")
    # ---- replay into the real code
    with mp.Pool(16) as pool:
        results = pool.map(replay_case, recs, chunksize=64)
    for (res, nvis, key), (d, rec) in zip(results, recs):
        ctx.count()
        ctx.trace_ok()
        if nvis > 0:
            ctx.distinct((d,) + key)
        for sev, k, msg, case in res:
            if sev == "V":
                ctx.violation("C13:" + k, msg, {"case": case})
            else:
                ctx.drift("%s %s (case %s)" % (k, msg, case))
    with mp.Pool(8) as pool:
        hres = pool.map(replay_history, histories, chunksize=8)
    for res in hres:
        ctx.count()
        ctx.trace_ok()
        for sev, k, msg, case in res:
            ctx.violation("C13:" + k, msg, {"case": case})
    ctx.note("object_histories_replayed", len(histories))
    for d, rec in recs[:3] + recs[len(recs) // 2: len(recs) // 2 + 2]:
        ctx.sample({"depth": d, "kind": rec["kind"], "apex": rec["apex"], "accept": rec["acc"][:12],
                    "history": [[o["pos"], o["leaf"]] for o in rec["out"][:12]], "final": rec["final"]})
    # ---- the relation algebra on seeded deep positions: TLC evaluates, the real functions must agree
    cases = algebra_samples(rng, 400 if ctx.quick else 6000, 27)
    defs = [("Cases", tla.lit(cases)),
            'Row(c) == [p |-> c[1], a |-> c[2], par |-> Parent(c[1]), slot |-> Slot(c[1]), kids |-> KidSeq(c[1]), sub |-> IF c[1][1] >= c[2][1] THEN IsSub(c[1], c[2]) ELSE FALSE, subc |-> IF c[1][1] >= c[2][1] THEN InSub(c[1], c[2]) ELSE FALSE]',
            "ASSUME \\A i \\in DOMAIN Cases : LET c == Cases[i] IN c[1][1] >= c[2][1] => (IsSub(c[1], c[2]) = InSub(c[1], c[2]))",
            "ASSUME JsonSerialize(IOEnv.OUT, [i \\in DOMAIN Cases |-> Row(Cases[i])])"]
    outp = os.path.join(ctx.scratch, "algebra.json")
    ra = ctx.tlc("MCAlgebra", extra={"MCAlgebra.tla": tla.module("MCAlgebra", ["Quadtree", "Json", "IOUtils", "TLC"], defs)},
                 cfg_text="", env={"OUT": outp}, workers=1, timeout=600, count=False)
    rows = json.load(open(outp))
    for row in rows:
        p, a = Pos(*row["p"]), Pos(*row["a"])
        ctx.count()
        par, ix, iy = P.pos_parent(p)
        if tuple(par) != tuple(row["par"]) or 2 * iy + ix != row["slot"]:
            ctx.violation("C13:pos_parent", "pos_parent(%s) = %s, spec parent %s slot %d" % (tuple(p), (tuple(par), ix, iy), row["par"], row["slot"]), {"p": tuple(p)})
        ks = [tuple(k) for k in P.pos_children(p)]
        if ks != [tuple(k) for k in row["kids"]]:
            ctx.violation("C13:pos_children", "pos_children(%s) = %s, spec %s" % (tuple(p), ks, row["kids"]), {"p": tuple(p)})
        for k in P.pos_children(p):
            if tuple(P.pos_parent(k)[0]) != tuple(p):
                ctx.violation("C13:parent-child-disagree", "parent(child(%s)) != itself" % (tuple(p),), {"p": tuple(p)})
        if p.n >= a.n:
            s = P.is_subtile(p, a)
            if bool(s) != row["sub"]:
                ctx.violation("C13:is_subtile", "is_subtile(%s, %s) = %s, spec %s" % (tuple(p), tuple(a), s, row["sub"]), {"p": tuple(p), "a": tuple(a)})
        ctx.distinct(("alg", tuple(p), tuple(a)))
    ctx.trace_ok(len(rows))
    # closed forms
    for d in range(0, 12):
        ctx.count()
        if P.depth2tiles(d) != (4 ** (d + 1) - 1) // 3 or P.tiles_at_depth(d) != 4 ** d:
            ctx.violation("C13:closed-form", "depth2tiles/tiles_at_depth wrong at depth %d" % d, {"depth": d})
    for d in range(0, 5):
        g = [tuple(p) for p in P.generate_pos(d)]
        if len(g) != P.depth2tiles(d) or len(set(g)) != len(g):
            ctx.violation("C13:generate_pos", "generate_pos(%d) yields %d positions (%d distinct), closed form %d" % (d, len(g), len(set(g)), P.depth2tiles(d)), {"depth": d})
    ctx.assume("the user filter is a pure function of the tile position (filters that depend on call order are outside the property)")
