"""C13 - quadtree enumeration and tile counts are consistent and match what is visited.

Spec: spec/Quadtree.tla (relations, generator) + spec/Reduce.tla (generator flavours, reduction iterator,
the four reductions).  TLC (a) checks the relation theorems for every position to a depth bound and for
seeded deep positions, (b) explores the iterator state machine exhaustively over a set of pyramid
configurations (kind x filter x apex), checking AssertsHold / DoneOK / StackShape in every state, and emits
for every configuration the terminal history.  Binding (spec -> code): every emitted configuration is
built as a real Pyramid and the real generator, iterator (with tokens that expose slot placement), counts,
leaf visit and serial walk are compared with the spec's history.
"""
import itertools
import json
import os
import random

from lib import repo, tla

ROOT = (0, 0, 0)


def kids(p):
    n, x, y = p
    return [(n + 1, 2 * x + (i % 2), 2 * y + (i // 2)) for i in range(4)]


def parent(p):
    return (p[0] - 1, p[1] // 2, p[2] // 2)


def level(n):
    return [(n, x, y) for y in range(2 ** n) for x in range(2 ** n)]


def random_accept(rng, depth, style):
    """A user filter as the set of accepted positions (only the part reachable from the root matters)."""
    acc = set()
    if style == "pertile":      # depth-2 family: each level-1 tile rejected, or accepted with a subset of its kids
        for t in level(1):
            if rng.random() < 0.8:
                acc.add(t)
                for k in kids(t):
                    if rng.random() < 0.55:
                        acc.add(k)
        return frozenset(acc)
    pr = {"sparse": 0.45, "dense": 0.85, "mid": 0.65}[style]
    frontier = [t for t in level(1)]
    while frontier:
        nxt = []
        for t in frontier:
            if rng.random() < pr:
                acc.add(t)
                if t[0] < depth:
                    nxt.extend(kids(t))
        frontier = nxt
    return frozenset(acc)


def d2_all_filters():
    """All 17^4 effective depth-2 filters (thorough tier)."""
    per = []
    for t in level(1):
        opts = [frozenset()]
        ks = kids(t)
        for r in range(5):
            for sub in itertools.combinations(ks, r):
                opts.append(frozenset((t,) + sub))
        per.append(opts)
    for combo in itertools.product(*per):
        yield frozenset().union(*combo)


def quadrant_gap(acc, depth):
    """Input stratification only: does the filtered pyramid (root apex) have a tile that lacks a child at a quadrant where an
    EARLIER tile of the same level (in enumeration order) had one?  Then the reduction iterator meets a level record whose
    slot was last written for another parent."""
    seen_at = {}
    found = [False]

    def rec(t):
        n = t[0]
        have = []
        if n < depth:
            for i, k in enumerate(kids(t)):
                if k in acc:
                    rec(k)
                    have.append(i)
        prev = seen_at.setdefault(n, set())
        if n < depth and any(i in prev and i not in have for i in range(4)):
            found[0] = True
        prev.update(have)
    for t in level(1):
        if depth >= 1 and t in acc:
            rec(t)
    return found[0]


def stratified(accepts, depth, n_gap, n_other, rng):
    """n_gap filters with a quadrant gap and n_other without, spread over the number of accepted positions."""
    pool = sorted(accepts, key=lambda a: (len(a), sorted(a)))
    gap = [a for a in pool if quadrant_gap(a, depth)]
    oth = [a for a in pool if not quadrant_gap(a, depth)]

    def spread(lst, n):
        if len(lst) <= n:
            return list(lst)
        off = rng.randrange(max(1, len(lst) // n))
        return [lst[min(len(lst) - 1, off + (i * len(lst)) // n)] for i in range(n)]
    return spread(gap, n_gap) + spread(oth, n_other)


CB_POLICIES = ["falsy", "truthy", "mixed", "array", "big"]
ENV_PLAIN = ["none", False]


def mc_module(depth, accepts, apexes, kinds, theorem_depth, opt_accepts=(), cb_accepts=()):
    """opt_accepts / cb_accepts: the filters (and, with them, the generic pyramid) that are also explored with asserts
    stripped / under every callback-return policy (spec/ReduceEnv.tla)."""
    defs = [
        ("MCAccept", tla.lit(set(accepts))),
        ("MCApex", tla.lit(set(apexes))),
        ("MCKinds", tla.lit(set(kinds))),
        ("MCOptAcc", tla.lit(set(opt_accepts))),
        ("MCCbAcc", tla.lit(set(cb_accepts))),
        ("MCCbEnvs", tla.lit(set((pol, False) for pol in CB_POLICIES))),
        'MCEnvOf(k, A, a) == {<<"none", FALSE>>}'
        ' \\cup (IF MCOptAcc # {} /\\ (k = "generic" \\/ A \\in MCOptAcc) THEN {<<"none", TRUE>>} ELSE {})'
        ' \\cup (IF MCCbAcc # {} /\\ (k = "generic" \\/ A \\in MCCbAcc) THEN MCCbEnvs ELSE {})',
        'Emit == phase = "done" => PrintT(<<"R", ToJson([kind |-> kind, acc |-> acc, apex |-> apex, out |-> out, final |-> final, '
        'env |-> env, rets |-> IF env[1] = "none" THEN <<>> ELSE Rets])>>)',
    ]
    if theorem_depth:
        defs.append("ASSUME RelationsAgree(%d) /\\ GeneratePosOK(%d)" % (theorem_depth, min(theorem_depth, 3)))
    return tla.module("MCReduce", ["ReduceEnv", "Json"], defs)


CFG = """SPECIFICATION SpecEnv
CONSTANTS
 Depth = %d
 AcceptSets <- MCAccept
 Apexes <- MCApex
 Kinds <- MCKinds
 EnvOf <- MCEnvOf
INVARIANT AssertsHold
INVARIANT DoneOK
INVARIANT StackShape
INVARIANT EnvTypeOK
INVARIANT EnvBlind
INVARIANT Emit
CHECK_DEADLOCK FALSE
"""


# ------------------------------------------------------------------------------------------------
# replay of one emitted configuration into the real code (runs in pool workers)
# ------------------------------------------------------------------------------------------------

def _build(kind, depth, acc, apex, use_plain_toast=False):
    from toasty.pyramid import Pyramid, Pos
    if kind == "generic":
        p = Pyramid.new_generic(depth)
    elif use_plain_toast:
        p = Pyramid.new_toast(depth)
    else:
        p = Pyramid.new_toast_filtered(depth, lambda t: tuple(t.pos) in acc)
    if apex != ROOT:
        p = p.subpyramid(Pos(*apex))
    return p


PAR_FRACTION = 16        # one case in PAR_FRACTION (all cases with a gap tile) is also visited with two workers
_GEO_CENTRES = {}


def _centre_key(corners):
    import numpy as np
    c = np.array([[float(p_[0]), float(p_[1])] for p_ in corners])
    v = np.stack([np.cos(c[:, 1]) * np.cos(c[:, 0]), np.cos(c[:, 1]) * np.sin(c[:, 0]), np.sin(c[:, 1])], axis=1).sum(axis=0)
    v /= np.linalg.norm(v)
    return tuple(int(round(float(t) * 1e7)) for t in v)


def _geo_filters(depth, acc):
    """The position filter `acc` lifted to geometry, once per coordinate system: a tile is accepted iff the centre of the
    corners it is shown with is the centre of an accepted position of its level IN THAT coordinate system (reference
    geometry: create_single_tile, judged by C04)."""
    from toasty import toast
    from toasty.pyramid import Pos
    out = []
    for csname, cs in (("astronomical", toast.ToastCoordinateSystem.ASTRONOMICAL), ("planetary", toast.ToastCoordinateSystem.PLANETARY)):
        table = _GEO_CENTRES.setdefault((csname, depth), {})
        if not table:
            for n in range(1, depth + 1):
                for q_ in level(n):
                    table[(n, _centre_key(toast.create_single_tile(Pos(*q_), coordsys=cs).corners))] = tuple(q_)

        def flt(tile, table=table):
            q_ = table.get((tile.pos.n, _centre_key(tile.corners)))
            return q_ is not None and q_ in acc
        out.append((csname, {"filter": flt, "cs": cs}))
    return out


def _raised_in_tree(e):
    """Was the exception raised by a frame of the tree under test (as opposed to this harness)?"""
    import traceback
    from lib.core import REPO
    tb = traceback.extract_tb(e.__traceback__)
    return bool(tb) and os.path.abspath(tb[-1].filename).startswith(os.path.abspath(REPO) + os.sep)


def replay_case(args, lean=False, tag=""):
    """Returns a list of (severity, key, message); severity 'V' = property monitor failed, 'D' = drift.
    lean: enumeration, counts, serial visits and generator only (what the child interpreter started with -O runs);
    tag: prefix of the monitor keys naming the interpreter configuration."""
    depth, rec = args
    repo.setup()
    import io
    import contextlib
    from toasty.pyramid import Pos
    kind = rec["kind"]
    acc = frozenset(tuple(p) for p in rec["acc"])
    apex = tuple(rec["apex"])
    out = rec["out"]
    fin = rec["final"]
    full = all(tuple(q) in acc for n in range(1, depth + 1) for q in level(n))
    plain = kind == "toast" and full and apex == ROOT
    res = []
    case = {"kind": kind, "depth": depth, "acc": sorted(acc), "apex": apex}

    def bad(sev, key, msg):
        res.append((sev, "%s:%s%s" % (kind, tag, key), ("[%s] " % tag.rstrip(":") if tag else "") + msg, case))

    exp_pos = [tuple(o["pos"]) for o in out]
    exp_leaves = [tuple(o["pos"]) for o in out if o["leaf"]]
    exp_ops = [tuple(o["pos"]) for o in out if (not o["leaf"]) and o["val"]["wk"]]
    # (0) the child relation asked for as a user would, who then uses the returned list as his own (a stack-based traversal
    # pops from it): the relation must be the documented one now and for everybody who asks later in this process
    from toasty import pyramid as _pyr
    for n_ in range(min(depth, 2) + 1):
        for q_ in level(n_):
            got_k = _pyr.pos_children(Pos(*q_))
            if [tuple(k) for k in got_k] != kids(q_):
                bad("V", "pos-children", "pos_children(%s) = %s, documented order %s" % (q_, [tuple(k) for k in got_k], kids(q_)))
            if isinstance(got_k, list):
                got_k.reverse()
                del got_k[1:]
    sink = io.StringIO()
    with contextlib.redirect_stdout(sink):
        # (1) the iterator, with tokens: set_data(i) for the i-th item; child_data must be the tokens of the kids
        p = _build(kind, depth, acc, apex, plain)
        token = {}
        got = []
        try:
            riter = p._make_iter_reducer(default_value=-1)
            i = 0
            for pos, tile, is_leaf, data in riter:
                pt = tuple(pos)
                got.append(pt)
                if kind == "toast" and tile is not None and tuple(tile.pos) != pt:
                    bad("V", "generator-tile-pos", "generator paired position %s with the tile of %s" % (pt, tuple(tile.pos)))
                if kind == "toast" and tile is None and pt != ROOT:
                    bad("V", "generator-tile-missing", "no tile geometry delivered for %s" % (pt,))
                if i < len(out):
                    o = out[i]
                    if is_leaf != o["leaf"]:
                        bad("V", "iterator-leaf-flag", "is_leaf=%s for %s, expected %s" % (is_leaf, pt, o["leaf"]))
                    expd = [token.get(k, -1) for k in kids(pt)]
                    if list(data) != expd:
                        bad("D", "iterator-child-data", "child data of %s is %s, expected the children's values %s" % (pt, list(data), expd))
                    lvls = getattr(riter, "_levels", None)
                    if lvls is not None and len(lvls) != o["nlev"]:
                        bad("D", "levels-depth", "stack depth %d after %s, spec %d" % (len(lvls), pt, o["nlev"]))
                token[pt] = i
                riter.set_data(i)
                i += 1
            if got != exp_pos:
                bad("V", "enumeration", "iterator visited %s, expected %s" % (got, exp_pos))
            else:
                r = riter.result()
                exp_r = (len(out) - 1) if (out and exp_pos[-1] == apex) else -1
                if r != exp_r:
                    bad("V", "iterator-result", "result() = %r, expected %r" % (r, exp_r))
        except AssertionError as e:
            bad("V", "iterator-assert", "iterator assertion failed after %s: %r" % (got[-3:], e))
        except Exception as e:  # noqa
            if not _raised_in_tree(e):
                raise
            bad("V", "iterator-error", "the enumeration stopped after %s with %r" % (got[-3:], e))
        # (2) counts
        for name, key in (("count_leaf_tiles", "lf"), ("count_live_tiles", "lv"), ("count_operations", "op")):
            p = _build(kind, depth, acc, apex, plain)
            try:
                v = getattr(p, name)()
            except Exception as e:  # noqa
                bad("V", name, "%s raised %r" % (name, e))
                continue
            if v != fin[key] and not (exp_pos == [] and v == 0):
                bad("V", name, "%s() = %r, spec %r" % (name, v, fin[key]))
        # (3) leaf visit and serial walk
        p = _build(kind, depth, acc, apex, plain)
        seen = []
        tiles_ok = True

        def leaf_cb(pos, tile):
            seen.append(tuple(pos))
            if kind == "toast" and depth > 0 and (tile is None or tuple(tile.pos) != tuple(pos)):
                bad("V", "leaf-geometry", "leaf %s delivered with tile %r" % (tuple(pos), tile and tuple(tile.pos)))
        try:
            p.visit_leaves(leaf_cb, parallel=1)
            if seen != exp_leaves:
                bad("V", "visit-leaves-serial", "visited leaves %s, expected %s" % (seen, exp_leaves))
        except Exception as e:  # noqa
            bad("V", "visit-leaves-serial", "visit_leaves raised %r" % (e,))
        p = _build(kind, depth, acc, apex, plain)
        walked = []
        try:
            p.walk(lambda pos: walked.append(tuple(pos)), parallel=1)
            if walked != exp_ops:
                bad("V", "walk-serial", "walk called back for %s, expected %s" % (walked, exp_ops))
        except Exception as e:  # noqa
            bad("V", "walk-serial", "walk raised %r" % (e,))
        # (3a) the same visits with worker processes (deterministic scheduler): the SET of tiles visited is the one counted.
        # Cases with a "gap" (a tile the filter accepts while it rejects all four children) on the level above the leaves,
        # where a parallel walk seeds its queue, are always taken; of the others, a fixed fraction
        gap = any(q_[0] == depth - 1 and q_ in acc and not any(k in acc for k in kids(q_)) for q_ in acc) if depth >= 2 else False
        if depth >= 1 and not lean and (gap or (hash((kind, tuple(sorted(acc)), apex)) % PAR_FRACTION == 0)):
            from lib import simrun
            for what, expv in (("walk", exp_ops), ("visit_leaves", exp_leaves)):
                p = _build(kind, depth, acc, apex, plain)
                got2 = []
                if what == "walk":
                    fn = lambda: p.walk(lambda pos: got2.append(tuple(pos)), parallel=2)      # noqa: E731
                else:
                    fn = lambda: p.visit_leaves(lambda pos, tile: got2.append(tuple(pos)), parallel=2)      # noqa: E731
                o2 = simrun.run(fn, simrun.pol_random(random.Random(len(acc) * 7919 + depth)))
                if o2.status == "returned" and sorted(got2) != sorted(expv):
                    extra = sorted(set(got2) - set(expv))
                    bad("V", "%s-parallel" % what, "%s with 2 workers visited %d tiles, spec %d (not in the spec's set: %s; missing: %s)"
                        % (what, len(got2), len(expv), extra[:4], sorted(set(expv) - set(got2))[:4]))
                elif o2.status != "returned" and expv:
                    bad("D", "%s-parallel" % what, "%s with 2 workers ended as %s under the scheduler (C01 / C03 judge termination)" % (what, o2.status))
        # (3a'') the filter given as a callable OBJECT that happens to be falsy (a collection of footprint boxes, empty or not,
        # whose __call__ decides by position): "no filter" is `None`, nothing else
        if kind == "toast" and not plain and apex == ROOT and not lean:
            class Boxes(list):
                def __call__(self, tile):
                    return tuple(tile.pos) in acc
            from toasty.pyramid import Pyramid as _P
            for name, key in (("count_leaf_tiles", "lf"), ("count_live_tiles", "lv"), ("count_operations", "op")):
                try:
                    v = getattr(_P.new_toast_filtered(depth, Boxes()), name)()
                except Exception as e:  # noqa
                    bad("V", "falsy-filter:" + name, "[filter = an empty list subclass with __call__] %s raised %r" % (name, e))
                    continue
                if v != fin[key] and not (exp_pos == [] and v == 0):
                    bad("V", "falsy-filter:" + name, "[filter = a callable object whose truth value is False] %s() = %r, spec %r" % (name, v, fin[key]))
        # (3b) the same filter decided from the tile's GEOMETRY (as footprint filters do) in each coordinate system: the
        # pyramid must show its filter tiles of its own coordinate system everywhere - counts, leaf visits and walks
        if kind == "toast" and not plain and depth >= 1 and not lean:
            for csname, geo in _geo_filters(depth, acc):
                def build():
                    from toasty.pyramid import Pyramid
                    q_ = Pyramid.new_toast_filtered(depth, geo["filter"], coordsys=geo["cs"])
                    return q_.subpyramid(Pos(*apex)) if apex != ROOT else q_
                for name, key in (("count_leaf_tiles", "lf"), ("count_live_tiles", "lv"), ("count_operations", "op")):
                    try:
                        v = getattr(build(), name)()
                    except Exception as e:  # noqa
                        bad("V", "geometry-filter:" + name, "[%s, filter deciding from tile corners] %s raised %r" % (csname, name, e))
                        continue
                    if v != fin[key] and not (exp_pos == [] and v == 0):
                        bad("V", "geometry-filter:" + name, "[%s pyramid, filter deciding from the tile's corners] %s() = %r, spec %r" % (csname, name, v, fin[key]))
                seen2, walked2 = [], []
                try:
                    build().visit_leaves(lambda pos, tile: seen2.append(tuple(pos)), parallel=1)
                    build().walk(lambda pos: walked2.append(tuple(pos)), parallel=1)
                    if seen2 != exp_leaves:
                        bad("V", "geometry-filter:visit-leaves", "[%s pyramid, filter deciding from the tile's corners] visited %d leaves, spec %d" % (csname, len(seen2), len(exp_leaves)))
                    if walked2 != exp_ops:
                        bad("V", "geometry-filter:walk", "[%s pyramid, filter deciding from the tile's corners] walk called back for %s, spec %s" % (csname, walked2, exp_ops))
                except Exception as e:  # noqa
                    bad("V", "geometry-filter:visit", "[%s pyramid, filter deciding from the tile's corners] visit raised %r" % (csname, e))
        # (4) the generator itself: every in-scope position once, children first, tile paired with its position
        p = _build(kind, depth, acc, apex, plain)
        g = [tuple(pos) for pos, _t in p._generator()]
        if len(set(g)) != len(g):
            bad("V", "generator-dup", "generator yielded a position twice: %s" % (g,))
        cut = [q for q in g if q[0] >= apex[0]] if g and all(q[0] >= apex[0] for q in g[:len(exp_pos)]) else g
        if g[:len(exp_pos)] != exp_pos:
            bad("V", "generator-order", "generator yields %s..., spec %s" % (g[:len(exp_pos) + 2], exp_pos))
    return res, len(exp_pos), (kind, tuple(sorted(acc)), apex)


def _cb_value(cls, pos):
    """A value of the class TLC names for this position; the variant within the class follows from the position."""
    import numpy as np
    i = pos[0] + pos[1] + 2 * pos[2]
    if cls == "none":
        return None
    if cls == "falsy":
        vs = [0, False, "", [], 0.0, (), b"", {}, np.bool_(False), np.int64(0), np.float32(0.0), np.zeros(())]
    elif cls == "truthy":
        vs = [1, True, "x", [0], -1, 2.5, (None,), np.bool_(True), np.int64(7), float("nan"), object(), tuple(pos)]
    elif cls == "array":
        vs = [np.arange(4), np.zeros((2, 2)), np.ones(3, dtype=bool)]
    elif cls == "big":
        vs = [bytes(70000), list(range(9000)), np.zeros(9000)]
    else:
        raise ValueError(cls)
    return vs[i % len(vs)]


def replay_cb(args):
    """One configuration under one callback-return policy (spec/ReduceEnv.tla): the walk and the leaf visit call the user's
    function as TLC's history says, whatever that function returns; the counts taken on the same object afterwards are TLC's;
    serial and two-worker walks visit the same set."""
    depth, rec = args
    repo.setup()
    import io
    import contextlib
    kind = rec["kind"]
    acc = frozenset(tuple(p) for p in rec["acc"])
    apex = tuple(rec["apex"])
    out = rec["out"]
    fin = rec["final"]
    pol = rec["env"][0]
    full = all(tuple(q) in acc for n in range(1, depth + 1) for q in level(n))
    plain = kind == "toast" and full and apex == ROOT
    ret_of = dict((tuple(o["pos"]), r) for o, r in zip(out, rec["rets"]))
    exp_leaves = [tuple(o["pos"]) for o in out if o["leaf"]]
    exp_ops = [tuple(o["pos"]) for o in out if (not o["leaf"]) and o["val"]["wk"]]
    case = {"kind": kind, "depth": depth, "acc": sorted(acc), "apex": apex, "callback_returns": pol}
    res = []

    def bad(sev, key, msg):
        res.append((sev, "%s:callback-return:%s" % (kind, key), "[callback returning %s values] %s" % (pol, msg), case))

    def returning(lst):
        def cb(pos, tile=None):
            lst.append(tuple(pos))
            return _cb_value(ret_of.get(tuple(pos), "none" if pol == "none" else ("falsy" if pol == "mixed" else pol)), tuple(pos))
        return cb
    sink = io.StringIO()
    with contextlib.redirect_stdout(sink):
        p = _build(kind, depth, acc, apex, plain)
        walked = []
        try:
            p.walk(returning(walked), parallel=1)
            if walked != exp_ops:
                bad("V", "walk-serial", "walk called back for %s, expected %s" % (walked, exp_ops))
        except Exception as e:  # noqa
            if not _raised_in_tree(e):
                raise
            bad("V", "walk-serial", "walk raised %r after calling back for %s" % (e, walked[-3:]))
        seen = []
        try:
            p.visit_leaves(returning(seen), parallel=1)
            if seen != exp_leaves:
                bad("V", "visit-leaves-serial", "visited leaves %s, expected %s" % (seen, exp_leaves))
        except Exception as e:  # noqa
            if not _raised_in_tree(e):
                raise
            bad("V", "visit-leaves-serial", "visit_leaves raised %r" % (e,))
        for name, key in (("count_leaf_tiles", "lf"), ("count_live_tiles", "lv"), ("count_operations", "op")):
            try:
                v = getattr(p, name)()
            except Exception as e:  # noqa
                bad("V", name, "%s raised %r after the visits" % (name, e))
                continue
            if v != fin[key] and not (not out and v == 0):
                bad("V", name, "after the visits %s() = %r, spec %r" % (name, v, fin[key]))
        if depth >= 1:
            from lib import simrun
            for what, expv in (("walk", exp_ops), ("visit_leaves", exp_leaves)):
                p = _build(kind, depth, acc, apex, plain)
                got2 = []
                cb2 = returning(got2)
                if what == "walk":
                    fn = lambda: p.walk(cb2, parallel=2)      # noqa: E731
                else:
                    fn = lambda: p.visit_leaves(cb2, parallel=2)      # noqa: E731
                o2 = simrun.run(fn, simrun.pol_random(random.Random(len(acc) * 7919 + depth + len(pol))))
                if o2.status == "returned" and sorted(got2) != sorted(expv):
                    bad("V", "%s-parallel" % what, "%s with 2 workers visited %d tiles, spec %d (not in the spec's set: %s; missing: %s)"
                        % (what, len(got2), len(expv), sorted(set(got2) - set(expv))[:4], sorted(set(expv) - set(got2))[:4]))
                elif o2.status == "raised" and isinstance(o2.exc, Exception) and _raised_in_tree(o2.exc) and expv:
                    bad("V", "%s-parallel" % what, "%s with 2 workers raised %r" % (what, o2.exc))
                elif o2.status != "returned" and expv:
                    bad("D", "%s-parallel" % what, "%s with 2 workers ended as %s under the scheduler (C01 / C03 judge termination)" % (what, o2.status))
    return res, len(out), (kind, tuple(sorted(acc)), apex, pol)


def child_main(path_in, path_out):
    """Entry point of the child interpreter (started with -O by run()): the tree under test is imported exactly as in the
    parent (lib/repo.py), the cases TLC emitted for opt = TRUE are replayed, the verdicts go back as JSON."""
    import sys
    info = repo.setup()
    import toasty
    from toasty import _libtoasty  # noqa: F401  (the compiled extension must load here too)
    cases = json.load(open(path_in))
    results = []
    for depth, rec in cases:
        res, nvis, key = replay_case((depth, rec), lean=True, tag="python-O:")
        results.append([res, nvis])
    stripped = True
    try:
        assert False
    except AssertionError:
        stripped = False
    with open(path_out, "w") as f:
        json.dump({"optimize": sys.flags.optimize, "asserts_stripped": stripped, "toasty": os.path.abspath(toasty.__file__),
                   "libtoasty": info.get("libtoasty"), "results": results}, f)


def replay_history(args):
    """One Pyramid OBJECT used through a history: depth changed in between (the attribute is documented as changeable).
    Every count / visit after the change must be the one the spec gives for the new depth."""
    recs = args            # list of (depth, rec) for the same (kind, filter, apex), different depths
    repo.setup()
    import io
    import contextlib
    d0, r0 = recs[0]
    kind = r0["kind"]
    acc = frozenset(tuple(p) for p in r0["acc"])
    apex = tuple(r0["apex"])
    res = []
    sink = io.StringIO()
    with contextlib.redirect_stdout(sink):
        p = _build(kind, d0, acc, apex)
        order = [recs[0], recs[1], recs[0], recs[1]]
        for step, (d, rec) in enumerate(order):
            p.depth = d
            fin = rec["final"]
            out = rec["out"]
            case = {"kind": kind, "acc": sorted(acc), "apex": apex, "history": [x[0] for x in order[:step + 1]]}
            exp_leaves = [tuple(o["pos"]) for o in out if o["leaf"]]
            exp_ops = [tuple(o["pos"]) for o in out if (not o["leaf"]) and o["val"]["wk"]]
            for name, key in (("count_leaf_tiles", "lf"), ("count_live_tiles", "lv"), ("count_operations", "op")):
                try:
                    v = getattr(p, name)()
                except Exception as e:  # noqa
                    res.append(("V", "%s:history:%s" % (kind, name), "%s raised %r after the depth was changed to %d" % (name, e, d), case))
                    continue
                if v != fin[key] and not (not out and v == 0):
                    res.append(("V", "%s:history:%s" % (kind, name), "after depth changes %s on one Pyramid object, %s() = %r, spec %r" % (case["history"], name, v, fin[key]), case))
            seen = []
            try:
                p.visit_leaves(lambda pos, tile: seen.append(tuple(pos)), parallel=1)
                if seen != exp_leaves:
                    res.append(("V", "%s:history:visit-leaves" % kind, "after depth changes %s visit_leaves gives %d leaves, spec %d" % (case["history"], len(seen), len(exp_leaves)), case))
            except Exception as e:  # noqa
                res.append(("V", "%s:history:visit-leaves" % kind, "visit_leaves raised %r" % (e,), case))
            walked = []
            try:
                p.walk(lambda pos: walked.append(tuple(pos)), parallel=1)
                if walked != exp_ops:
                    res.append(("V", "%s:history:walk" % kind, "after depth changes %s walk calls back for %d tiles, spec %d" % (case["history"], len(walked), len(exp_ops)), case))
            except Exception as e:  # noqa
                res.append(("V", "%s:history:walk" % kind, "walk raised %r" % (e,), case))
    return res


def algebra_samples(rng, n, maxdepth):
    cases = []
    for _ in range(n):
        d = rng.randint(1, maxdepth)
        x = rng.randrange(2 ** d)
        y = rng.randrange(2 ** d)
        a_n = rng.randint(0, d)
        if rng.random() < 0.6:
            a = (a_n, x >> (d - a_n), y >> (d - a_n))
            if rng.random() < 0.3 and a_n > 0:
                a = (a_n, a[1] ^ 1, a[2])       # sibling branch: not an ancestor
        else:
            a = (a_n, rng.randrange(2 ** a_n), rng.randrange(2 ** a_n))
        cases.append(((d, x, y), a))
    # directed: deeper positions exactly on / next to the edges of the shallower tile's block
    for _ in range(n // 2):
        a_n = rng.randint(0, maxdepth - 1)
        dn = rng.randint(1, maxdepth - a_n)
        ax, ay = rng.randrange(2 ** a_n), rng.randrange(2 ** a_n)
        size = 2 ** dn
        lim = 2 ** (a_n + dn)

        def edge(a0):
            return rng.choice([a0 * size - 1, a0 * size, (a0 + 1) * size - 1, (a0 + 1) * size, a0 * size + rng.randrange(size)])
        x, y = edge(ax), edge(ay)
        if 0 <= x < lim and 0 <= y < lim:
            cases.append(((a_n + dn, x, y), (a_n, ax, ay)))
    return cases


def run(ctx):
    repo.setup(ctx)
    from toasty import pyramid as P
    from toasty.pyramid import Pos
    import multiprocessing as mp
    ctx.rule = ("configurations = (kind, user filter as accept set, apex) enumerated by the harness and handed to TLC; TLC explores "
                "the iterator state machine for each, checks AssertsHold/DoneOK/StackShape and emits the terminal history; each emitted "
                "configuration is rebuilt as a real Pyramid and compared step by step. distinct = distinct (kind, effective filter, apex); "
                "non-trivial = at least one position visited. Environment dimensions (spec/ReduceEnv.tla) on a stratified sub-family "
                "(filters with a quadrant gap first): every callback-return policy through the serial and two-worker walks / leaf visits, "
                "and asserts stripped = the same replay in one child interpreter started with -O")
    rng = ctx.rng
    depth = 2
    # ---- configurations at depth 2
    accepts = set()
    l1 = level(1)
    for r in range(5):
        for sub in itertools.combinations(l1, r):                       # 16 live patterns, all kids accepted
            accepts.add(frozenset(sub) | frozenset(k for t in sub for k in kids(t)))
    accepts.add(frozenset(l1))                                          # tiles accepted, no child accepted
    accepts.add(frozenset(l1) | {(2, 0, 0), (2, 3, 3)})
    accepts.add(frozenset(k for t in l1 for k in kids(t)))              # children accepted, parents not
    if ctx.quick:
        while len(accepts) < 1200:
            accepts.add(random_accept(rng, 2, "pertile"))
        apexes = [ROOT, (1, 1, 0), (1, 0, 1), (2, 2, 1), (2, 0, 3)]
    else:
        accepts.update(d2_all_filters())
        apexes = [ROOT, (1, 1, 0), (2, 2, 1)]
    kinds = ["generic", "toast"]
    # the environment dimensions (spec/ReduceEnv.tla) on a stratified sub-family: asserts stripped, callback-return policies
    envpool = sorted(accepts, key=lambda a: (len(a), sorted(a)))[:: max(1, len(accepts) // 1500)]
    opt2 = stratified(envpool, 2, 60 if ctx.quick else 400, 6 if ctx.quick else 40, rng)
    cb2 = stratified(envpool, 2, 20 if ctx.quick else 150, 4 if ctx.quick else 20, rng)
    r = ctx.tlc("MCReduce", extra={"MCReduce.tla": mc_module(2, accepts, apexes, kinds, 4, opt2, cb2)}, cfg_text=CFG % 2,
                timeout=3000)
    recs = [(2, rec) for rec in r.json_lines("R")]
    ctx.note("d2_filters", len(accepts))
    ctx.exhaustive = not ctx.quick
    if not ctx.quick:
        # all 21 apexes on a stratified sub-family
        sub = set(list(accepts)[:: max(1, len(accepts) // 4000)])
        allapex = [q for n in range(3) for q in level(n)]
        r2 = ctx.tlc("MCReduce", extra={"MCReduce.tla": mc_module(2, sub, allapex, kinds, 0, stratified(sub, 2, 40, 4, rng), stratified(sub, 2, 12, 2, rng))},
                     cfg_text=CFG % 2, timeout=3000)
        recs += [(2, rec) for rec in r2.json_lines("R")]
    # ---- depth 3 (and 1, 0): seeded filters
    n3 = 150 if ctx.quick else 4000
    acc3 = set()
    full3 = frozenset(q for n in range(1, 4) for q in level(n))
    acc3.add(full3)
    while len(acc3) < n3:
        acc3.add(random_accept(rng, 3, rng.choice(["sparse", "mid", "dense"])))
    ap3 = [ROOT, (1, 0, 1), (2, 1, 2), (3, 5, 2), (3, 0, 0)] + ([(2, 3, 3), (1, 1, 1), (3, 7, 7)] if not ctx.quick else [])
    opt3 = stratified(acc3, 3, 16 if ctx.quick else 300, 2 if ctx.quick else 20, rng)
    cb3 = stratified(acc3, 3, 3 if ctx.quick else 80, 1 if ctx.quick else 10, rng)
    r3 = ctx.tlc("MCReduce", extra={"MCReduce.tla": mc_module(3, acc3, ap3, kinds, 0, opt3, cb3)}, cfg_text=CFG % 3, timeout=3000)
    recs3 = [(3, rec) for rec in r3.json_lines("R")]
    recs += recs3
    # the same filters and apexes at depth 2: histories on one Pyramid object whose depth attribute is changed in between
    ap32 = [a for a in ap3 if a[0] <= 2]
    sub3 = sorted(acc3, key=lambda a: sorted(a))[: (60 if ctx.quick else 600)]
    r32 = ctx.tlc("MCReduce", extra={"MCReduce.tla": mc_module(2, sub3, ap32, kinds, 0)}, cfg_text=CFG % 2, timeout=3000)
    by_key = {}
    for d, rec in recs3 + [(2, rec) for rec in r32.json_lines("R")]:
        if rec["env"] != ENV_PLAIN:
            continue
        k = (rec["kind"], tuple(sorted(tuple(p) for p in rec["acc"])), tuple(rec["apex"]))
        by_key.setdefault(k, {})[d] = rec
    histories = [[(3, v[3]), (2, v[2])] for v in by_key.values() if 2 in v and 3 in v]
    for d, accs, aps in ((1, [frozenset(s) for r_ in range(5) for s in itertools.combinations(l1, r_)], [ROOT, (1, 0, 0), (1, 1, 1)]),
                         (0, [frozenset()], [ROOT])):
        rr = ctx.tlc("MCReduce", extra={"MCReduce.tla": mc_module(d, accs, aps, kinds, 0)}, cfg_text=CFG % d, timeout=600)
        recs += [(d, rec) for rec in rr.json_lines("R")]
    if not recs:
        ctx.machinery("TLC emitted no configurations")
    # ---- replay into the real code
    allrecs = recs
    recs = [x for x in allrecs if x[1]["env"] == ENV_PLAIN]
    recs_opt = [x for x in allrecs if x[1]["env"][1]]
    recs_cb = [x for x in allrecs if x[1]["env"][0] != "none" and not x[1]["env"][1]]
    if len(recs) + len(recs_opt) + len(recs_cb) != len(allrecs) or not recs_opt or not recs_cb:
        ctx.machinery("TLC emitted no configurations for the environment dimensions (asserts stripped: %d, callback returns: %d)"
                      % (len(recs_opt), len(recs_cb)))
    # the opt = TRUE configurations go to ONE child interpreter started with -O (it runs while the pool works)
    import subprocess
    import sys
    from lib.core import VERIF
    p_in, p_out = os.path.join(ctx.scratch, "opt_cases.json"), os.path.join(ctx.scratch, "opt_results.json")
    with open(p_in, "w") as f:
        json.dump(recs_opt, f)
    child = subprocess.Popen([sys.executable, "-O", "-c",
                              "import sys; sys.path.insert(0, %r); from checks import c13; c13.child_main(%r, %r)" % (VERIF, p_in, p_out)],
                             cwd=VERIF, stdout=subprocess.PIPE, stderr=subprocess.STDOUT)
    with mp.Pool(16) as pool:
        results = pool.map(replay_case, recs, chunksize=64)
        results_cb = pool.map(replay_cb, recs_cb, chunksize=8)
    child_out = child.communicate(timeout=3000)[0].decode("utf-8", "replace")
    if child.returncode != 0 or not os.path.exists(p_out):
        ctx.machinery("the child interpreter (python -O) ended with %r: %s" % (child.returncode, child_out[-1500:]))
    cres = json.load(open(p_out))
    if not cres["asserts_stripped"] or cres["optimize"] < 1 or len(cres["results"]) != len(recs_opt):
        ctx.machinery("the child interpreter did not run with asserts stripped / did not answer every case: %r" % ({k: v for k, v in cres.items() if k != "results"},))
    ctx.note("asserts_stripped_interpreter", {"optimize": cres["optimize"], "toasty": cres["toasty"], "libtoasty": cres["libtoasty"],
                                              "configurations": len(recs_opt),
                                              "with_quadrant_gap": sum(1 for d_, rec_ in recs_opt if rec_["kind"] == "toast" and quadrant_gap(frozenset(tuple(q) for q in rec_["acc"]), d_))})
    ctx.note("callback_return_cases", len(recs_cb))
    for (res, nvis), (d, rec) in zip(cres["results"], recs_opt):
        ctx.count()
        ctx.trace_ok()
        if nvis > 0:
            ctx.distinct((d, rec["kind"], tuple(sorted(tuple(q) for q in rec["acc"])), tuple(rec["apex"]), "python-O"))
        for sev, k, msg, case in res:
            if sev == "V":
                ctx.violation("C13:" + k, msg, {"case": case, "interpreter": "python -O"})
            else:
                ctx.drift("%s %s (case %s)" % (k, msg, case))
    for (res, nvis, key), (d, rec) in zip(results_cb, recs_cb):
        ctx.count()
        ctx.trace_ok()
        if nvis > 0:
            ctx.distinct((d,) + key)
        for sev, k, msg, case in res:
            if sev == "V":
                ctx.violation("C13:" + k, msg, {"case": case})
            else:
                ctx.drift("%s %s (case %s)" % (k, msg, case))
    for (res, nvis, key), (d, rec) in zip(results, recs):
        ctx.count()
        ctx.trace_ok()
        if nvis > 0:
            ctx.distinct((d,) + key)
        for sev, k, msg, case in res:
            if sev == "V":
                ctx.violation("C13:" + k, msg, {"case": case})
            else:
                ctx.drift("%s %s (case %s)" % (k, msg, case))
    with mp.Pool(8) as pool:
        hres = pool.map(replay_history, histories, chunksize=8)
    for res in hres:
        ctx.count()
        ctx.trace_ok()
        for sev, k, msg, case in res:
            ctx.violation("C13:" + k, msg, {"case": case})
    ctx.note("object_histories_replayed", len(histories))
    for d, rec in recs[:3] + recs[len(recs) // 2: len(recs) // 2 + 2] + recs_opt[:1] + recs_cb[len(recs_cb) // 2: len(recs_cb) // 2 + 1]:
        ctx.sample({"depth": d, "kind": rec["kind"], "apex": rec["apex"], "accept": rec["acc"][:12],
                    "history": [[o["pos"], o["leaf"]] for o in rec["out"][:12]], "final": rec["final"],
                    "environment": {"callback_returns": rec["env"][0], "asserts_stripped": rec["env"][1]}})
    # ---- the relation algebra on seeded deep positions: TLC evaluates, the real functions must agree
    cases = algebra_samples(rng, 400 if ctx.quick else 6000, 27)
    defs = [("Cases", tla.lit(cases)),
            'Row(c) == [p |-> c[1], a |-> c[2], par |-> Parent(c[1]), slot |-> Slot(c[1]), kids |-> KidSeq(c[1]), sub |-> IF c[1][1] >= c[2][1] THEN IsSub(c[1], c[2]) ELSE FALSE, subc |-> IF c[1][1] >= c[2][1] THEN InSub(c[1], c[2]) ELSE FALSE]',
            "ASSUME \\A i \\in DOMAIN Cases : LET c == Cases[i] IN c[1][1] >= c[2][1] => (IsSub(c[1], c[2]) = InSub(c[1], c[2]))",
            "ASSUME JsonSerialize(IOEnv.OUT, [i \\in DOMAIN Cases |-> Row(Cases[i])])"]
    outp = os.path.join(ctx.scratch, "algebra.json")
    ra = ctx.tlc("MCAlgebra", extra={"MCAlgebra.tla": tla.module("MCAlgebra", ["Quadtree", "Json", "IOUtils", "TLC"], defs)},
                 cfg_text="", env={"OUT": outp}, workers=1, timeout=600, count=False)
    rows = json.load(open(outp))
    for row in rows:
        p, a = Pos(*row["p"]), Pos(*row["a"])
        ctx.count()
        par, ix, iy = P.pos_parent(p)
        if tuple(par) != tuple(row["par"]) or 2 * iy + ix != row["slot"]:
            ctx.violation("C13:pos_parent", "pos_parent(%s) = %s, spec parent %s slot %d" % (tuple(p), (tuple(par), ix, iy), row["par"], row["slot"]), {"p": tuple(p)})
        ks = [tuple(k) for k in P.pos_children(p)]
        if ks != [tuple(k) for k in row["kids"]]:
            ctx.violation("C13:pos_children", "pos_children(%s) = %s, spec %s" % (tuple(p), ks, row["kids"]), {"p": tuple(p)})
        for k in P.pos_children(p):
            if tuple(P.pos_parent(k)[0]) != tuple(p):
                ctx.violation("C13:parent-child-disagree", "parent(child(%s)) != itself" % (tuple(p),), {"p": tuple(p)})
        if p.n >= a.n:
            s = P.is_subtile(p, a)
            if bool(s) != row["sub"]:
                ctx.violation("C13:is_subtile", "is_subtile(%s, %s) = %s, spec %s" % (tuple(p), tuple(a), s, row["sub"]), {"p": tuple(p), "a": tuple(a)})
        ctx.distinct(("alg", tuple(p), tuple(a)))
    ctx.trace_ok(len(rows))
    # closed forms
    for d in range(0, 12):
        ctx.count()
        if P.depth2tiles(d) != (4 ** (d + 1) - 1) // 3 or P.tiles_at_depth(d) != 4 ** d:
            ctx.violation("C13:closed-form", "depth2tiles/tiles_at_depth wrong at depth %d" % d, {"depth": d})
    for d in range(0, 5):
        g = [tuple(p) for p in P.generate_pos(d)]
        if len(g) != P.depth2tiles(d) or len(set(g)) != len(g):
            ctx.violation("C13:generate_pos", "generate_pos(%d) yields %d positions (%d distinct), closed form %d" % (d, len(g), len(set(g)), P.depth2tiles(d)), {"depth": d})
    ctx.assume("the user filter is a pure function of the tile position (filters that depend on call order are outside the property)")
