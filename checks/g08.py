"""G08 (growth specification, DESIGN.md section 7) - the pipeline's image sources: the feed protocol and the astrometry mapping.

Specs: spec/FeedSource.tla (+ MCFeedSource) - `toasty pipeline refresh` over an AstroPix or Djangoplicity feed as a state machine:
the server (a Django paginator over the entries of the requested type; 404 or an empty list beyond the last page), the lazy page
requests of query_candidates, refresh_impl's loop body per entry (store checks, open + save, the NotActionableError handler),
the feed growing / shrinking between two requests, a second refresh; plus the line scanner of a Djangoplicity page.
spec/FeedAstrometry.tla (+ MCFeedAstrometry) - from the entry's spatial metadata (reference pixel / value / dimension, scale,
rotation, frame) and the size of the fetched image to the WCS headers of as_wcs_headers and to the ImageSet fields that
set_position_from_wcs records after tile_base_as_study, in exact rational arithmetic; how a WWT client reads those fields back.

TLC proves the contract sentences over every small feed / every metadata case (see the invariant lists below), names the as-built
deviations and refutes the ideal statements next to them (negative controls, judged on the emitted states).

Binding (spec -> code): every behaviour end TLC prints (feed, store marks, page size, server tail, feed events, expected candidates /
rejects / page requests after each of the two refresh runs) is set up for real - a store directory with index.wtml / skip.flag
items, a work directory made by the real `pipeline init`, the feed served through a replaced `requests.get` that builds genuine
requests.Response objects over urllib3 bodies - and run through the real cli.refresh_impl twice; candidates/ (names, JSON contents,
empty files), rejects/, the pages asked for and the outcome are compared.  Every metadata case is rendered as a feed entry (+ API
record + generated PNG / JPEG of the stated size), pushed through the real refresh_impl, fetch_impl and `process-todos`, and the
ImageSet / Place of processed/<id>/index_rel.wtml is compared field by field with what TLC computed; as_wcs_headers is also called
directly for every case.  The page-scanner table is replayed through the real query_candidates.
"""
import contextlib
import io
import json
import math
import os
import re
import shutil
import tempfile
import types

from lib import repo, tla

PUB = "pub"
BASE = "http://dj.test/public/"
AXQ = "http://ax.test/query.json"
IMG = "http://img.test/"
MAXPAGE = 6

FS_INV = ["TypeOK", "OnlyEligible", "EmptyOnlyAfterDeath", "PagingIsTransparent", "ExactlyTheEligible", "PagesInOrder",
          "StopsOnePastTheEnd", "EndsAgainst404", "Idempotent", "GrowthLosesNothing", "CatchesUp", "StoreRespected",
          "RejectsOnlyRefused", "DeviationsWhereNamed"]
FS_IDEALS = {"djangoplicity": ["AlwaysEnds", "NeverMisses", "SeesFinalFeed", "EligibleSurviveBadNeighbours"],
             "astropix": ["NotActionableIsSkipped", "NoEmptyCandidate", "OneFilePerEntry", "EligibleSurviveBadNeighbours"]}
FA_INV = ["UnitRotation", "RefPixelAtRefValue", "StepsAsStated", "CornersPreserved", "StepsAsBuilt", "HandednessFlipped",
          "RescalingPreservesCorners", "SimilarityAccepted", "AcceptedNearSquare", "MirrorRule", "TiledIffLarge", "ClientRefAtRefPixel",
          "ClientReadsHeaders", "EndToEnd", "RotationIsMinusAvm", "FrameAndFetchIrrelevant", "FlavoursAgree", "FetchRule"]
FA_IDEALS = ["CornersAlwaysPreserved", "FrameRespected", "AcceptedAtFetchIsProcessable", "ProcessedIsExact",
             "ServedFileIsWhatOffsetsDescribe", "ClientRefAlwaysAtRefPixel"]


# ------------------------------------------------------------------------------------------------
# the network boundary: requests.get replaced; responses are real requests.Response objects over urllib3 bodies
# ------------------------------------------------------------------------------------------------
class Capped(BaseException):
    """The experiment is stopped: the client asked for a page beyond MAXPAGE."""


class Web(object):
    def __init__(self):
        self.routes = []          # (prefix, handler(url) -> (status, bytes))
        self.log = []

    def get(self, url, **kw):
        import requests
        import urllib3
        from requests.adapters import HTTPAdapter
        self.log.append(url)
        status, body = 404, b"not found"
        for prefix, fn in self.routes:
            if url.startswith(prefix):
                status, body = fn(url)
                break
        raw = urllib3.response.HTTPResponse(body=io.BytesIO(body), status=status, headers={}, preload_content=False, decode_content=False)
        return HTTPAdapter().build_response(requests.Request("GET", url).prepare(), raw)


@contextlib.contextmanager
def patched(web):
    import requests
    old = requests.get
    requests.get = web.get
    try:
        yield
    finally:
        requests.get = old


@contextlib.contextmanager
def quiet():
    with contextlib.redirect_stdout(io.StringIO()), contextlib.redirect_stderr(io.StringIO()):
        yield


# ------------------------------------------------------------------------------------------------
# rendering the model's entries as what the two services send
# ------------------------------------------------------------------------------------------------
def ident(e, flav):
    """The identifier as the feed spells it."""
    base = "img" + e["name"]
    if e["var"] == "upper":
        return base.upper()
    if e["var"] == "slash":
        return "x/" + base
    if e["var"] == "under":
        return "x_" + base
    return base


def uid_string(name, alt, flav):
    base = ("x_" if alt else "") + "img" + name
    return PUB + "_" + base if flav == "astropix" else base


def ax_item(e, extra=None):
    it = {"publisher_id": PUB, "title": "T%d" % e["tag"], "tag": e["tag"], "resource_url": IMG + "t%d.png" % e["tag"], "reference_url": "",
          "wcs_coordinate_frame": "ICRS", "wcs_equinox": "J2000"}
    if e["hasid"]:
        it["image_id"] = ident(e, "astropix")
    if e["proj"] != "missing":
        it["wcs_projection"] = None if e["proj"] == "null" else e["proj"]
    it.update(extra or {})
    return it


def dj_item_line(e):
    fields = []
    if e["hasid"]:
        fields.append("id: '%s'" % ident(e, "djangoplicity"))
    fields += ["title: 'T%d'" % e["tag"], "tag: %d" % e["tag"], "width: 300", "height: 200", "src: 'http://dj.test/thumb/%d.jpg'" % e["tag"], "potw: ''"]
    return "{ " + ", ".join(fields) + " },"


def dj_page_html(item_lines):
    lines = ["<!DOCTYPE html>", "<html><head><title>archive</title>", "<script>", "var images = ["] + list(item_lines) + ["];", "</script></head>", "<body></body></html>"]
    return ("\n".join(lines) + "\n").encode()


class FeedServer(object):
    """The model's server: a feed (list of entries), served as one AstroPix JSON array or as Djangoplicity pages of `size` entries of
    the requested type; the behaviour's feed events are applied just before the request they precede."""

    def __init__(self, rec, web):
        self.flav = rec["flav"]
        self.feed = [dict(e) for e in rec["feed0"]]
        self.size = rec["size"]
        self.tail = rec["tail"]
        self.evs = rec["evs"]
        self.run = 0
        self.pages = []
        self.odd = []
        if self.flav == "astropix":
            web.routes.append((AXQ, self.serve_ax))
        else:
            web.routes.append((BASE + "archive/search/", self.serve_dj))

    def begin_run(self):
        self.run += 1
        self.pages = []

    def apply_events(self, page):
        for k, ev in enumerate(self.evs):
            if ev["run"] == self.run and ev["before"] == page and not ev.get("_done"):
                ev["_done"] = True
                if ev["kind"] == "grow":
                    self.feed.insert(0, {"name": "p" if k == 0 else "q", "var": "plain", "type": "Observation", "proj": "TAN", "hasid": True, "tag": 90 + k})
                else:
                    del self.feed[ev["pos"] - 1]

    def serve_ax(self, url):
        self.apply_events(1)
        self.pages.append(1)
        return 200, json.dumps([ax_item(e) for e in self.feed]).encode()

    def serve_dj(self, url):
        m = re.match(re.escape(BASE) + r"archive/search/page/(\d+)/(?:\?(.*))?$", url)
        if not m:
            self.odd.append(url)
            return 404, b""
        page = int(m.group(1))
        if page > MAXPAGE:
            raise Capped()
        self.apply_events(page)
        self.pages.append(page)
        want = dict(p.split("=", 1) for p in (m.group(2) or "").split("&") if "=" in p).get("type")
        served = [e for e in self.feed if want is None or e["type"] == want]
        if page == 1 or (page - 1) * self.size < len(served):
            items = served[(page - 1) * self.size: page * self.size]
        elif self.tail == "404":
            return 404, b"<html>no such page</html>"
        else:
            items = []
        return 200, dj_page_html([dj_item_line(e) for e in items])


# ------------------------------------------------------------------------------------------------
# a work directory + local store for one source
# ------------------------------------------------------------------------------------------------
class Bench(object):
    def __init__(self, root, flav):
        from toasty.pipeline import cli as pcli
        self.pcli = pcli
        self.flav = flav
        self.root = root
        self.store = os.path.join(root, "store")
        self.work = os.path.join(root, "work")
        os.makedirs(self.store)
        with open(os.path.join(self.store, "toasty-pipeline-config.yaml"), "w") as f:
            if flav == "astropix":
                f.write("source_type: astropix\npublish_url_prefix: http://pub.test/\nastropix:\n  json_query_url: %s\n" % AXQ)
            else:
                f.write("source_type: djangoplicity\npublish_url_prefix: http://pub.test/\ndjangoplicity:\n  base_url: %s\n  channel_name: chan\n" % BASE)
        with quiet():
            pcli.init_impl(types.SimpleNamespace(local=self.store, workdir=self.work, azure_conn_env=None, azure_container=None, azure_path_prefix=None))

    def mark(self, uid, what):
        d = os.path.join(self.store, uid)
        os.makedirs(d, exist_ok=True)
        with open(os.path.join(d, "index.wtml" if what == "index" else "skip.flag"), "w") as f:
            f.write("<Folder/>" if what == "index" else "{}")

    def command(self, name, **kw):
        """-> (outcome, exception text).  outcome: ok | died | capped"""
        NS = types.SimpleNamespace
        try:
            with quiet():
                if name == "refresh":
                    self.pcli.refresh_impl(NS(workdir=self.work))
                elif name == "fetch":
                    self.pcli.fetch_impl(NS(workdir=self.work, cand_ids=[kw["cid"]]))
                else:
                    self.pcli.pipeline_impl(NS(workdir=self.work, pipeline_command=name))
        except Capped:
            return "capped", None
        except BaseException as e:  # noqa - the command died (exceptions, die() -> SystemExit)
            return "died", "%s: %s" % (type(e).__name__, str(e).replace(self.root, "<root>")[:200])
        return "ok", None

    def listing(self, area):
        d = os.path.join(self.work, area)
        out = []
        if os.path.isdir(d):
            for dp, dns, fns in os.walk(d):
                for fn in fns:
                    out.append(os.path.relpath(os.path.join(dp, fn), d))
        return sorted(out)

    def dirs(self, area):
        d = os.path.join(self.work, area)
        return sorted(os.listdir(d)) if os.path.isdir(d) else []


# ------------------------------------------------------------------------------------------------
# replay of one protocol behaviour (pool worker)
# ------------------------------------------------------------------------------------------------
def observe_refresh(bench, flav):
    """candidates/ -> {file name: (tag | None, full)}, rejects/ -> names"""
    cands = {}
    d = os.path.join(bench.work, "candidates")
    for fn in bench.listing("candidates"):
        with open(os.path.join(d, fn), "rb") as f:
            data = f.read()
        if not data:
            cands[fn] = (None, False)
            continue
        try:
            cands[fn] = (json.loads(data.decode("utf8")).get("tag"), True)
        except Exception:  # noqa
            cands[fn] = ("unreadable", True)
    return cands, bench.listing("rejects")


def replay_protocol(job):
    """-> list of findings (severity V / D, key, message)"""
    rec, scratch = job
    repo.setup()
    flav = rec["flav"]
    root = tempfile.mkdtemp(prefix="g08p-", dir=scratch)
    findings = []
    try:
        web = Web()
        server = FeedServer(rec, web)
        bench = Bench(root, flav)
        for name, what in rec["marks"].items():
            if what != "none":
                bench.mark(uid_string(name, False, flav), what)
                if flav == "djangoplicity":
                    bench.mark("x/img" + name, what)
        where = "[%s feed %s, marks %s, page size %s, tail %s, events %s]" % (
            flav, [(ident(e, flav) if e["hasid"] else "(no id)", e["type"][:3], e["proj"], e["tag"]) for e in rec["feed0"]],
            {k: v for k, v in rec["marks"].items() if v != "none"}, rec["size"], rec["tail"],
            [(e["kind"], "run %d before page %d" % (e["run"], e["before"]), e["pos"]) for e in rec["evs"]])
        expected = ([rec["first"]] if rec["runs"] == 2 else []) + [rec["last"]]
        observed = []
        with patched(web):
            for k, exp in enumerate(expected):
                server.begin_run()
                out, err = bench.command("refresh")
                cands, rejects = observe_refresh(bench, flav)
                observed.append((out, cands, rejects, list(server.pages)))
                findings += judge_refresh(rec, k + 1, exp, out, err, cands, rejects, list(server.pages), where)
                if out == "capped":
                    break
        if server.odd:
            findings.append(("D", "url", "the source asked for a URL that is not a page of the archive search: %s %s" % (server.odd[:2], where)))
        if rec["runs"] == 2 and not rec["evs"] and len(observed) == 2 and observed[0][0] != "capped":
            a, b = observed
            if (a[1], a[2]) != (b[1], b[2]):
                findings.append(("V", "G08:refresh:not-idempotent", "a second refresh over an unchanged feed changed the work directory: candidates %s -> %s, rejects %s -> %s %s"
                                 % (a[1], b[1], a[2], b[2], where)))
            elif a[0] != b[0] or a[3] != b[3]:
                findings.append(("D", "second-run", "a second refresh over an unchanged feed ended %s after pages %s, the first %s after %s %s" % (b[0], b[3], a[0], a[3], where)))
        return findings
    finally:
        shutil.rmtree(root, ignore_errors=True)


def judge_refresh(rec, run, exp, out, err, cands, rejects, pages, where):
    flav = rec["flav"]
    f = []
    # which entries ever were in the feed, under which unique id each belongs, and whether it is eligible / already in the store: TLC's
    by_tag = dict((k["e"]["tag"], k) for k in rec["known"])
    names = {}
    for k in rec["known"]:
        for alt in (False, True):
            names[uid_string(k["name"], alt, flav)] = (k["name"], alt)
    want = dict((uid_string(c["name"], c["alt"], flav), (c["tag"], c["full"])) for c in exp["c"])
    tail = "(refresh %d of %d) %s" % (run, rec["runs"], where)
    # --- the sentences: no ineligible entry, no published / ignored image, is a candidate; the file holds the entry's data
    for fn, (tag, full) in sorted(cands.items()):
        if not full:
            if want.get(fn, (None, True))[1]:
                f.append(("V", "G08:refresh:empty-candidate", "candidates/%s is an empty file %s" % (fn, tail)))
            continue
        k = by_tag.get(tag)
        if fn not in names or k is None:
            f.append(("V", "G08:refresh:unexpected-candidate", "candidates/%s (tag %r) is not the unique id of any entry of the feed %s" % (fn, tag, tail)))
            continue
        nm, alt = names[fn]
        e, elig, marked = k["e"], k["elig"], k["marked"]
        own = (k["name"], k["alt"]) == (nm, alt)
        if fn in want and want[fn] == (tag, True):
            continue
        if not own:
            f.append(("V", "G08:refresh:candidate-content", "candidates/%s holds the data of entry %s (tag %d) %s" % (fn, ident(e, flav), tag, tail)))
        elif not elig:
            f.append(("V", "G08:refresh:ineligible-entry-candidate", "candidates/%s was written for the entry %s (type %s, projection %s), which is not eligible %s"
                      % (fn, ident(e, flav), e["type"], e["proj"], tail)))
        elif marked:
            f.append(("V", "G08:refresh:done-image-candidate", "candidates/%s was written although the store holds %s for it %s" % (fn, rec["marks"][nm], tail)))
        elif fn in want:
            f.append(("V", "G08:refresh:candidate-content", "candidates/%s holds tag %r, the last entry of that id in listing order has tag %r %s" % (fn, tag, want[fn][0], tail)))
        else:
            f.append(("D", "more-candidates", "candidates/%s (eligible entry, tag %r) exists; the as-built model ends the run before it %s" % (fn, tag, tail)))
    for fn, (tag, full) in sorted(want.items()):
        if fn not in cands:
            if full:
                f.append(("V", "G08:refresh:eligible-entry-not-candidate", "no candidates/%s although the eligible entry with tag %d was served %s (candidates: %s)"
                          % (fn, tag, tail, sorted(cands))))
            else:
                f.append(("D", "empty-file", "the model leaves an empty candidates/%s behind, the code does not %s" % (fn, tail)))
    exp_out = {"done": "ok", "died": "died", "capped": "capped"}[exp["pc"]]
    if out != exp_out:
        if exp_out == "ok" and out == "died":
            f.append(("V", "G08:refresh:raised", "refresh died (%s) on a feed without a malformed or refused entry %s" % (err, tail)))
        else:
            f.append(("D", "outcome", "refresh %s%s, the as-built model says %s %s" % (out, " (%s)" % err if err else "", exp_out, tail)))
    exp_rej = sorted(uid_string(u["name"], u["alt"], flav) for u in exp["r"])
    if rejects != exp_rej:
        f.append(("D", "rejects", "rejects/ holds %s, the as-built model %s %s" % (rejects, exp_rej, tail)))
    if pages != exp["log"]:
        f.append(("D", "pages", "the source asked for pages %s, the model for %s %s" % (pages, exp["log"], tail)))
    return f


def probe_handler(scratch):
    """What does the tree's refresh do with an AstroPix entry whose save() raises NotActionableError, followed by a good one?
    -> "aborts" (the handler as written: the run dies, G01's observation) | "recorded" (rejects/<id> touched, the run goes on) | "other" """
    root = tempfile.mkdtemp(prefix="g08h-", dir=scratch)
    try:
        rec = {"flav": "astropix", "size": 0, "tail": "404", "evs": [],
               "feed0": [{"name": "m", "var": "plain", "type": "Observation", "proj": "SIN", "hasid": True, "tag": 1},
                         {"name": "n", "var": "plain", "type": "Observation", "proj": "TAN", "hasid": True, "tag": 2}]}
        web = Web()
        server = FeedServer(rec, web)
        bench = Bench(root, "astropix")
        server.begin_run()
        with patched(web):
            out, err = bench.command("refresh")
        cands, rejects = observe_refresh(bench, "astropix")
        seen = {"outcome": out, "error": err, "candidates": sorted(cands), "rejects": rejects}
        if out == "died" and not cands and not rejects:
            return "aborts", seen
        if out == "ok" and sorted(cands) == ["pub_imgn"] and rejects == ["pub_imgm"]:
            return "recorded", seen
        return "other", seen
    finally:
        shutil.rmtree(root, ignore_errors=True)


# ------------------------------------------------------------------------------------------------
# the page scanner
# ------------------------------------------------------------------------------------------------
def replay_scan(job):
    rows, scratch = job
    repo.setup()
    from toasty.pipeline.djangoplicity import DjangoplicityImageSource
    findings = []
    for row in rows:
        lines = row["lines"]
        text = []
        for k, c in enumerate(lines, 1):
            text.append({"O": "<p>line %d</p>" % k, "V": "  var images = [", "I": "{ id: 'it%d', tag: %d }," % (k, k), "C": "  ];"}[c])
        body = ("\n".join(text) + "\n").encode()
        web = Web()
        web.routes.append((BASE + "archive/search/page/1/", lambda url, b=body: (200, b)))
        src = DjangoplicityImageSource.deserialize({"base_url": BASE, "channel_name": "chan"})
        got, err = None, None
        try:
            with patched(web), quiet():
                got = [c._info.get("tag") if isinstance(c._info, dict) else repr(c._info) for c in src.query_candidates()]
        except BaseException as e:  # noqa
            err = "%s: %s" % (type(e).__name__, str(e)[:80])
        exp = row["scan"]
        where = "[page lines %s]" % "".join(lines)
        if exp["res"] == "items":
            if err is not None:
                findings.append(("V" if row["wf"] else "D", "G08:query:page-not-read", "query_candidates raised %s on a page whose block holds items %s %s" % (err, exp["items"], where)))
            elif got != exp["items"]:
                findings.append(("V" if row["wf"] else "D", "G08:query:page-items", "query_candidates yielded the items of lines %s, the page's block holds %s %s" % (got, exp["items"], where)))
        elif err is None:
            findings.append(("D", "scan", "query_candidates yielded %s, the model says it raises (%s) %s" % (got, exp["res"], where)))
    return findings


# ------------------------------------------------------------------------------------------------
# metadata cases
# ------------------------------------------------------------------------------------------------
def qf(q):
    return q[0] / q[1]


def num(q, as_string):
    v = qf(q)
    if as_string:
        return repr(v)
    return int(v) if q[1] == 1 and as_string is None else v


_IMG = {}


def image_bytes(w, h, ext):
    key = (w, h, ext.lower() in ("jpg", "jpeg"))
    if key not in _IMG:
        import numpy as np
        from PIL import Image
        a = np.zeros((h, w, 3), dtype=np.uint8)
        a[..., 0] = 180
        a[..., 1] = (np.arange(w) % 200)[None, :]
        a[0, 0] = (255, 255, 255)
        b = io.BytesIO()
        Image.fromarray(a).save(b, format="JPEG" if key[2] else "PNG")
        _IMG[key] = b.getvalue()
    return _IMG[key]


def rotation_degrees(rot):
    return math.degrees(math.atan2(qf(rot[1]), qf(rot[0])))


def case_id(k):
    return "c%05d" % k


def ax_case_item(rec, k):
    cs = rec["cs"]
    strings = (k % 2 == 1)          # "should be ints, but sometimes expressed with decimal points" / numbers as strings
    it = {"image_id": case_id(k), "publisher_id": PUB, "title": "Case %d & <co>" % k,
          "resource_url": IMG + "%s.%s" % (case_id(k), cs["fx"]["urlext"]),
          "reference_url": ("http://ref.test/%s" % case_id(k)) if cs["fx"]["refurl"] == "given" else "",
          "wcs_projection": "TAN", "wcs_coordinate_frame": cs["frame"], "wcs_equinox": "J2000",
          "wcs_reference_dimension": [("%d.0" % cs["dims"][0]) if strings else cs["dims"][0], ("%d.0" % cs["dims"][1]) if strings else cs["dims"][1]],
          "wcs_reference_pixel": [num(rec["refpix"][0], strings), num(rec["refpix"][1], strings)],
          "wcs_reference_value": [num([cs["rv"][0], 1], strings), num([cs["rv"][1], 1], strings)],
          "wcs_scale": [num(cs["sc"][0], strings), None if cs["sc"][1] == [0, 0] else num(cs["sc"][1], strings)],
          "wcs_rotation": repr(rotation_degrees(cs["rot"])) if strings else rotation_degrees(cs["rot"])}
    return it


def dj_case_info(rec, k):
    cs = rec["cs"]
    res = [{"ResourceType": "Large", "URL": IMG + "large/%s.jpg" % case_id(k)}]
    if cs["fx"]["orig"]:
        res.append({"ResourceType": "Original", "URL": IMG + "%s.%s" % (case_id(k), cs["fx"]["urlext"])})
    res.append({"ResourceType": "Thumbnail", "URL": IMG + "thumb/%s.jpg" % case_id(k)})
    none1 = [None, "", None][k % 3]
    return {"ID": case_id(k), "Title": "Case %d & <co>" % k, "Credit": "ESO & <a href=\"x\">me</a>", "Description": "D <b>%d</b>" % k,
            "ReferenceURL": "http://ref.test/%s" % case_id(k), "Date": "2020-03-04T10:00:00", "Resources": res,
            "Spatial.CoordsystemProjection": "TAN" if cs["fx"]["spatial"] == "TAN" else None,
            "Spatial.CoordinateFrame": cs["frame"], "Spatial.Equinox": "J2000",
            "Spatial.ReferenceDimension": [repr(float(cs["dims"][0])), repr(float(cs["dims"][1]))],
            "Spatial.ReferencePixel": [num(rec["refpix"][0], True), num(rec["refpix"][1], True)],
            "Spatial.ReferenceValue": [num([cs["rv"][0], 1], True), num([cs["rv"][1], 1], True)],
            "Spatial.Scale": [num(cs["sc"][0], True), none1 if cs["sc"][1] == [0, 0] else num(cs["sc"][1], True)],
            "Spatial.Rotation": repr(rotation_degrees(cs["rot"]))}


def close(a, b, rel=1e-9, ab=1e-11):
    return abs(a - b) <= ab + rel * max(abs(a), abs(b))


def ang_close(a, b, tol=1e-6):
    d = (a - b) % 360.0
    return min(d, 360.0 - d) <= tol


def contract_case(rec):
    """The case is one for which TLC proved the end-to-end sentences: a uniform or unrotated rescaling and an exact similarity."""
    return not rec["dev"]["RescaleSkewed"] and not rec["dev"]["Approximated"]


def judge_headers(rec, got, where):
    """as_wcs_headers(width, height) against TLC's Headers."""
    f = []
    hd = rec["hd"]
    for nm, key, q in (("CRVAL1", "G08:headers:crval", hd["crval"][0]), ("CRVAL2", "G08:headers:crval", hd["crval"][1]),
                       ("CRPIX1", "G08:headers:crpix", hd["crpix"][0]), ("CRPIX2", "G08:headers:crpix", hd["crpix"][1])):
        if not close(float(got[nm]), qf(q)):
            f.append(("V", key, "as_wcs_headers gives %s = %r, the reference value / the rescaled and flipped reference pixel is %d/%d %s"
                      % (nm, float(got[nm]), q[0], q[1], where)))
    scale = max(abs(qf(q)) for q in hd["cd"])
    for nm, q in zip(("CD1_1", "CD1_2", "CD2_1", "CD2_2"), hd["cd"]):
        if not close(float(got[nm]), qf(q), ab=1e-9 * scale):
            sev = "V" if not rec["dev"]["RescaleSkewed"] else "D"
            f.append((sev, "G08:headers:cd", "as_wcs_headers gives %s = %r, the stated scale and rotation on the fetched image's pixels are %d/%d %s"
                      % (nm, float(got[nm]), q[0], q[1], where)))
    if got.get("CTYPE1") != "RA---TAN" or got.get("CTYPE2") != "DEC--TAN":
        f.append(("D", "ctype", "CTYPE = %r, %r %s" % (got.get("CTYPE1"), got.get("CTYPE2"), where)))
    return f


def read_wtml(path):
    import xml.etree.ElementTree as ET
    root = ET.parse(path).getroot()
    places = list(root.iter("Place"))
    sets = list(root.iter("ImageSet"))
    if len(places) != 1 or len(sets) != 1:
        return None
    p, s = places[0], sets[0]

    def fl(el, k):
        return float(el.get(k, "0"))
    cu = s.find("CreditsUrl")
    return {"proj": s.get("Projection"), "bu": s.get("BottomsUp", "False") == "True", "lev": int(s.get("TileLevels", "0")),
            "cx": fl(s, "CenterX"), "cy": fl(s, "CenterY"), "rot": fl(s, "Rotation"), "bdpt": fl(s, "BaseDegreesPerTile"),
            "offx": fl(s, "OffsetX"), "offy": fl(s, "OffsetY"), "wf": s.get("WidthFactor"), "dst": s.get("DataSetType"),
            "name": s.get("Name"), "url": s.get("Url"), "credits_url": cu.text if cu is not None else None,
            "zoom": fl(p, "ZoomLevel"), "ra": fl(p, "RA"), "dec": fl(p, "Dec"), "pname": p.get("Name")}


def judge_imageset(rec, got, where):
    f = []
    pr = rec["pr"]
    strict = contract_case(rec)
    sev = "V" if strict else "D"

    def bad(key, msg):
        f.append((sev, key, msg + " " + where))
    if got["proj"] != pr["proj"] or got["lev"] != pr["lev"]:
        bad("G08:imageset:tiling", "the ImageSet has Projection %s, TileLevels %d; a %d x %d image is %s with %d levels"
            % (got["proj"], got["lev"], rec["cs"]["dims"][2], rec["cs"]["dims"][3], pr["proj"], pr["lev"]))
    if got["bu"] != pr["bu"]:
        bad("G08:imageset:bottoms-up", "BottomsUp = %s, specified %s" % (got["bu"], pr["bu"]))
    if not close(got["cx"], qf(pr["cx"])) or not close(got["cy"], qf(pr["cy"])):
        bad("G08:imageset:centre", "CenterX, CenterY = %r, %r; the reference value is %r, %r" % (got["cx"], got["cy"], qf(pr["cx"]), qf(pr["cy"])))
    exp_rot = math.degrees(math.atan2(qf(pr["dir"][1]), qf(pr["dir"][0])))
    if not ang_close(got["rot"], exp_rot):
        bad("G08:imageset:rotation", "Rotation = %r degrees, specified direction <<%d/%d, %d/%d>> = %r degrees"
            % (got["rot"], pr["dir"][0][0], pr["dir"][0][1], pr["dir"][1][0], pr["dir"][1][1], exp_rot))
    if not close(got["bdpt"], qf(pr["bdpt"])):
        bad("G08:imageset:scale", "BaseDegreesPerTile = %r, specified %d/%d" % (got["bdpt"], pr["bdpt"][0], pr["bdpt"][1]))
    tol = 1e-9 * max(1.0, abs(qf(pr["offx"])), abs(qf(pr["offy"])))
    if not close(got["offx"], qf(pr["offx"]), ab=tol) or not close(got["offy"], qf(pr["offy"]), ab=tol):
        bad("G08:imageset:offsets", "OffsetX, OffsetY = %r, %r; specified %d/%d, %d/%d (the reference pixel is then not shown at the reference value)"
            % (got["offx"], got["offy"], pr["offx"][0], pr["offx"][1], pr["offy"][0], pr["offy"][1]))
    if not close(got["zoom"], qf(pr["zoom"])):
        f.append(("D", "zoom", "Place ZoomLevel = %r, specified %r %s" % (got["zoom"], qf(pr["zoom"]), where)))
    if rec["placeAtRef"] and not (ang_close(got["ra"] * 15.0, qf(pr["cx"]), 1e-6) and close(got["dec"], qf(pr["cy"]), ab=1e-6)):
        f.append(("D", "place", "the reference pixel is the middle of the image but the Place is at RA %r h, Dec %r, the reference value is %r, %r deg"
                  % (got["ra"], got["dec"], qf(pr["cx"]), qf(pr["cy"])) + " " + where))
    if got["wf"] != "2" or got["dst"] != "Sky":
        f.append(("D", "constants", "WidthFactor %r, DataSetType %r %s" % (got["wf"], got["dst"], where)))
    return f


def replay_cases(job):
    """One work directory per batch: the cases become the entries of one feed; refresh once, then fetch + process-todos per case."""
    recs, flav, first, deep, scratch = job
    repo.setup()
    os.environ["SLURM_NPROCS"] = "1"          # the cascade of a one- or five-tile pyramid: serially, not with 16 forked workers
    from toasty.pipeline import astropix, djangoplicity
    findings = []
    stats = {"headers": 0, "pipeline": 0, "process_ok": 0, "process_raises": 0, "fetch_rejected": 0, "fetch_died": 0, "padded": 0}
    ids = [case_id(first + k) for k in range(len(recs))]
    # ---- the public method, directly
    for k, rec in enumerate(recs):
        cs = rec["cs"]
        where = "[%s case %s]" % (flav, json.dumps(cs, separators=(",", ":")))
        w, h = cs["dims"][2], cs["dims"][3]
        if flav == "djangoplicity" and cs["fx"]["spatial"] != "TAN":
            continue        # fetch rejects such a record: its metadata never reach as_wcs_headers
        try:
            if flav == "astropix":
                got = astropix.AstroPixMetadata(ax_case_item(rec, first + k)).as_wcs_headers(w, h)
            else:
                got = djangoplicity.DjangoplicityMetadata(dj_case_info(rec, first + k)).as_wcs_headers(w, h)
            err = None
        except Exception as e:  # noqa
            got, err = None, "%s: %s" % (type(e).__name__, e)
        stats["headers"] += 1
        if rec["hraise"]:
            if err is None:
                findings.append(("D", "headers-raise", "the metadata have no second scale; the model says the AstroPix metadata class refuses them, it returned headers %s" % where))
        elif err is not None:
            findings.append(("V", "G08:headers:raised", "as_wcs_headers raised %s %s" % (err, where)))
        else:
            findings += judge_headers(rec, got, where)
    if not deep:
        return findings, stats
    # ---- through refresh / fetch / process-todos
    root = tempfile.mkdtemp(prefix="g08c-", dir=scratch)
    try:
        web = Web()
        bench = Bench(root, flav)
        items = {}
        if flav == "astropix":
            for k, rec in enumerate(recs):
                items[ids[k]] = ax_case_item(rec, first + k)
            web.routes.append((AXQ, lambda url: (200, json.dumps([items[i] for i in ids]).encode())))
        else:
            for k, rec in enumerate(recs):
                items[ids[k]] = dj_case_info(rec, first + k)

            def page(url):
                n = int(re.search(r"/page/(\d+)/", url).group(1))
                part = ids[(n - 1) * 7: n * 7]
                if n > 1 and not part:
                    return 404, b""
                return 200, dj_page_html(["{ id: '%s', title: 'x', width: 1, height: 1 }," % i for i in part])
            web.routes.append((BASE + "archive/search/", page))
            web.routes.append((BASE, lambda url: (200, json.dumps(items[url[len(BASE):].split("/")[0]]).encode())))

        def image(url):
            m = re.match(re.escape(IMG) + r"(c\d+)\.(\w+)$", url)
            if not m or m.group(1) not in ids:
                return 404, b""
            cs = recs[ids.index(m.group(1))]["cs"]
            return 200, image_bytes(cs["dims"][2], cs["dims"][3], m.group(2))
        web.routes.append((IMG, image))
        with patched(web):
            out, err = bench.command("refresh")
            cands = bench.listing("candidates")
            uids = [(PUB + "_" + i) if flav == "astropix" else i for i in ids]
            if out != "ok" or cands != sorted(uids):
                findings.append(("V", "G08:refresh:eligible-entry-not-candidate", "refresh over %d well-formed TAN entries %s%s and left candidates %s"
                                 % (len(ids), out, " (%s)" % err if err else "", cands[:5])))
                return findings, stats
            for k, rec in enumerate(recs):
                cs = rec["cs"]
                uid = uids[k]
                where = "[%s case %s]" % (flav, json.dumps(cs, separators=(",", ":")))
                stats["pipeline"] += 1
                out, err = bench.command("fetch", cid=uid)
                cached = sorted(os.listdir(os.path.join(bench.work, "cache_todo", uid))) if os.path.isdir(os.path.join(bench.work, "cache_todo", uid)) else None
                rejected = uid in bench.dirs("rejects")
                exp = rec["fetch"]["out"]
                real = "dies" if out != "ok" else ("rejected" if rejected else "cached")
                if real != exp:
                    if exp == "cached":
                        findings.append(("V", "G08:fetch:not-cached", "fetch %s %s%s; the entry has a TAN projection and an original image %s" % (uid, real, " (%s)" % err if err else "", where)))
                    elif exp == "rejected" and real == "cached":
                        findings.append(("V", "G08:fetch:no-wcs-not-rejected", "fetch %s cached an image whose record has no Spatial.CoordsystemProjection %s" % (uid, where)))
                    else:
                        findings.append(("D", "fetch", "fetch %s %s%s, the model says %s %s" % (uid, real, " (%s)" % err if err else "", exp, where)))
                if real != "cached":
                    stats["fetch_rejected" if real == "rejected" else "fetch_died"] += 1
                    shutil.rmtree(os.path.join(bench.work, "cache_todo", uid), ignore_errors=True)
                    continue
                if exp != "cached":
                    shutil.rmtree(os.path.join(bench.work, "cache_todo", uid), ignore_errors=True)
                    continue
                want_files = sorted("%s.%s" % (a, b) for a, b in rec["fetch"]["files"])
                if cached != want_files:
                    findings.append(("D", "cache-files", "cache_todo/%s holds %s, the model %s %s" % (uid, cached, want_files, where)))
                out, err = bench.command("process-todos")
                wtml = os.path.join(bench.work, "processed", uid, "index_rel.wtml")
                pr = rec["pr"]
                if out != "ok":
                    stats["process_raises"] += 1
                    shutil.rmtree(os.path.join(bench.work, "cache_todo", uid), ignore_errors=True)
                    if pr["out"] == "ok":
                        findings.append(("V" if contract_case(rec) else "D", "G08:process:raised", "process-todos died (%s) on an image whose metadata are expressible %s" % (err, where)))
                    continue
                stats["process_ok"] += 1
                if pr["out"] == "raises":
                    findings.append(("D", "process-accepts", "process-todos processed the image, the as-built model says it raises (%s) %s" % (pr["why"], where)))
                    continue
                if not os.path.isfile(wtml) or uid not in bench.dirs("cache_done"):
                    findings.append(("V", "G08:process:no-output", "process-todos returned; index_rel.wtml %s, cache_done/ %s %s"
                                     % ("exists" if os.path.isfile(wtml) else "is missing", bench.dirs("cache_done")[-3:], where)))
                    continue
                got = read_wtml(wtml)
                if got is None:
                    findings.append(("V", "G08:process:no-output", "index_rel.wtml does not hold one Place with one ImageSet %s" % where))
                    continue
                if pr["out"] == "ok":
                    findings += judge_imageset(rec, got, where)
                exp_name = "Case %d & <co>" % (first + k)
                if got["name"] != exp_name or got["pname"] != exp_name:
                    findings.append(("D", "name", "ImageSet / Place Name = %r / %r, the title is %r %s" % (got["name"], got["pname"], exp_name, where)))
                exp_cu = {"reference_url": "http://ref.test/%s" % ids[k], "ReferenceURL": "http://ref.test/%s" % ids[k],
                          "astropix-page": "http://astropix.ipac.caltech.edu/image/%s/%s" % (PUB, ids[k])}[rec["credits"]]
                if got["credits_url"] != exp_cu:
                    findings.append(("D", "credits-url", "CreditsUrl = %r, the model %r %s" % (got["credits_url"], exp_cu, where)))
                if pr["out"] == "ok" and pr["lev"] == 0 and not rec["dev"]["Approximated"]:
                    # the library's own reading of an untiled ImageSet against the client reading of the spec (ClientCD / ClientRef = the headers)
                    try:
                        from wwt_data_formats.folder import Folder
                        iset = Folder.from_file(wtml).children[0].foreground_image_set
                        back = iset.wcs_headers_from_position(height=cs["dims"][3])
                        hd = rec["hd"]
                        sc = max(abs(qf(q)) for q in hd["cd"])
                        okb = all(close(float(back[nm]), qf(q), ab=1e-9 * sc) for nm, q in zip(("CD1_1", "CD1_2", "CD2_1", "CD2_2"), hd["cd"]))
                        okb = okb and close(float(back["CRPIX1"]), qf(hd["crpix"][0]), ab=1e-9) and close(float(back["CRPIX2"]), qf(hd["crpix"][1]), ab=1e-9)
                        stats["client_reading"] = stats.get("client_reading", 0) + 1
                        if not okb:
                            findings.append(("D", "client-reading", "wcs_headers_from_position reads the untiled ImageSet back as %s, the headers it was made from are %s %s"
                                             % ({k2: back[k2] for k2 in ("CRPIX1", "CRPIX2", "CD1_1", "CD1_2", "CD2_1", "CD2_2")}, hd, where)))
                    except Exception as e:  # noqa
                        findings.append(("D", "client-reading", "wcs_headers_from_position failed: %r %s" % (e, where)))
                if rec["dev"]["SmallImagePadded"]:
                    from PIL import Image
                    tile = os.path.join(bench.work, "processed", uid, "L0X0Y0.png")
                    with Image.open(tile) as im:
                        if im.size == (256, 256) and got["proj"] == "SkyImage":
                            stats["padded"] += 1
                        else:
                            findings.append(("D", "padded", "the model says a %d x %d image is served as the padded 256 x 256 tile of an untiled SkyImage; found a %s tile, Projection %s %s"
                                             % (cs["dims"][2], cs["dims"][3], im.size, got["proj"], where)))
    finally:
        shutil.rmtree(root, ignore_errors=True)
    return findings, stats


# ------------------------------------------------------------------------------------------------
def _warm():
    import time
    time.sleep(0.1)
    return os.getpid()


def fs_cfg(flav, handler, kinds, maxev, invariants, sizes="{1, 2}", tails='{"404", "empty"}'):
    lines = ["SPECIFICATION Spec", "CONSTANTS", ' Flavour = "%s"' % flav, ' Handler = "%s"' % handler, " Setups <- MCSetups",
             " PageSizes = %s" % sizes, " Tails = %s" % tails, " EventKinds = {%s}" % ", ".join('"%s"' % k for k in kinds),
             " MaxEvents = %d" % maxev, " MaxPage = %d" % MAXPAGE, " Runs = 2"]
    lines += ["INVARIANT " + i for i in invariants]
    lines.append("CHECK_DEADLOCK FALSE")
    return "\n".join(lines) + "\n"


def fa_cfg(tier_prefix, invariants):
    p = tier_prefix
    lines = ["SPECIFICATION Spec", "CONSTANTS", " Flavours <- MCFlavours", " FetchSet <- MCFetchSet", " DimSet <- %sDims" % p, " RefPixSet <- %sRefPix" % p,
             " RefValSet <- %sRefVal" % p, " ScaleSet <- %sScales" % p, " RotSet <- %sRots" % p, " FrameSet <- %sFrames" % p, " DefaultCase <- MCDefaultCase"]
    lines += ["INVARIANT " + i for i in invariants]
    lines.append("CHECK_DEADLOCK FALSE")
    return "\n".join(lines) + "\n"


def stratified(ctx, recs, keyfn, per_group, cap):
    """A deterministic (seeded) sample that keeps every class of behaviour."""
    groups = {}
    for r in recs:
        groups.setdefault(keyfn(r), []).append(r)
    out = []
    for k in sorted(groups, key=repr):
        g = groups[k]
        if len(g) > per_group:
            g = ctx.rng.sample(g, per_group)
        out += g
    if len(out) > cap:
        out = ctx.rng.sample(out, cap)
    return out, len(groups)


def proto_class(r):
    return (r["flav"], len(r["feed0"]), r["size"], r["tail"], r["first"]["pc"], r["last"]["pc"], tuple((e["kind"], e["run"], e["before"]) for e in r["evs"]),
            tuple(sorted(r["acts"])), tuple(sorted(v for v in r["marks"].values() if v != "none")), len(r["last"]["c"]))


def case_class(r):
    cs = r["cs"]
    return (cs["flav"], tuple(cs["dims"]), tuple(map(tuple, cs["sc"])), tuple(map(tuple, cs["rot"])), r["pr"]["out"], r["fetch"]["out"])


def run(ctx):
    repo.setup(ctx)
    import concurrent.futures as cf
    import multiprocessing as mp
    import time
    import toasty.pipeline.cli  # noqa - before the workers fork
    import toasty.pipeline.astropix  # noqa
    import toasty.pipeline.djangoplicity  # noqa
    import toasty.builder  # noqa
    import toasty.image  # noqa
    import toasty.study  # noqa
    quick = ctx.quick
    ctx.rule = ("TLC: (a) FeedSource - every feed of up to %d entries over the entry kinds of each source x store marks x page size x server tail x "
                "feed events between requests x two refresh runs, all theorems as invariants; (b) FeedAstrometry - the product of image / reference "
                "sizes, reference pixels, reference values, scales, rotations (+ fetch variants and frames around a default case), theorems as "
                "invariants; (c) every page layout of up to %d lines through Scan. Replay: behaviour ends through the real refresh_impl (twice) over a "
                "served feed; metadata cases through as_wcs_headers directly and through refresh / fetch / process-todos; page layouts through "
                "query_candidates. distinct = behaviour ends / cases / layouts replayed" % (3 if quick else 4, 5 if quick else 7))
    scratch = ctx.scratch
    if os.path.isdir("/dev/shm") and os.access("/dev/shm", os.W_OK):
        try:
            scratch = tempfile.mkdtemp(prefix="verif-g08-", dir="/dev/shm")
        except OSError:
            scratch = ctx.scratch
    pool = cf.ProcessPoolExecutor(max_workers=6, mp_context=mp.get_context("fork"))
    t0 = time.time()
    try:
        set(f.result() for f in [pool.submit(_warm) for _ in range(6)])
        _main(ctx, pool, scratch, quick, t0)
    finally:
        pool.shutdown(wait=True, cancel_futures=True)
        if scratch != ctx.scratch:
            shutil.rmtree(scratch, ignore_errors=True)


def _main(ctx, pool, scratch, quick, t0):
    import concurrent.futures as cf
    import time
    maxlen = 3 if quick else 4
    P = "Q" if quick else "T"

    def tlc_fs(flav, handler="aborts", emit=True):
        name = "MCG08%s%s%s" % ("Dj" if flav == "djangoplicity" else "Ax", "" if handler == "aborts" else "Rec", "" if emit else "Only")
        if flav == "djangoplicity":
            setups = "DjSetups(%d, %d)" % (maxlen, 1 if quick else 2)
            kinds, maxev = ["grow", "shrink"], 1
        else:
            setups = "AxSetups(%s, %d, 1)" % ("AxPoolQ" if quick or not emit else "AxPoolT", 3)
            kinds, maxev = ["grow"], 1
        inv = FS_INV + (["Emit"] if emit else [])
        if handler == "recorded":
            inv = inv + ["NotActionableIsSkipped"]
        r = ctx.tlc(name, extra={name + ".tla": tla.module(name, ["MCFeedSource"], [("MCSetups", setups)])},
                    cfg_text=fs_cfg(flav, handler, kinds, maxev, inv, sizes="{1, 2}" if quick else "{1, 2, 3}"), workers=3 if quick else 5, timeout=3000)
        return r, (r.json_lines("R") if emit else [])

    def tlc_fa(prefix=P):
        name = "MCG08Astro" + ("" if prefix == P else prefix)
        # the theorems in one invariant (headers and result computed once per state)
        r = ctx.tlc(name, extra={name + ".tla": tla.module(name, ["MCFeedAstrometry"], [])},
                    cfg_text=fa_cfg(prefix, ["TheoremsAndEmit"]), workers=4 if quick else 6, timeout=6000)
        return r, r.json_lines("A")

    def tlc_fa_named():
        # the same theorems one by one (a violated one is named), over the quick case sets
        name = "MCG08AstroNamed"
        return ctx.tlc(name, extra={name + ".tla": tla.module(name, ["MCFeedAstrometry"], [])}, cfg_text=fa_cfg("Q", FA_INV), workers=3, timeout=6000)

    def tlc_scan():
        name = "MCG08Scan"
        out = os.path.join(ctx.mkdtemp("scan"), "scan.json")
        n = 5 if quick else 7
        text = tla.module(name, ["FeedScan", "Json", "IOUtils"], ["ASSUME ScanTheorems(%d)" % (n + 1), "ASSUME JsonSerialize(IOEnv.OUT, [rows |-> ScanTable(%d)])" % n])
        r = ctx.tlc(name, extra={name + ".tla": text}, cfg_text="", env={"OUT": out}, workers=1, timeout=3000, count=False)
        with open(out) as f:
            return r, json.load(f)["rows"]

    findings = []
    stats_total = {}
    handler, seen = probe_handler(scratch)
    ctx.note("refresh_with_a_refused_astropix_entry", {"model": handler, "observed": seen})
    if handler == "other":
        ctx.drift("refresh over [a SIN entry, a TAN entry] implements neither handler of the spec: %s" % (seen,))
        handler = "aborts"
    ideals_ax = [i for i in FS_IDEALS["astropix"] if handler == "aborts" or i != "NotActionableIsSkipped"]
    with cf.ThreadPoolExecutor(max_workers=6) as tex:
        f_dj = tex.submit(tlc_fs, "djangoplicity")
        f_ax = tex.submit(tlc_fs, "astropix", handler)
        f_fa = tex.submit(tlc_fa)
        f_scan = tex.submit(tlc_scan)
        f_rec = tex.submit(tlc_fs, "astropix", "recorded" if handler == "aborts" else "aborts", False) if not quick else None   # the other handler
        f_named = tex.submit(tlc_fa_named) if not quick else None
        f_faq = tex.submit(tlc_fa, "Q") if not quick else None          # the thorough tier replays the quick tier's cases too

        futs = []
        # ---- the page scanner
        r_scan, table = f_scan.result()
        rows = sorted(table, key=lambda r: (len(r["lines"]), r["lines"]))
        for i in range(0, len(rows), 200):
            futs.append(("scan", pool.submit(replay_scan, (rows[i:i + 200], scratch))))
        # ---- the protocol
        proto_note = {}
        refuted = {}
        sampled = []
        for flav, fut in (("djangoplicity", f_dj), ("astropix", f_ax)):
            r, recs = fut.result()
            finals = [x for x in recs if x["final"]]
            if not finals:
                ctx.machinery("TLC printed no behaviour end for %s" % flav)
            for inv in (FS_IDEALS[flav] if flav == "djangoplicity" else ideals_ax):
                wit = [x for x in recs if x["ideal"][inv] is False]
                if not wit:
                    ctx.machinery("no reachable state of the %s model refutes %s: the model has lost the deviation it is meant to expose" % (flav, inv))
                w = min(wit, key=lambda x: (len(x["feed0"]), len(x["evs"]), x["runs"], json.dumps(x["feed0"])))
                refuted.setdefault(flav, {})[inv] = {
                    "refuting_states": len(wit),
                    "a_smallest_witness": {"feed": [(ident(e, flav) if e["hasid"] else "(no id)", e["type"], e["proj"]) for e in w["feed0"]],
                                           "marks": {k: v for k, v in w["marks"].items() if v != "none"}, "page_size": w["size"], "tail": w["tail"],
                                           "events": [(e["kind"], "run %d, before page %d" % (e["run"], e["before"]), e["pos"]) for e in w["evs"]],
                                           "run": w["runs"], "ends": w["last"]["pc"], "pages_requested": w["last"]["log"],
                                           "candidates": [uid_string(c["name"], c["alt"], flav) + ("" if c["full"] else " (EMPTY)") for c in w["last"]["c"]]}}
            if quick:
                chosen, ngroups = stratified(ctx, finals, proto_class, 4, 3600 if flav == "djangoplicity" else 2000)
            elif len(finals) > 200000:
                chosen, ngroups = stratified(ctx, finals, proto_class, 60, 200000)     # every class of behaviour, up to 60 of each
                sampled.append(flav)
            else:
                chosen, ngroups = finals, len(set(proto_class(x) for x in finals))
            proto_note[flav] = {"distinct_states": r.distinct, "transitions": r.generated, "behaviour_ends": len(finals), "classes": ngroups, "replayed": len(chosen),
                                "ends": {}, "deviation_actions_taken": {}}
            for x in finals:
                k = "%s/%s" % (x["first"]["pc"], x["last"]["pc"])
                proto_note[flav]["ends"][k] = proto_note[flav]["ends"].get(k, 0) + 1
                for a in x["acts"]:
                    proto_note[flav]["deviation_actions_taken"][a] = proto_note[flav]["deviation_actions_taken"].get(a, 0) + 1
            for x in chosen:
                futs.append(("proto", pool.submit(replay_protocol, (x, scratch))))
                ctx.distinct(("P", flav, json.dumps([x["feed0"], x["marks"], x["size"], x["tail"], x["evs"]], sort_keys=True)))
            if len(ctx.samples) < 2:
                x = [y for y in chosen if y["evs"] and y["last"]["c"]][:1] or chosen[:1]
                ctx.sample({"protocol_behaviour": {k: x[0][k] for k in ("flav", "feed0", "size", "tail", "evs", "first", "last", "acts")}})
        # ---- the metadata cases
        r_fa, cases = f_fa.result()
        if f_faq is not None:
            have = set(json.dumps(x["cs"], sort_keys=True) for x in cases)
            cases = cases + [x for x in f_faq.result()[1] if json.dumps(x["cs"], sort_keys=True) not in have]
        fa_ref = {}
        for inv in FA_IDEALS:
            wit = [x for x in cases if x["ideal"][inv] is False]
            if not wit:
                ctx.machinery("no metadata case refutes %s" % inv)
            w = min(wit, key=lambda x: (x["pr"]["out"] != "ok", json.dumps(x["cs"], sort_keys=True)))
            fa_ref[inv] = {"refuting_cases": len(wit), "a_witness": w["cs"], "process": w["pr"]["out"] + (" (%s)" % w["pr"]["why"] if w["pr"]["why"] else "")}
        replayable = [x for x in cases if x["pr"]["out"] != "irrational"]
        if quick:
            deep, _ng = stratified(ctx, replayable, case_class, 3, 1300)
            default_fx = {"orig": True, "spatial": "TAN", "urlext": "png", "refurl": "given"}
            got = set(id(x) for x in deep)
            deep += [x for x in replayable if id(x) not in got and (x["cs"]["fx"] != default_fx or x["cs"]["frame"] != "ICRS")]   # every fetch variant / frame
        else:
            deep = replayable
        deep_ids = set(id(x) for x in deep)
        k0 = 1
        for flav in ("astropix", "djangoplicity"):
            mine = sorted([x for x in cases if x["cs"]["flav"] == flav], key=lambda x: json.dumps(x["cs"], sort_keys=True))
            d = [x for x in mine if id(x) in deep_ids]
            s = [x for x in mine if id(x) not in deep_ids]
            for group, is_deep, step in ((d, True, 24), (s, False, 400)):
                for i in range(0, len(group), step):
                    futs.append(("case", pool.submit(replay_cases, (group[i:i + step], flav, k0, is_deep, scratch))))
                    k0 += step
            for x in mine:
                ctx.distinct(("A", json.dumps(x["cs"], sort_keys=True)))
        t_emit = time.time() - t0
        # ---- collect
        n = {"scan": 0, "proto": 0, "case": 0}
        for kind, fut in futs:
            res = fut.result()
            n[kind] += 1
            if kind == "case":
                fs, st = res
                for k, v in st.items():
                    stats_total[k] = stats_total.get(k, 0) + v
            else:
                fs = res
            findings += fs
        t_replay = time.time() - t0
        r_rec = f_rec.result()[0] if f_rec is not None else None
        if f_named is not None:
            f_named.result()

    ctx.count(len(rows) + 2 * n["proto"] + stats_total.get("headers", 0) + 3 * stats_total.get("pipeline", 0))
    ctx.trace_ok(len(rows) + n["proto"] + stats_total.get("headers", 0))
    for row in rows:
        ctx.distinct(("S", "".join(row["lines"])))
    seen_d = {}
    for sev, key, msg in findings:
        if sev == "V":
            ctx.violation(key, msg, {"what": msg})
        else:
            seen_d[key] = seen_d.get(key, 0) + 1
            if seen_d[key] <= 3:
                ctx.drift("%s: %s" % (key, msg))
    if seen_d:
        ctx.note("drift_counts", seen_d)
    if stats_total.get("process_ok", 0) < 50 or stats_total.get("process_raises", 0) < 10:
        ctx.machinery("the metadata cases no longer exercise process-todos on both sides (%s)" % stats_total)
    ctx.exhaustive = (not quick) and not sampled
    ctx.note("tlc_feed_protocol", proto_note)
    ctx.note("tlc_feed_protocol_theorems", FS_INV)
    ctx.note("tlc_refuted_ideals_protocol", refuted)
    ctx.note("tlc_astrometry", {"distinct_states": r_fa.distinct, "transitions": r_fa.generated, "cases": len(cases), "theorems": FA_INV,
                                "process_outcomes": dict((k, sum(1 for x in cases if x["pr"]["out"] + ("/" + x["pr"]["why"] if x["pr"]["why"] else "") == k))
                                                         for k in sorted(set(x["pr"]["out"] + ("/" + x["pr"]["why"] if x["pr"]["why"] else "") for x in cases))),
                                "deviation_cases": dict((d, sum(1 for x in cases if x["dev"][d])) for d in cases[0]["dev"])})
    ctx.note("tlc_refuted_ideals_astrometry", fa_ref)
    ctx.note("tlc_scanner", {"layouts_in_model": len(rows), "well_formed": sum(1 for x in rows if x["wf"]),
                             "ideal_ScanFindsAnyBlock_refuted_by": ["".join(x["lines"]) for x in rows if not x["ideal"]][:3]})
    if r_rec is not None:
        ctx.note("tlc_handler_as_intended", "Handler = \"recorded\": all theorems and NotActionableIsSkipped hold (%d distinct states)" % r_rec.distinct)
    ctx.note("replayed", dict(stats_total, protocol_behaviours=n["proto"], scanner_layouts=len(rows)))
    ctx.note("phase_wall_s", {"tlc_and_submission": round(t_emit, 1), "replay_done": round(t_replay, 1)})
    c = [x for x in deep if x["pr"]["out"] == "ok" and x["cs"]["rp"] == "frac"][:1]
    if c:
        ctx.sample({"metadata_case": c[0]["cs"], "headers": c[0]["hd"], "imageset": c[0]["pr"]})
    ctx.assume("the services are local fakes behind requests.get (genuine requests.Response objects over urllib3 bodies): an AstroPix query returning one "
               "JSON array; a Djangoplicity archive as a Django paginator over the entries of the requested type (page 1 always exists, 404 beyond the last "
               "page, or an empty list for the 'empty' tail), its API records and original images")
    ctx.assume("sky positions are compared in the tangent plane at the reference value; rotations are multiples of 90 degrees or Pythagorean angles so that "
               "cos / sin are exact rationals; cases whose pixel scale has no rational square root are checked at the header level only")
    ctx.assume("how a WWT client places a TILED study (level-0 tile of BaseDegreesPerTile centred OffsetX right / OffsetY up of the reference value) is my reading "
               "of the engine; the untiled reading is wwt_data_formats' own wcs_headers_from_position")
    ctx.assume("SLURM_NPROCS=1 while processing, so that the cascade of the one- to five-tile pyramids runs serially")
