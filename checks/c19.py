"""C19 - an error while processing any tile is reported, never swallowed by parallelism.

Spec: the fault variants of spec/WorkQueue.tla and spec/WalkPar.tla (an item in `faults` makes the callback raise:
the worker process dies with a non-zero exit status; `Checked` = the parent inspects exit statuses whenever it
would otherwise wait).  TLC checks NeverSwallowed (a dead worker => the operation does not return normally),
RaisedOnlyOnFault and termination (Ends / Termination) for every fault point x every interleaving, including
"every worker dead while the bounded queue is full".
Binding: TLC behaviours with faults are replayed into the real stages (M2); every (entry point x faulty item x
worker count x schedule policy) is explored on the real code; one real-process run per entry point.
"""
import collections
import contextlib
import os
import queue as _queue

from lib import repo, simmp, simrun, guard
from checks import c01, c03

FLAVOURS = ["plain", "unpicklable", "signal", "oserror", "oserror-noerrno", "oserror-eagain", "oserror-eio"]
WQ_CFG = c03.CFG
WALK_CFG = c01.CFG


_ROT = [0]

# ------------------------------------------------------------------------------------------------
# totality of the check itself: every simulated run ends with a verdict
# ------------------------------------------------------------------------------------------------
# The scheduler (lib/simmp.py) waits until "every live actor is blocked at a sync point".  Library code that blocks or spins
# on something that is NOT a sync point (a helper thread and the parent exchanging items over a plain queue.Queue, a loop
# polling a counter with time.sleep) never reaches one, and the scheduler's wait would never end.  Two measures:
#   * in-process thread queues (the stdlib `queue` module, as seen from the toasty modules with parallel code) are simulated
#     too during a run: their put / get become sync points of the calling actor (SimThreadQueue);
#   * every simulated run has a wall-clock backstop (far above its normal duration of well under a second); a run stopped
#     by it is reported as drift ("could not be scheduled"), and after two of them the remaining simulated runs of that
#     entry point are skipped - the real-process runs then carry the verdict for it.
SIM_BACKSTOP = 40.0
REPLAY_BACKSTOP = 400.0
_STUCK = collections.Counter()
_SKIPPED = collections.Counter()


class SimThreadQueue(object):
    """queue.Queue between the threads (actors) of one simulated process; put / get are sync points."""
    _n = [0]

    def __init__(self, maxsize=0):
        SimThreadQueue._n[0] += 1
        self.name = "tq%d" % SimThreadQueue._n[0]
        self.maxsize = maxsize
        self.items = collections.deque()

    def put(self, item, block=True, timeout=None):
        def outs():
            if self.maxsize <= 0 or len(self.items) < self.maxsize:
                def eff():
                    self.items.append(item)
                    simmp._bump()
                    return True
                return {"ok": eff}
            return {"full_timeout": lambda: False} if ((not block) or timeout is not None) else {}
        if not simmp.S.sync(("tput", self.name), outs):
            raise _queue.Full()

    def get(self, block=True, timeout=None):
        def outs():
            if self.items:
                def eff():
                    simmp._bump()
                    return ("item", self.items.popleft())
                return {"item": eff}
            return {"empty": lambda: ("empty", None)} if ((not block) or timeout is not None) else {}
        kind, v = simmp.S.sync(("tget", self.name), outs)
        if kind == "empty":
            raise _queue.Empty()
        return v

    def put_nowait(self, item):
        return self.put(item, False)

    def get_nowait(self):
        return self.get(False)

    def qsize(self):
        return len(self.items)

    def empty(self):
        return not self.items

    def full(self):
        return 0 < self.maxsize <= len(self.items)

    def task_done(self):
        pass


class _QueueModuleShim(object):
    Queue = SimThreadQueue

    def __getattr__(self, name):
        return getattr(_queue, name)


@contextlib.contextmanager
def thread_queues_simulated():
    import importlib
    saved = []
    for mn in ("toasty.par_util", "toasty.pyramid", "toasty.transform", "toasty.multi_tan", "toasty.multi_wcs"):
        try:
            mod = importlib.import_module(mn)
        except Exception:  # noqa
            continue
        for name, val in list(vars(mod).items()):
            if val is _queue:
                saved.append((mod, name, val))
                setattr(mod, name, _QueueModuleShim())
            elif val is _queue.Queue:
                saved.append((mod, name, val))
                setattr(mod, name, SimThreadQueue)
    try:
        yield
    finally:
        for mod, name, val in saved:
            setattr(mod, name, val)


def sim_run(ctx, group, label, main_fn, choose, **kw):
    """simrun.run with the measures above.  -> Outcome, or None if the run could not be scheduled / was skipped."""
    if _STUCK[group] >= 2:
        _SKIPPED[group] += 1
        return None
    try:
        with guard.time_limit(SIM_BACKSTOP):
            with thread_queues_simulated():
                return simrun.run(main_fn, choose, **kw)
    except guard.TimeLimitExceeded:
        _STUCK[group] += 1
        ctx.drift("%s: the simulated run did not reach a state in which every process is blocked at a multiprocessing primitive within %d s "
                  "(the code waits on something the scheduler does not model: a plain thread, a sleep loop); this run has no verdict%s"
                  % (label, SIM_BACKSTOP, "; the remaining simulated runs of %s are skipped" % group if _STUCK[group] >= 2 else ""))
        return None


def guarded_replay(ctx, group, label, fn):
    """A replay of TLC behaviours (many simulated runs inside c01 / c03) with one wall-clock backstop around all of them."""
    if _STUCK[group] >= 2:
        _SKIPPED[group] += 1
        return None
    try:
        with guard.time_limit(REPLAY_BACKSTOP):
            with thread_queues_simulated():
                return fn()
    except guard.TimeLimitExceeded:
        _STUCK[group] += 2
        ctx.drift("%s: the replay of TLC behaviours did not end within %d s (a simulated run that cannot be scheduled); no verdict from it" % (label, REPLAY_BACKSTOP))
        return None


def next_flavour(ctx):
    """Fault flavours in rotation (starting point seeded), so that every entry point meets every flavour even in the quick tier."""
    if _ROT[0] == 0:
        _ROT[0] = 1 + ctx.rng.randrange(len(FLAVOURS))
    _ROT[0] += 1
    return FLAVOURS[_ROT[0] % len(FLAVOURS)]


def judge_fault(ctx, label, key, out, log, rep):
    started = [p for tag, p, who in log if tag == "cb_start"]
    fault_started = rep.get("fault_started")
    if out.status == "raised":
        return False
    if out.status == "limit":
        ctx.drift("%s: step limit reached" % label)
        return False
    if out.status == "hang":
        return ctx.violation(key + ":hang", "%s: a callback raised but the operation waits forever" % label, rep)
    # returned normally
    if fault_started:
        return ctx.violation(key + ":swallowed", "%s: a callback raised in a worker but the operation returned normally" % label, rep)
    return ctx.violation(key + ":item-never-run", "%s: returned normally although the faulty item was never even started" % label, rep)


def explore_stage_faults(ctx, stage, nws, policies, runs, items_subset=None, all_items_fail=False, cli_progress=False):
    items = stage.items()
    todo = items if items_subset is None else [items[i] for i in items_subset if i < len(items)]
    if all_items_fail:
        todo = ["ALL"]
    for it in todo:
        fset = set(items) if it == "ALL" else {it}
        for nw in nws:
            for pol in policies:
                for k in range(runs):
                    log = []
                    stage.flavour = next_flavour(ctx)
                    flav = stage.flavour
                    label = "%s, %s fault at %s, %d workers, %s" % (stage.name, flav, it, nw, pol)
                    if cli_progress:
                        label += " (cli_progress=True)"
                        with cli_progress_forced(True), stderr_silenced():
                            out = sim_run(ctx, stage.key, label, stage.main(nw, log, faults=fset), simrun.POLICIES[pol](ctx.rng))
                    else:
                        out = sim_run(ctx, stage.key, label, stage.main(nw, log, faults=fset), simrun.POLICIES[pol](ctx.rng))
                    stage.flavour = "plain"
                    if out is None:
                        continue
                    ctx.count()
                    fs = any(tag == "cb_start" and p[0] in fset for tag, p, who in log)
                    rep = {"stage": stage.name, "fault_item": it, "fault_flavour": flav, "workers": nw, "policy": pol, "status": out.status, "fault_started": fs,
                           "seed": ctx.seed, "trace_tail": [list(map(str, t)) for t in out.trace[-40:]]}
                    judge_fault(ctx, label, "C19:%s" % stage.key, out, log, rep)
                    ctx.distinct(("fault", stage.key, repr(it), nw, tuple((a, o) for a, _op, o in out.trace)))


def explore_walk_faults(ctx, depth, confs, nws, policies, runs, only_level=None, max_items=None):
    table = c01.ops_table(ctx, depth, [(a, x) for a, x, g in confs])
    for (acc, apex, generic), row in zip(confs, table):
        cand = [it for it in row["ops"] if only_level is None or it[0] == only_level]
        if max_items is not None and len(cand) > max_items:
            cand = cand[:1] + ctx.rng.sample(cand[1:], max_items - 1)
        for it in cand:
            # serial mode: the exception reaches the caller
            try:
                with simrun.quiet():
                    def cbs(pos):
                        if tuple(pos) == it:
                            raise ValueError("injected fault")
                    c01.build_pyramid(depth, acc, apex, generic).walk(cbs, parallel=1)
                ctx.violation("C19:walk:serial-swallowed", "serial walk returned normally although the callback raised at %s" % (it,), {"item": it})
            except ValueError:
                pass
            ctx.count()
            for nw in nws:
                for pol in policies:
                    for k in range(runs):
                        log = []
                        flav = next_flavour(ctx)
                        out = sim_run(ctx, "walk", "parallel walk depth %d apex %s, %s fault at %s, %d workers, %s" % (depth, apex, flav, it, nw, pol),
                                      c01.walk_main(depth, acc, apex, nw, log, faults={it}, generic=generic, flavour=flav), simrun.POLICIES[pol](ctx.rng))
                        if out is None:
                            continue
                        ctx.count()
                        fs = any(tag == "cb_start" and p == it for tag, p, who in log)
                        rep = {"stage": "walk", "depth": depth, "accept": sorted(acc), "apex": apex, "fault_item": it, "workers": nw, "policy": pol,
                               "status": out.status, "fault_started": fs, "seed": ctx.seed, "trace_tail": [list(map(str, t)) for t in out.trace[-40:]]}
                        rep["fault_flavour"] = flav
                        judge_fault(ctx, "parallel walk depth %d apex %s, %s fault at %s, %d workers, %s" % (depth, apex, flav, it, nw, pol), "C19:walk", out, log, rep)
                        # an incomplete pyramid must not be built on: no tile above the failed one may be processed, whatever the outcome
                        ops = set(row["ops"])
                        done = set()
                        for tag, p, who in log:
                            if tag == "cb_end":
                                done.add(p)
                            elif tag == "cb_start":
                                early = [k for k in c01.kids(p) if k in ops and k not in done]
                                if early:
                                    ctx.violation("C19:walk:parent-after-failed-child", "parallel walk depth %d, %s fault at %s: the callback for %s ran although the callback "
                                                  "of its child %s never completed" % (depth, flav, it, p, early[0]), rep)
                                    break
                        ctx.distinct(("fault", "walk", it, nw, tuple((a, o) for a, _op, o in out.trace)))


def explore_walk_many_faults(ctx, depth, confs, nws, policies, runs):
    """Systematic faults (e.g. a full disk): every operation of the deepest operation level fails, so every worker dies
    while tiles are still queued."""
    table = c01.ops_table(ctx, depth, [(a, x) for a, x, g in confs])
    for (acc, apex, generic), row in zip(confs, table):
        fset = {p for p in row["ops"] if p[0] == depth - 1}
        if len(fset) < 2:
            continue
        for nw in nws:
            for pol in policies:
                for k in range(runs):
                    log = []
                    flav = FLAVOURS[ctx.rng.randrange(len(FLAVOURS))]
                    out = sim_run(ctx, "walk", "parallel walk depth %d apex %s, %s fault at every level-%d operation, %d workers, %s" % (depth, apex, flav, depth - 1, nw, pol),
                                  c01.walk_main(depth, acc, apex, nw, log, faults=fset, generic=generic, flavour=flav), simrun.POLICIES[pol](ctx.rng))
                    if out is None:
                        continue
                    ctx.count()
                    fs = any(tag == "cb_start" and p in fset for tag, p, who in log)
                    rep = {"stage": "walk", "depth": depth, "accept": sorted(acc), "apex": apex, "fault_items": sorted(fset), "fault_flavour": flav, "workers": nw,
                           "policy": pol, "status": out.status, "fault_started": fs, "seed": ctx.seed, "trace_tail": [list(map(str, t)) for t in out.trace[-40:]]}
                    judge_fault(ctx, "parallel walk depth %d apex %s, %s fault at every level-%d operation, %d workers, %s" % (depth, apex, flav, depth - 1, nw, pol),
                                "C19:walk", out, log, rep)
                    ctx.distinct(("faults", "walk", tuple(sorted(fset)), nw, tuple((a, o) for a, _op, o in out.trace)))


def real_fault_run(ctx, name, fn):
    """fn() runs one real-process entry point whose callback raises at one item; must raise."""
    def body():
        with simrun.quiet():
            try:
                fn()
                return "returned"
            except Exception as e:  # noqa
                return "raised:%r" % (e,)
    # silence the worker's traceback
    devnull = os.open(os.devnull, os.O_WRONLY)
    saved = os.dup(2)
    os.dup2(devnull, 2)
    try:
        kind, val = guard.run_guarded(body, 90)
    finally:
        os.dup2(saved, 2)
        os.close(saved)
        os.close(devnull)
    ctx.count()
    ctx.distinct(("real-fault", name))
    rep = {"entry": name, "real_processes": True}
    if kind == "timeout":
        ctx.violation("C19:%s:hang-real" % name, "real-process %s with a raising callback did not end within the 90 s backstop" % name, rep)
    elif kind == "ok" and val == "returned":
        ctx.violation("C19:%s:swallowed-real" % name, "real-process %s returned normally although a callback raised in a worker" % name, rep)


# ------------------------------------------------------------------------------------------------
# the error on the PARENT's side: loading the k-th input image fails while the workers are running
# ------------------------------------------------------------------------------------------------

class InputLoadError(OSError):
    pass


@contextlib.contextmanager
def failing_images(k, fired):
    """SimpleFitsCollection.images() raises instead of delivering its k-th image (a truncated / vanished input file),
    whichever thread of the parent draws from it."""
    from toasty import collection

    def make(orig):
        def images(self):
            def gen():
                for i, img in enumerate(orig(self)):
                    if i == k:
                        fired.append(i)
                        S = simmp.S
                        if S is not None and S.me() is not None:
                            simmp.cb_sync("input_fail", (i,), None)
                        raise InputLoadError("injected: input image %d cannot be read (file truncated)" % i)
                    yield img
            return gen()
        return images
    with c03.patched(collection.SimpleFitsCollection, "images", make):
        yield


@contextlib.contextmanager
def cli_progress_forced(on):
    """tile() called the way every CLI command calls it: cli_progress=True (progress reporting is a second place, next to the
    queue protocol, where the parent may wait)."""
    if not on:
        yield
        return
    from toasty import multi_tan, multi_wcs
    mk = lambda orig: (lambda self, *a, **k: orig(self, *a, **dict(k, cli_progress=True)))      # noqa: E731
    with c03.patched(multi_tan.MultiTanProcessor, "tile", mk), c03.patched(multi_wcs.MultiWcsProcessor, "tile", mk):
        yield


@contextlib.contextmanager
def stderr_silenced():
    devnull = os.open(os.devnull, os.O_WRONLY)
    saved = os.dup(2)
    os.dup2(devnull, 2)
    try:
        yield
    finally:
        os.dup2(saved, 2)
        os.close(saved)
        os.close(devnull)


def real_stage(ctx, stage, parallel, wrap, faults=(), backstop=90):
    """stage with real worker processes inside the context manager wrap(); -> 'raised' | 'returned' | 'hang' | None (machinery)."""
    d = ctx.mkdtemp("c19real")
    stage.real_dir = d
    if faults:
        # real-process mode of c03's stages has no fault hook: the callback of a faulty item raises in the worker
        orig_cb = stage._cb_real

        def cb_real(key, extra):
            if key in faults:
                raise ValueError("injected fault at %r" % (key,))
            return orig_cb(key, extra)
        stage._cb_real = cb_real
    fn = stage.main(parallel, None)

    def body():
        import multiprocessing as mp
        try:
            with simrun.quiet(), wrap():
                try:
                    fn()
                    return "returned"
                except Exception as e:  # noqa
                    return "raised:%r" % (e,)
        finally:
            # the unchanged code leaves its daemonic workers polling when the parent raises: do not leave them behind
            for c in mp.active_children():
                try:
                    c.kill()
                except Exception:  # noqa
                    pass
    try:
        with stderr_silenced():
            kind, val = guard.run_guarded(body, backstop)
    finally:
        stage.real_dir = None
        stage.__dict__.pop("_cb_real", None)
    ctx.count()
    if kind == "timeout":
        return "hang"
    if kind == "raised":
        ctx.machinery("real-process run of %s broke: %s" % (stage.name, val))
        return None
    return "raised" if val.startswith("raised") else "returned"


def explore_input_faults(ctx, stage, nws, policies, runs, real_nws, cli_progress=False):
    """Loading the k-th input fails in the parent, for every k: tile() must raise, in serial mode, under the scheduler and with
    real processes."""
    n = len(stage.items())
    key = "C19:%s" % stage.key
    how = " (cli_progress=True)" if cli_progress else ""

    def judge(status, label, rep, fired):
        if not fired:
            ctx.drift("%s: images() was never drawn up to the failing input - no fault happened" % label)
        elif status == "returned":
            ctx.violation(key + ":input-error-swallowed", "%s: loading an input image raised in the parent but tile() returned normally "
                          "(that image and the following ones are missing from the pyramid)" % label, rep)
        elif status == "hang":
            ctx.violation(key + ":input-error-hang", "%s: loading an input image raised in the parent but tile() never ends" % label, rep)
        elif status == "limit":
            ctx.drift("%s: step limit reached" % label)
    for k in range(n):
        # serial reference
        fired = []
        label = "%s%s, input %d of %d unreadable, serial" % (stage.name, how, k, n)
        with failing_images(k, fired), cli_progress_forced(cli_progress), stderr_silenced():
            out = sim_run(ctx, stage.key, label, stage.main(1, []), simrun.pol_random(ctx.rng))
        if out is not None:
            ctx.count()
            judge(out.status, label, {"stage": stage.name, "input": k, "parallel": 1, "status": out.status}, fired)
        for nw in nws:
            for pol in policies:
                for _ in range(runs):
                    fired = []
                    label = "%s%s, input %d of %d unreadable, %d workers, %s" % (stage.name, how, k, n, nw, pol)
                    with failing_images(k, fired), cli_progress_forced(cli_progress), stderr_silenced():
                        out = sim_run(ctx, stage.key, label, stage.main(nw, []), simrun.POLICIES[pol](ctx.rng))
                    if out is None:
                        continue
                    ctx.count()
                    rep = {"stage": stage.name, "input": k, "workers": nw, "policy": pol, "status": out.status, "cli_progress": cli_progress, "seed": ctx.seed,
                           "trace_tail": [list(map(str, t)) for t in out.trace[-40:]]}
                    judge(out.status, label, rep, fired)
                    ctx.distinct(("input-fault", stage.key, k, nw, cli_progress, tuple((a, o) for a, _op, o in out.trace)))
        for nw in (real_nws(k) if callable(real_nws) else real_nws):
            label = "%s%s, input %d of %d unreadable, %d real worker processes" % (stage.name, how, k, n, nw)
            # `fired` lives in the forked child: a marker file tells the parent
            mark = os.path.join(ctx.mkdtemp("c19mark"), "fired")

            @contextlib.contextmanager
            def wrap():
                fl = []
                with failing_images(k, fl), cli_progress_forced(cli_progress):
                    try:
                        yield
                    finally:
                        if fl:
                            open(mark, "w").close()
            status = real_stage(ctx, stage, nw, wrap)
            if status is None:
                continue
            ctx.distinct(("input-fault-real", stage.key, k, nw, cli_progress))
            judge(status, label, {"stage": stage.name, "input": k, "workers": nw, "real_processes": True, "status": status, "cli_progress": cli_progress},
                  os.path.exists(mark) or status == "hang")


def explore_real_worker_faults(ctx, stage, nw, items, cli_progress):
    """A callback raising in a real worker process, the entry point called the way the CLI calls it."""
    key = "C19:%s" % stage.key
    how = " (cli_progress=True)" if cli_progress else ""
    for it in items:
        label = "%s%s, fault at item %s, %d real worker processes" % (stage.name, how, it, nw)
        status = real_stage(ctx, stage, nw, lambda: cli_progress_forced(cli_progress), faults={it}, backstop=60)
        ctx.distinct(("real-fault", stage.key, it, nw, cli_progress))
        rep = {"stage": stage.name, "fault_item": it, "workers": nw, "real_processes": True, "status": status, "cli_progress": cli_progress}
        if status == "hang":
            ctx.violation(key + ":hang-real", "%s: a callback raised in a worker but tile() did not end within the 60 s backstop" % label, rep)
            break       # one backstop per entry point is enough
        elif status == "returned":
            ctx.violation(key + ":swallowed-real", "%s: a callback raised in a worker but tile() returned normally" % label, rep)


def run(ctx):
    repo.setup(ctx)
    q = ctx.quick
    global REPLAY_BACKSTOP
    REPLAY_BACKSTOP = 400.0 if q else 2400.0
    ctx.rule = ("fault = an exception raised by the callback at one chosen item; TLC explores every fault item x every interleaving of the WorkQueue and WalkPar "
                "specs; TLC behaviours containing a fault are replayed into the real code; every (entry point, faulty item, worker count, schedule policy) "
                "combination listed is run on the real code under the deterministic scheduler, and once per entry point with real processes. distinct = "
                "distinct (entry point, fault item, workers, full schedule)")
    # (1) TLC (independent runs, side by side)
    import concurrent.futures
    confs = [dict(n=4, w=2, cap=2, faults="AnyOneFault"), dict(n=4, w=2, cap=1, faults="AnyFaults")]
    if not q:
        confs += [dict(n=5, w=2, cap=2, faults="AnyFaults"), dict(n=3, w=3, cap=1, faults="AnyFaults"), dict(n=4, w=3, cap=2, faults="AnyOneFault")]
    # items larger than the OS pipe (PipeCap 0) / a pipe of one item: the feeder thread blocks in a write that no dead worker
    # will ever receive, so the wait for the feeder must look at the workers too (JoinChecked)
    small = [dict(n=4, w=2, cap=4, faults="AnyFaults", pc=0), dict(n=3, w=2, cap=4, faults="AnyFaults", pc=1)]
    if not q:
        small += [dict(n=5, w=2, cap=4, faults="AnyFaults", pc=0), dict(n=4, w=3, cap=6, faults="AnyFaults", pc=1), dict(n=4, w=2, cap=2, faults="AnyFaults", pc=0)]
    l1 = c01.level(1)
    fam = [c01.with_kids(l1[1:2], 2), c01.with_kids([l1[0], l1[3]], 2), frozenset(l1) | {(2, 1, 0), (2, 3, 3), (2, 0, 3)}]
    if not q:
        fam.append(c01.with_kids(l1, 2))
    jobs = [lambda c=c: ctx.tlc("MCWorkQueue", cfg_text=WQ_CFG % c, timeout=1800, workers=4) for c in confs]
    jobs += [lambda c=c: ctx.tlc("MCWorkQueue", cfg_text=(WQ_CFG % c).replace("PipeCap = 99", "PipeCap = %d" % c["pc"]), timeout=1800, workers=4) for c in small]
    # negative control: the protocol that joins the feeder unconditionally (before the repair) never ends when every worker
    # has died with large items still buffered - TLC must refute Ends
    neg = lambda: ctx.tlc("MCWorkQueue", cfg_text=(WQ_CFG % small[0]).replace("PipeCap = 99", "PipeCap = 0").replace("JoinChecked = TRUE", "JoinChecked = FALSE"),      # noqa: E731
                          expect_violation=True, timeout=1800, count=False, workers=4)
    walkjob = lambda: ctx.tlc("Conf", extra={"Conf.tla": c01.conf_module("Conf", "WalkPar", fam, [c01.ROOT, (1, 1, 0)], "one")},      # noqa: E731
                              cfg_text=WALK_CFG % dict(depth=2, nw=2, cap=4), timeout=3000, workers=8)
    with concurrent.futures.ThreadPoolExecutor(max_workers=4) as ex:
        futs = [ex.submit(j) for j in jobs]
        fneg = ex.submit(neg)
        fwalk = ex.submit(walkjob)
        for f in futs:
            f.result()
        fwalk.result()
        r = fneg.result()
    if not r.violated:
        ctx.machinery("TLC did not refute Ends for the unconditional join_thread with PipeCap = 0 (negative control)")
    ctx.note("negative_control_unchecked_join_thread", str(r.violated))
    # (2) replay of fault behaviours
    stages = [c03.LeafStage("toast depth 1", 1), c03.TransformStage(1)]
    for st in stages:
        guarded_replay(ctx, st.key, "replay into %s" % st.name, lambda st=st: c03.replay_stage(ctx, st, 2, 40 if q else 300, 150, faultsets="AnyOneFault"))
    guarded_replay(ctx, "walk", "replay into the parallel walk", lambda: c01.replay_walk(ctx, 2, 2, fam, [c01.ROOT, (1, 1, 0)], 50 if q else 400, faults="one"))
    # (3) exploration: every item as the faulty one
    pols = ["random", "starve-feeder", "eager-timeout", "workers-last", "main-last"]
    acc5 = frozenset(l1[:2]) | {(2, 0, 0), (2, 1, 1), (2, 2, 0), (2, 3, 0), (2, 3, 1)}
    leaf_stages = [c03.LeafStage("toast depth 1", 1), c03.LeafStage("toast filtered depth 2", 2, accept=acc5)]
    if not q:
        leaf_stages.append(c03.LeafStage("toast depth 2", 2))
    for st in leaf_stages:
        explore_stage_faults(ctx, st, [2, 3] if q else [2, 3, 5], pols, 1 if q else 6)
    explore_stage_faults(ctx, c03.TransformStage(1), [2], pols, 1 if q else 6)
    if not q:
        explore_stage_faults(ctx, c03.TransformStage(2), [2, 3], pols, 2)
    explore_stage_faults(ctx, c03.MultiTanStage(ctx, 3), [2], ["random", "workers-last", "starve-feeder"], 1 if q else 5)
    explore_stage_faults(ctx, c03.MultiWcsStage(ctx, 3), [2], ["random", "workers-last", "starve-feeder"], 1 if q else 5)
    # the error on the parent's side (an input image that cannot be loaded), and the entry points called as the CLI calls them
    for st in (c03.MultiTanStage(ctx, 3), c03.MultiWcsStage(ctx, 3)):
        explore_input_faults(ctx, st, [2, 3], ["random", "workers-last"] if q else ["random", "workers-last", "main-last", "starve-feeder"], 1 if q else 4,
                             real_nws=(lambda k: [2, 3] if k == 2 else [2]) if q else [2, 3])
        explore_input_faults(ctx, st, [2], ["random"], 1 if q else 3, real_nws=(lambda k: [2] if k == 1 else []) if q else [2, 3], cli_progress=True)
        explore_stage_faults(ctx, st, [2], ["random", "late-timeout"], 1 if q else 3, cli_progress=True)
        explore_real_worker_faults(ctx, st, 2, [2] if q else [0, 1, 2], cli_progress=True)
        if not q:
            explore_real_worker_faults(ctx, st, 3, [0, 2], cli_progress=False)
    # images larger than the OS pipe: one fault, and every image failing (all workers dead with images still buffered)
    mtbig = c03.MultiTanStage(ctx, 5, shape=(150, 160))
    explore_stage_faults(ctx, mtbig, [2], ["random", "late-timeout"], 1 if q else 4, items_subset=[0, 2, 4])
    explore_stage_faults(ctx, mtbig, [2, 3], ["random", "workers-last", "late-timeout"], 1 if q else 4, all_items_fail=True)
    guarded_replay(ctx, "multi_tan", "replay into multi_tan (images larger than the pipe)",
                   lambda: c03.replay_stage(ctx, c03.MultiTanStage(ctx, 4, shape=(150, 160)), 2, 15 if q else 150, 150, faultsets="AnyFaults", pipecap=0))
    # many items, one worker-pair, tiny window: all workers can be dead while the queue is full
    explore_stage_faults(ctx, c03.LeafStage("toast depth 2", 2), [2], ["workers-last", "main-first", "random"], 1 if q else 4, items_subset=[0, 1, 7, 15])
    # every item fails: every worker dies while the producer still has items to put on the full queue
    explore_stage_faults(ctx, c03.LeafStage("toast depth 2", 2), [2, 3], ["workers-last", "random", "eager-timeout"], 1 if q else 5, all_items_fail=True)
    explore_stage_faults(ctx, c03.TransformStage(3), [2], ["random", "main-first"], 1 if q else 3, all_items_fail=True)
    wconfs = [(fam[0], c01.ROOT, False), (fam[2], c01.ROOT, False), (fam[1], (1, 0, 0), False), (c01.with_kids(l1, 2), c01.ROOT, True)]
    # "late-timeout": time-outs fire only when nothing else can run, as on a real machine where they take a second and
    # everything else microseconds - the schedule under which work continues after a failure
    wpols = (pols + ["late-timeout"]) if not q else ["random", "late-timeout", "starve-feeder"]
    explore_walk_faults(ctx, 2, wconfs if not q else wconfs[:3], [2] if q else [2, 3], wpols, 1 if q else 4)
    # a wide level: the failure is noticed while the surviving workers still have more ready tiles than the done queue holds
    d3 = c01.with_kids([(1, 0, 0), (1, 1, 1)], 3) - {(3, 0, 0), (3, 7, 7)}
    explore_walk_faults(ctx, 3, [(d3, c01.ROOT, False)], [2], ["eager-timeout", "late-timeout"] if q else ["eager-timeout", "late-timeout", "random", "starve-feeder"], 1 if q else 3,
                        only_level=2, max_items=3 if q else 8)
    l1full = c01.with_kids(l1, 3)
    explore_walk_many_faults(ctx, 2, [(c01.with_kids(l1, 2), c01.ROOT, True), (fam[1], c01.ROOT, False)], [2, 3], ["random", "workers-last", "eager-timeout"], 1 if q else 4)
    explore_walk_many_faults(ctx, 3, [(l1full, c01.ROOT, True)], [2], ["random", "main-first"], 1 if q else 3)
    # (4) real processes, one fault per entry point
    from toasty.pyramid import Pyramid

    def real_walk():
        def cb(pos):
            if tuple(pos) == (1, 1, 0):
                raise ValueError("injected fault")
        Pyramid.new_generic(2).walk(cb, parallel=2)

    def real_leaves():
        def cb(pos, tile):
            if tuple(pos) == (2, 1, 0):
                raise ValueError("injected fault")
        Pyramid.new_toast(2).visit_leaves(cb, parallel=2)

    def real_transform():
        from toasty import transform

        def do_one(buf, pos, pio_in, pio_out):
            if tuple(pos) == (1, 0, 1):
                raise ValueError("injected fault")
        transform._do_a_transform(None, 1, lambda: None, do_one, parallel=2)
    real_fault_run(ctx, "walk", real_walk)

    # the same entry points a second time in ONE process, after an earlier parallel operation of that process has already failed
    # (a notebook retrying, a driver moving on to the next data set): the second failure must be reported like the first
    def real_twice():
        for first in (real_leaves, real_transform):
            try:
                first()
                return "the FIRST failing operation returned normally"
            except Exception:  # noqa
                pass
        real_leaves()          # must raise (run_guarded turns a normal return into "returned")
    real_fault_run(ctx, "second-failure-in-one-process", real_twice)
    # ... and under `python -O` (assert statements compiled away)
    import subprocess
    import sys as _sys
    from lib.repo import REPO as _REPO
    code = ("import sys\n"
            "from toasty import transform\n"
            "def do_one(buf, pos, pio_in, pio_out):\n"
            "    if tuple(pos) == (1, 0, 1):\n"
            "        raise ValueError('injected fault')\n"
            "try:\n"
            "    transform._do_a_transform(None, 1, lambda: None, do_one, parallel=2)\n"
            "    print('RETURNED')\n"
            "except BaseException as e:\n"
            "    print('RAISED', type(e).__name__)\n")
    try:
        r = subprocess.run([_sys.executable, "-O", "-c", code], env=dict(os.environ, PYTHONPATH=_REPO, PYTHONOPTIMIZE="1"), stdout=subprocess.PIPE,
                           stderr=subprocess.DEVNULL, text=True, timeout=90)
        outp = r.stdout.strip().splitlines()[-1] if r.stdout.strip() else "no output (exit status %s)" % r.returncode
    except subprocess.TimeoutExpired:
        outp = "TIMEOUT"
    ctx.count()
    ctx.distinct(("real-fault", "transform-python-O"))
    if outp == "TIMEOUT":
        ctx.violation("C19:transform:hang-real-optimised", "parallel transform with a raising callback under `python -O` did not end within 90 s", {"entry": "transform", "python": "-O"})
    elif not outp.startswith("RAISED"):
        ctx.violation("C19:transform:swallowed-real-optimised", "parallel transform with a raising callback under `python -O` (assert statements compiled away): %s" % outp,
                      {"entry": "transform", "python": "-O"})
    if not q:
        real_fault_run(ctx, "visit_leaves", real_leaves)
        real_fault_run(ctx, "transform", real_transform)
    ctx.assume("a failing callback terminates its worker process with a non-zero exit status (true for uncaught Python exceptions and for signals)")
    if _STUCK:
        ctx.note("simulated_runs_without_verdict", "%s stopped by the wall-clock backstop, %s skipped after that" % (dict(_STUCK), dict(_SKIPPED)))
    ctx.assume("multiprocessing primitives behave like lib/simmp.py's fakes; the real-process runs sample that")
