"""G11 (growth specification, DESIGN.md section 7) - the value sampling of toasty.samplers.WcsSampler and the geometry
of Image.make_thumbnail_bitmap.

Specs: spec/WcsSampling.tla (+ MCWcsSampling.tla/.cfg for a stand-alone run) - images on an integer sky lattice (CAR with
CRVAL on the equator: plane = sky; TAN: plane lifted by the harness), the contract as a containment relation, its closed
form, and the transcription of vec2pix (astropy's floor(p + 1/2), the bounds test, idx[bad] = 0, NaN); a state machine over
the equivalent descriptions of one picture (FlipParity = Parity!FlipWcs + reversed rows, Rotate, RecentreWithin) with the
as-built action RecentreAcrossSeam; requests are grids of probe points (main window, transposed, one row / column / point,
+-1 / +-2 turns, opposite meridian / far outside), points behind the tangent plane, NaN inputs, a scalar request and a
latitude beyond the pole.  spec/WcsSamplingThumb.tla (+ MCWcsSamplingThumb.tla/.cfg) - the crop box, PIL's thumbnail size
rule, refusal and mode conversion of make_thumbnail_bitmap over a size x mode table.

Binding (spec -> code): every state TLC emits is lifted to a real astropy WCS + numpy array (element [j][i], channel k =
base + pix * ch + k, in one of eight dtypes) and every request is run through the real WcsSampler(...).sampler(); shape,
dtype and every element are compared with TLC's answer (points TLC marks as lying on a pixel edge / the native seam are
not compared).  The same requests are repeated (the sampler keeps no state, the caller's array is untouched), run on the
real Image.flip_parity() / ensure_negative_parity() of the image, and real TOAST tile grids are sampled whole, by rows, by
columns and by single pixels (sentence 5).  Thumbnails: every (size, mode) record is run through the real
make_thumbnail_bitmap on an Image whose pixels encode their coordinates; refusal, output size and mode are compared, the
crop box is read off the pixels (unresized) or the bitmap is compared with PIL's thumbnail of TLC's box (resized).
"""
import math
import os
import random

from lib import repo, tla

UNDEF, EDGE = -1, -2
G_DEFAULT = 3
FAR = 10000

# ------------------------------------------------------------------------------------------------
# inputs: the root images (Python enumerates inputs only; what they mean comes from TLC)
# ------------------------------------------------------------------------------------------------
CDS = [(-1, 0, 0, 1), (1, 0, 0, 1), (-2, 0, 0, 1), (-1, 0, 0, 2), (-1, 1, 0, 1), (1, 1, 0, 1), (-2, 1, -1, 1), (2, 1, 1, 1), (1, -1, 1, 1),
       (0, 1, 1, 0), (0, -1, 1, 0), (-1, 0, 0, -1), (3, 0, 0, 2)]
SIZES = [(1, 1), (2, 1), (1, 3), (3, 2), (2, 3), (4, 3), (5, 2), (3, 3)]
DATA = [(0, 1), (0, 1), (0, 3), (0, 4), (16777210, 1), (67108861, 1), (200, 1)]
TAN_CRVALS = [(10.0, 20.0), (0.0, 0.0), (359.99, -45.5), (123.0, 89.5), (0.5, -88.0), (180.0, 0.0), (283.25, 67.0)]
TAN_UNITS = [1e-3, 0.01, 0.25]


def root(rid, proj, nx, ny, cd, r, lon0=0, per=0, base=0, ch=1, deltas=()):
    return {"id": rid, "proj": proj, "nx": nx, "ny": ny, "cd": tuple(cd), "r": tuple(r), "lon0": lon0, "per": per, "base": base, "ch": ch,
            "deltas": tuple(sorted(set(deltas)))}


def corners2(rt):
    a, b, c, d = rt["cd"]
    xs, ys = [], []
    for e1 in (1, 2 * rt["nx"] + 1):
        for e2 in (1, 2 * rt["ny"] + 1):
            xs.append(a * (e1 - rt["r"][0]) + b * (e2 - rt["r"][1]))
            ys.append(c * (e1 - rt["r"][0]) + d * (e2 - rt["r"][1]))
    return xs, ys


def admissible(rt, margin=1):
    """Input filter: the footprint is a valid piece of sky for the model (CAR: between the poles, less than a turn wide,
    reference point less than a turn from the footprint, also after the recentrings)."""
    a, b, c, d = rt["cd"]
    if a * d - b * c == 0:
        return False
    if rt["ch"] > 1 and rt["base"] + rt["nx"] * rt["ny"] * rt["ch"] > 255:      # colour data are uint8
        return False
    if rt["proj"] != "CAR":
        return True
    xs, ys = corners2(rt)                                 # doubled lattice coordinates
    per = rt["per"]
    if per % 4:
        return False
    if 2 * max(abs(v) for v in ys) > per:                 # |y| <= per / 4: between the poles
        return False
    if max(xs) - min(xs) > 2 * per:                       # at most one turn wide
        return False
    shift = max([0] + [abs(m) for m in rt["deltas"]]) * max(abs(a), abs(b), abs(c), abs(d))
    return max(abs(v) for v in xs) + 2 * shift < 3 * per  # native |x| stays below 1.5 turns, also after a recentring (the ideal tries -1..1 turns)


FIXED_ROOTS = [
    # small field near the native origin; recentring by 9 pixels carries it across the native seam
    root(1, "CAR", 3, 2, (-1, 0, 0, 1), (2, 2), lon0=5, per=16, deltas=(2, 9)),
    # all sky, 4 x 2 pixels of 90 degrees, CRPIX at the centre
    root(2, "CAR", 4, 2, (-1, 0, 0, 1), (5, 3), lon0=0, per=4, deltas=(1,)),
    # a description that reaches beyond 180 degrees of native longitude from the start; values cross 2^24
    root(3, "CAR", 4, 2, (-1, 0, 0, 1), (20, 3), lon0=0, per=16, base=16777210),
    # RGB, half-integer reference pixel
    root(4, "TAN", 3, 2, (-1, 0, 0, 1), (5, 3), ch=3),
    # skewed, reference pixel outside the image
    root(5, "TAN", 2, 3, (-2, 1, -1, 1), (-3, 7)),
]
MORE_FIXED = [
    root(6, "TAN", 1, 1, (1, 0, 0, 1), (2, 2), ch=4),
    root(7, "CAR", 8, 4, (-1, 0, 0, 1), (9, 5), lon0=4, per=8, deltas=(1, 3)),
    root(8, "CAR", 2, 3, (1, -1, 1, 1), (3, 4), lon0=350, per=360, deltas=(1,)),
    root(9, "TAN", 4, 3, (1, -1, 1, 1), (41, -30), base=67108861),
    root(10, "CAR", 5, 2, (-2, 0, 0, 1), (6, 3), lon0=12, per=24, deltas=(5, 1)),
]


def random_root(rng, rid):
    for _ in range(1000):
        proj = rng.choice(["CAR", "TAN", "TAN"])
        nx, ny = rng.choice(SIZES)
        cd = rng.choice(CDS)
        rx = rng.choice([2, 3, 1, nx + 1, 2 * nx + 1, 2 * nx, -5, 2 * nx + 8, 41])
        ry = rng.choice([2, 3, 1, ny + 1, 2 * ny + 1, 2 * ny, -4, 2 * ny + 7, -30])
        base, ch = rng.choice(DATA)
        if proj == "CAR":
            per = rng.choice([16, 24, 360, 8])
            lon0 = rng.choice([0, per // 2, 3, per - 1, per // 4])
            deltas = rng.sample([1, 2, 3, per // 4, per // 2 - 1], rng.choice([0, 1, 1, 2]))
            if abs(ry - (ny + 1)) > 2 * ny + 8:
                ry = ny + 1
            rt = root(rid, proj, nx, ny, cd, (rx, ry), lon0, per, base, ch, deltas)
        else:
            rt = root(rid, proj, nx, ny, cd, (rx, ry), 0, 0, base, ch, ())
        if admissible(rt):
            return rt
    raise RuntimeError("no admissible root")


def root_tla(rt):
    return ("[id |-> %d, proj |-> %s, nx |-> %d, ny |-> %d, cd |-> %s, r |-> %s, lon0 |-> %d, per |-> %d, base |-> %d, ch |-> %d, deltas |-> %s]"
            % (rt["id"], tla.lit(rt["proj"]), rt["nx"], rt["ny"], tla.lit(rt["cd"]), tla.lit(rt["r"]), rt["lon0"], rt["per"], rt["base"], rt["ch"],
               "{" + ", ".join(str(m) for m in rt["deltas"]) + "}"))


SAMPLING_INVARIANTS_QUICK = ["TypeOK", "PointTheorems", "NoPixelUndefined", "Periodic", "Elementwise", "Float32OK", "BoundaryHalfOpen"]
SAMPLING_INVARIANTS_FULL = ["TypeOK", "CellClosedForm", "CodeDecidesCell", "SeamOnlyLoses", "NoWrapAround", "IndexSafe", "SamePicture",
                            "NoPixelUndefined", "Periodic", "Elementwise", "Float32OK", "BoundaryHalfOpen"]
SAMPLING_PROPERTIES = ["FlipKeepsPicture", "RotateKeepsPicture", "RecentreWithinKeepsPicture"]
SAMPLING_IDEALS = ["IdealSeamless", "IdealExactValues", "IdealScalarAnswered", "IdealLatitudeTolerant", "IdealClosedFootprint"]
THUMB_INVARIANTS = ["TypeOK", "BoxInside", "FullAxis", "Centred", "AspectWithinRounding", "ExactAspectUncropped", "Idempotent96x45", "OutWithinThumb",
                    "ShrunkNearExact", "SmallNotUpscaled", "NonEmpty", "WidthOneYieldsEmpty", "WidthTieOnly16", "NoHeightTie", "RefusalOK", "AlphaDropped"]
THUMB_PROPERTIES = ["WidenKeepsCrop", "HeightenKeepsCrop", "ModeIsNotGeometry", "DoubleKeepsOutput"]
THUMB_IDEALS = ["IdealAlways96x45", "IdealShrunkIsExact", "IdealNeverEmpty", "IdealIdempotent", "IdealTransparentIsBackground"]


def sampling_cfg(invariants, g, props=True, emit=True):
    lines = ["SPECIFICATION Spec", "CONSTANTS", " Roots <- MCRoots", " G = %d" % g, " Margin = 1", " Far = %d" % FAR]
    lines += ["INVARIANT %s" % i for i in invariants]
    if emit:
        lines.append("INVARIANT Emit")
    if props:
        lines += ["PROPERTY %s" % p for p in SAMPLING_PROPERTIES]
    lines.append("CHECK_DEADLOCK FALSE")
    return "\n".join(lines) + "\n"


def sampling_module(name, roots):
    return tla.module(name, ["WcsSampling", "Json"],
                      [("MCRoots", "{" + ",\n  ".join(root_tla(r) for r in roots) + "}"), 'Emit == PrintT(<<"S", ToJson(Report)>>)'])


def thumb_cfg(invariants, props=True, emit=True):
    lines = ["SPECIFICATION Spec", "CONSTANTS", " Sizes <- MCSizes", " SmallSizes <- MCSmallSizes"]
    lines += ["INVARIANT %s" % i for i in invariants]
    if emit:
        lines.append("INVARIANT Emit")
    if props:
        lines += ["PROPERTY %s" % p for p in THUMB_PROPERTIES]
    lines.append("CHECK_DEADLOCK FALSE")
    return "\n".join(lines) + "\n"


def thumb_module(name, sizes, small):
    def s(v):
        return "{" + ", ".join("<<%d, %d>>" % p for p in sorted(v)) + "}"
    return tla.module(name, ["WcsSamplingThumb", "Json"], [("MCSizes", s(sizes)), ("MCSmallSizes", s(small)), 'Emit == PrintT(<<"T", ToJson(Report)>>)'])


def thumb_sizes(rng, quick):
    n = 26 if quick else 64
    sizes = set((w, h) for w in range(1, n + 1) for h in range(1, n + 1))
    sizes |= set((w, h) for w in range(93, 99) for h in range(43, 48))
    sizes |= {(96, 45), (192, 90), (191, 90), (193, 90), (32, 15), (64, 30), (1000, 1), (1, 1000), (1, 45), (96, 1), (4000, 30), (30, 4000), (2000, 1000),
              (1000, 2000), (144, 300), (110, 300), (112, 300), (176, 90), (208, 1000), (48, 100), (80, 200), (16, 100), (138, 46), (300, 100), (100, 300),
              (100, 100), (200, 100), (400, 200), (101, 47), (202, 94)}
    for _ in range(40 if quick else 400):
        sizes.add((rng.randint(1, 700), rng.randint(1, 700)))
    for _ in range(6 if quick else 40):
        sizes.add((rng.choice([16, 48, 80, 112, 144, 176, 208, 240, 496, 1008]), rng.randint(40, 1200)))
    if not quick:
        sizes |= {(4096, 1920), (4000, 3000), (3000, 4000), (2048, 1), (2, 2048)}
        sizes |= set((w, h) for w in range(180, 200) for h in range(84, 96))
    small = {(1, 1), (50, 50), (96, 45), (300, 100)}
    return sizes, small


# ------------------------------------------------------------------------------------------------
# lifting one emitted state to a real WCS + array
# ------------------------------------------------------------------------------------------------
D2R = math.pi / 180.0
DTYPES_SCALAR = ["float32", "float64", "int16", "int32", "int64", "uint8", "uint16", ">f4"]


def choose_dtype(img, salt):
    top = img["base"] + img["nx"] * img["ny"] * img["ch"]
    if img["ch"] > 1:
        return "uint8" if top < 256 else "float64"
    if top >= 32768:
        return ["int32", "int64", "float64"][salt % 3]
    if top >= 256:
        return ["int16", "int32", "float32", "float64", "uint16"][salt % 5]
    return DTYPES_SCALAR[salt % len(DTYPES_SCALAR)]


def make_array(img, dtype):
    import numpy as np
    pix = np.array(img["pix"], dtype=np.int64)
    if img["ch"] == 1:
        arr = img["base"] + pix
    else:
        arr = img["base"] + pix[:, :, None] * img["ch"] + np.arange(img["ch"])[None, None, :]
    return np.ascontiguousarray(arr.astype(np.dtype(dtype)))


def make_wcs(img, unit, crval):
    from astropy.wcs import WCS
    w = WCS(naxis=2)
    w.wcs.ctype = ["RA---" + img["proj"], "DEC--" + img["proj"]]
    w.wcs.crval = list(crval)
    w.wcs.crpix = [img["r"][0] / 2.0, img["r"][1] / 2.0]
    a, b, c, d = img["cd"]
    w.wcs.cd = [[a * unit, b * unit], [c * unit, d * unit]]
    w.wcs.set()
    w.pixel_shape = (img["nx"], img["ny"])
    return w


def rotate_native(phi, theta, crval):
    """Native spherical (phi, theta; radians) of a zenithal projection -> celestial (radians); LONPOLE = 180 deg (CRVAL2 < 90)."""
    import numpy as np
    a0, d0 = crval[0] * D2R, crval[1] * D2R
    dphi = phi - math.pi
    sd = np.sin(theta) * math.sin(d0) + np.cos(theta) * math.cos(d0) * np.cos(dphi)
    dec = np.arcsin(np.clip(sd, -1.0, 1.0))
    ra = a0 + np.arctan2(-np.cos(theta) * np.sin(dphi), np.sin(theta) * math.cos(d0) - np.cos(theta) * math.sin(d0) * np.cos(dphi))
    return ra, dec


def tan_lift(x_deg, y_deg, crval):
    """Closed-form gnomonic deprojection of intermediate world coordinates (degrees)."""
    import numpy as np
    phi = np.arctan2(x_deg, -y_deg)
    theta = np.arctan2(1.0, np.hypot(x_deg, y_deg) * D2R)
    return rotate_native(phi, theta, crval)


def request_lonlat(st, lift, xs, ys, t, tr):
    """(lon, lat) radian grids of a request; element [r][q] = (xs[q], ys[r]) or, transposed, (xs[r], ys[q])."""
    import numpy as np
    g = float(st["g"])
    X, Y = np.meshgrid(np.array(xs, dtype=float), np.array(ys, dtype=float))      # [r][q] = xs[q], ys[r]
    if tr:
        X, Y = X.T.copy(), Y.T.copy()
    unit = lift["unit"]
    if st["img"]["proj"] == "CAR":
        lon = (X / g * unit + 360.0 * t) * D2R
        lat = Y / g * unit * D2R
    else:
        lon, lat = tan_lift(X / g * unit, Y / g * unit, lift["crval"])
        lon = lon + 2.0 * math.pi * t
    return lon, lat


def expected_array(st, res):
    """TLC's answer matrix of source pixels -> (float32 array with NaN, compare-mask)."""
    import numpy as np
    src = np.array(res, dtype=np.int64)
    ch = st["img"]["ch"]
    vals = np.array(st["values"], dtype=np.float64)              # [src][k]
    safe = np.where(src >= 0, src, 0)
    out = vals[safe]                                              # (..., ch)
    out = np.where((src == UNDEF)[..., None], np.nan, out)
    mask = src != EDGE
    if ch == 1:
        out = out[..., 0]
    return out.astype(np.float32), mask, src


def compare(st, what, got, res, findings, where, deviation):
    import numpy as np
    exp, mask, src = expected_array(st, res)
    ch = st["img"]["ch"]
    want_shape = src.shape + ((ch,) if ch > 1 else ())
    if not isinstance(got, np.ndarray):
        findings.append(("V", "G11:sampler:shape", "%s: the sampler returned %r, not an array %s" % (what, type(got).__name__, where)))
        return 0
    if got.shape != want_shape:
        findings.append(("V", "G11:sampler:shape", "%s: result shape %s, request shape %s (+ %d colour values) %s" % (what, got.shape, src.shape, ch if ch > 1 else 0, where)))
        return 0
    if got.dtype != np.float32:
        findings.append(("V", "G11:sampler:dtype", "%s: result dtype %s, documented float32 %s" % (what, got.dtype, where)))
    g = np.asarray(got, dtype=np.float32)
    m = mask if ch == 1 else np.broadcast_to(mask[..., None], g.shape)
    bad = m & ~((g == exp) | (np.isnan(g) & np.isnan(exp)))
    if bad.any():
        idx = tuple(int(v) for v in np.argwhere(bad)[0])
        rq = idx[:2]
        s = int(src[rq])
        gv, ev = g[idx], exp[idx]
        if s == UNDEF:
            key, txt = "G11:sampler:outside", "a point outside every pixel's cell must come back NaN"
        elif np.isnan(gv):
            key, txt = "G11:sampler:value", "a point inside the cell of source pixel %d came back NaN" % s
        else:
            key, txt = "G11:sampler:value", "a point inside the cell of source pixel %d" % s
        msg = "%s: %d of %d compared elements differ; first at [%d][%d]%s: got %r, specified %r (%s) %s" % (
            what, int(bad.sum()), int(m.sum()), rq[0], rq[1], ("[%d]" % idx[2]) if ch > 1 else "", float(gv), float(ev), txt, where)
        findings.append(("D" if deviation else "V", key if not deviation else "as-built-state", msg))
    return int(mask.sum())


def replay_state(job):
    """Pool worker: one emitted state -> (findings, stats)."""
    st, lift, opts = job
    repo.setup()
    import warnings
    warnings.simplefilter("ignore")
    import numpy as np
    from toasty.samplers import WcsSampler
    findings = []
    stats = {"calls": 0, "elements": 0, "requests": 0, "flip_routes": 0, "deviations": {}}
    img = st["img"]
    where = "[root %d, %s %dx%d cd=%s crpix=(%s, %s)%s, dtype %s, after %s]" % (
        st["root"], img["proj"], img["nx"], img["ny"], img["cd"], img["r"][0] / 2.0, img["r"][1] / 2.0,
        (" crval=(%g, 0)" % (img["lon0"] * lift["unit"])) if img["proj"] == "CAR" else " crval=%s" % (lift["crval"],), lift["dtype"], st["act"])
    deviation = not st["inNative"]
    try:
        arr = make_array(img, lift["dtype"])
        keep = arr.copy()
        crval = (img["lon0"] * lift["unit"], 0.0) if img["proj"] == "CAR" else lift["crval"]
        wcs = make_wcs(img, lift["unit"], crval)
        sampler = WcsSampler(arr, wcs).sampler()
    except Exception as e:  # noqa
        findings.append(("V", "G11:sampler:raised", "constructing the sampler raised %r %s" % (e, where)))
        return findings, stats

    def call(fn, lon, lat, what):
        stats["calls"] += 1
        try:
            return fn(lon, lat), None
        except Exception as e:  # noqa
            return None, e

    grids = {}
    for rq in st["reqs"]:
        lon, lat = request_lonlat(st, lift, rq["xs"], rq["ys"], rq["t"], rq["tr"])
        grids[rq["name"]] = (lon, lat)
        if rq["name"] == "main" and img["proj"] == "TAN" and opts.get("selfcheck"):
            # the closed-form lifting must agree with the WCS library's own deprojection of the same plane points (machinery self-check)
            g = float(st["g"])
            X, Y = np.meshgrid(np.array(rq["xs"], dtype=float), np.array(rq["ys"], dtype=float))
            a, b, c, d = img["cd"]
            det = float(a * d - b * c)
            px = img["r"][0] / 2.0 + (d * X - b * Y) / (det * g)
            py = img["r"][1] / 2.0 + (-c * X + a * Y) / (det * g)
            world = wcs.wcs_pix2world(np.stack([px.ravel(), py.ravel()], 1), 1)
            dl = np.abs(((np.degrees(lon.ravel()) - world[:, 0] + 180.0) % 360.0) - 180.0) * np.cos(lat.ravel())
            db = np.abs(np.degrees(lat.ravel()) - world[:, 1])
            if max(dl.max(), db.max()) > 1e-9:
                findings.append(("M", "lift", "the harness's gnomonic lifting differs from wcslib's pix2world by %g deg %s" % (max(dl.max(), db.max()), where)))
                return findings, stats
        got, exc = call(sampler, lon, lat, rq["name"])
        if exc is not None:
            findings.append(("V", "G11:sampler:raised", "request %s (%d x %d points) raised %r %s" % (rq["name"], lon.shape[0], lon.shape[1], exc, where)))
            continue
        stats["requests"] += 1
        stats["elements"] += compare(st, "request " + rq["name"], got, rq["res"], findings, where, deviation)
    main = st["reqs"][0]
    # points with no pixel at all: behind the tangent plane (TAN), NaN inputs
    if st["off"]:
        dist = {1: 90.5, 2: 120.0, 3: 180.0}
        phi = np.array([[o["ph"] * (math.pi / 2.0) + 0.3 for o in st["off"]]])
        theta = np.array([[(90.0 - dist[o["d"]]) * D2R for o in st["off"]]])
        lon, lat = rotate_native(phi, theta, lift["crval"])
        lon = lon + 2.0 * math.pi * np.array([[o["t"] for o in st["off"]]])
        got, exc = call(sampler, lon, lat, "off-plane")
        if exc is not None:
            findings.append(("V", "G11:sampler:raised", "points behind the tangent plane raised %r %s" % (exc, where)))
        else:
            stats["elements"] += compare(st, "points 90.5 / 120 / 180 deg from CRVAL", got, [[o["res"] for o in st["off"]]], findings, where, False)
    mlon, mlat = grids["one-point"]
    lon = np.array([[float("nan"), float(mlon[0, 0]), float("nan")]])
    lat = np.array([[float(mlat[0, 0]), float("nan"), float("nan")]])
    got, exc = call(sampler, lon, lat, "nan")
    if exc is not None:
        findings.append(("V", "G11:sampler:raised", "NaN coordinates raised %r %s" % (exc, where)))
    else:
        stats["elements"] += compare(st, "NaN coordinates", got, [[n["res"] for n in st["nan"]]], findings, where, False)
    # the requests the code does not answer (as built): a deviation from the recorded behaviour is drift, not an alarm
    got, exc = call(sampler, float(mlon[0, 0]), float(mlat[0, 0]), "scalar")
    seen = type(exc).__name__ if exc is not None else "array"
    stats["deviations"]["ScalarRequestRaises"] = seen
    if seen != st["scalar"]["outcome"]:
        findings.append(("D", "ScalarRequestRaises", "a scalar request gave %s (%r); the specification records %s %s" % (seen, got if exc is None else exc, st["scalar"]["outcome"], where)))
    elif exc is None:
        # a colour image answers a scalar request with the point's channels
        exp, mask, _src = expected_array(st, [[st["scalar"]["res"]]])
        if mask[0, 0] and not (isinstance(got, np.ndarray) and got.shape == exp.shape[2:] and np.array_equal(got, exp[0, 0], equal_nan=True)):
            findings.append(("D" if deviation else "V", "G11:sampler:value" if not deviation else "as-built-state",
                             "a scalar request returned %r, specified %r %s" % (got, exp[0, 0], where)))
    if st["latbad"]["outcome"] != "none":
        lat_bad = st["latbad"]["y"] / float(st["g"]) * lift["unit"] * D2R
        lon = np.array([[float(mlon[0, 0])] * 3])
        lat = np.array([[float(mlat[0, 0]), lat_bad, float(mlat[0, 0])]])
        got, exc = call(sampler, lon, lat, "latbad")
        seen = type(exc).__name__ if exc is not None else "array"
        stats["deviations"]["LatitudeOutOfRangeRaises"] = seen
        if seen != st["latbad"]["outcome"]:
            findings.append(("D", "LatitudeOutOfRangeRaises", "a request holding the latitude %.3f deg gave %s; the specification records %s %s"
                             % (math.degrees(lat_bad), seen, st["latbad"]["outcome"], where)))
    # no state: the same request again, after all the others (out-of-range points, NaN, failed calls); the caller's array is untouched
    lon, lat = grids["main"]
    got, exc = call(sampler, lon, lat, "main again")
    if exc is not None:
        findings.append(("V", "G11:sampler:raised", "the main request, repeated, raised %r %s" % (exc, where)))
    else:
        compare(st, "request main, repeated after the other requests", got, main["res"], findings, where, deviation)
    if not np.array_equal(arr, keep):
        findings.append(("V", "G11:sampler:value", "sampling changed the caller's data array (%d elements differ) %s" % (int((arr != keep).sum()), where)))
    # sentence 4 on the real flip: Image.flip_parity() / ensure_negative_parity() of this image answer the main request alike
    if lift["dtype"] in ("float32", "float64", "int16", "int32", "uint8"):
        try:
            from toasty.image import Image
            for route in ("flip_parity", "ensure_negative_parity"):
                im = Image.from_array(make_array(img, lift["dtype"]), wcs=make_wcs(img, lift["unit"], crval))
                getattr(im, route)()
                s2 = WcsSampler(im.asarray(), im.wcs).sampler()
                got, exc = call(s2, lon, lat, route)
                if exc is not None:
                    findings.append(("V", "G11:sampler:raised", "after Image.%s(): the main request raised %r %s" % (route, exc, where)))
                else:
                    stats["flip_routes"] += 1
                    stats["elements"] += compare(st, "request main after the real Image.%s()" % route, got, main["res"], findings, where, deviation)
        except Exception as e:  # noqa
            findings.append(("M", "flip", "building / flipping the toasty Image failed: %r %s" % (e, where)))
    # sentence 5 on real TOAST tile grids: whole tile = rows = columns = single pixels
    if opts.get("tiles"):
        try:
            findings += tile_composition(sampler, st, lift, crval, stats, where, opts["tiles"])
        except Exception as e:  # noqa
            findings.append(("V", "G11:sampler:raised", "sampling a TOAST tile grid raised %r %s" % (e, where)))
    return findings, stats


def tile_composition(sampler, st, lift, crval, stats, where, ntiles):
    """Real TOAST pixel grids (toast_tile_get_coords) around the image: the whole 256 x 256 request against its rows, columns and
    single pixels (theorem Elementwise; no expected values needed: TLC's statement is that the answer is element-wise)."""
    import numpy as np
    from toasty import toast
    findings = []
    # the tile(s) holding the sky position of the image's central pixel, at the depth whose pixels are about half an image pixel
    img = st["img"]
    unit = lift["unit"]
    depth = int(min(12, max(1, round(math.log2(90.0 / (128.0 * unit))) + 1)))
    a, b, c, d = img["cd"]
    p1, p2 = (img["nx"] + 1) / 2.0 - img["r"][0] / 2.0, (img["ny"] + 1) / 2.0 - img["r"][1] / 2.0
    x, y = (a * p1 + b * p2) * unit, (c * p1 + d * p2) * unit
    if img["proj"] == "CAR":
        lon_c, lat_c = (crval[0] + x) * D2R, y * D2R
    else:
        lon_c, lat_c = [float(v) for v in tan_lift(np.float64(x), np.float64(y), crval)]
    tiles = [toast.toast_tile_for_point(dd, lat_c, lon_c % (2.0 * math.pi)) for dd in range(depth, max(0, depth - ntiles), -1)]
    for t in tiles:
        lon, lat = toast.toast_tile_get_coords(t)
        whole = sampler(lon, lat)
        stats["calls"] += 1
        if whole.shape[:2] != lon.shape:
            findings.append(("V", "G11:sampler:shape", "TOAST tile %s: result shape %s for a %s request %s" % (tuple(t.pos), whole.shape, lon.shape, where)))
            continue
        rows = [0, 1, 100, 127, 128, 255]
        for r in rows:
            part = sampler(lon[r:r + 1, :], lat[r:r + 1, :])
            stats["calls"] += 1
            if not np.array_equal(part[0], whole[r], equal_nan=True):
                findings.append(("V", "G11:sampler:value", "TOAST tile %s: row %d sampled alone differs from the same row of the whole-tile request %s" % (tuple(t.pos), r, where)))
                break
        for q in rows:
            part = sampler(lon[:, q:q + 1], lat[:, q:q + 1])
            stats["calls"] += 1
            if not np.array_equal(part[:, 0], whole[:, q], equal_nan=True):
                findings.append(("V", "G11:sampler:value", "TOAST tile %s: column %d sampled alone differs from the same column of the whole-tile request %s" % (tuple(t.pos), q, where)))
                break
        for (r, q) in [(0, 0), (0, 255), (255, 0), (17, 200), (128, 128), (200, 17)]:
            part = sampler(lon[r:r + 1, q:q + 1], lat[r:r + 1, q:q + 1])
            stats["calls"] += 1
            if not np.array_equal(part[0, 0], whole[r, q], equal_nan=True):
                findings.append(("V", "G11:sampler:value", "TOAST tile %s: pixel [%d][%d] sampled alone differs from the whole-tile request %s" % (tuple(t.pos), r, q, where)))
                break
        stats["tiles"] = stats.get("tiles", 0) + 1
        stats["tile_defined"] = stats.get("tile_defined", 0) + int(np.isfinite(whole).sum())
    return findings


# ------------------------------------------------------------------------------------------------
# thumbnails
# ------------------------------------------------------------------------------------------------
def coord_image(w, h, ch):
    import numpy as np
    a = np.zeros((h, w, ch), dtype=np.uint8)
    x = np.arange(w)[None, :]
    y = np.arange(h)[:, None]
    a[..., 0] = x % 256
    a[..., 1] = y % 256
    a[..., 2] = ((x // 256) + 16 * (y // 256)) % 256
    if ch == 4:
        a[..., 3] = np.array([0, 128, 255], dtype=np.uint8)[(x + 2 * y) % 3]
    return a


def mode_array(mode, w, h):
    import numpy as np
    if mode == "RGB":
        return coord_image(w, h, 3)
    if mode == "RGBA":
        return coord_image(w, h, 4)
    if mode == "F16x3":
        return np.zeros((h, w, 3), dtype=np.float16)
    return np.zeros((h, w), dtype={"U8": np.uint8, "I16": np.int16, "I32": np.int32, "F32": np.float32, "F64": np.float64}[mode])


def pil_reference(arr, box):
    from PIL import Image as PILImage
    t = PILImage.fromarray(arr).crop(tuple(box))
    t.thumbnail((96, 45))
    return t.convert("RGB")


def replay_thumb(rec, findings, stats):
    import numpy as np
    from toasty.image import Image, ImageMode
    w, h, mode = rec["w"], rec["h"], rec["mode"]
    where = "[%d x %d, mode %s]" % (w, h, mode)
    arr = mode_array(mode, w, h)
    img = Image.from_array(arr)
    if img.mode != ImageMode(mode if mode not in ("F32", "F64") else {"F32": "F", "F64": "D"}[mode]):
        findings.append(("M", "thumb", "the harness built an image of mode %s for %s" % (img.mode, where)))
        return
    stats["calls"] += 1
    try:
        th = img.make_thumbnail_bitmap()
        exc = None
    except Exception as e:  # noqa
        th, exc = None, e
    if rec["refused"]:
        if exc is None:
            findings.append(("V", "G11:thumbnail:refusal", "a %s image was thumbnailed (size %s, mode %s); non-RGB modes are refused %s" % (mode, th.size, th.mode, where)))
        return
    if exc is not None:
        findings.append(("V", "G11:thumbnail:raised", "make_thumbnail_bitmap raised %r %s" % (exc, where)))
        return
    outs = [tuple(o) for o in rec["outs"]]
    if th.mode != rec["outmode"]:
        findings.append(("V", "G11:thumbnail:mode", "the thumbnail has mode %s, documented %s %s" % (th.mode, rec["outmode"], where)))
        return
    box = tuple(rec["box"])
    if tuple(th.size) not in outs:
        findings.append(("V", "G11:thumbnail:size", "the thumbnail is %d x %d, specified %s (crop box %s) %s" % (th.size[0], th.size[1], " or ".join("%d x %d" % o for o in outs), box, where)))
        return
    if len(outs) > 1:
        stats["aspect_ties"] += 1
    if th.size[0] == 0 or th.size[1] == 0:
        stats["empty"] += 1
        return
    got = np.asarray(th)
    if not rec["resized"]:
        exp = arr[box[1]:box[3], box[0]:box[2], :3]
        if got.shape != exp.shape or not np.array_equal(got, exp):
            # read the box off the pixels: they encode their coordinates
            x0, y0 = int(got[0, 0, 0]), int(got[0, 0, 1])
            findings.append(("V", "G11:thumbnail:crop-box", "the (unresized) thumbnail starts at source pixel (%d, %d) mod 256 and is %d x %d; the specified crop box is %s"
                             " (colours of transparent pixels are kept) %s" % (x0, y0, got.shape[1], got.shape[0], box, where)))
        else:
            stats["exact"] += 1
        return
    ref = np.asarray(pil_reference(arr, box))
    if ref.shape == got.shape and np.array_equal(ref, got):
        stats["resized_equal"] += 1
        return
    # which box was cut?  try the neighbours of the specified one
    for dl in (-1, 0, 1):
        for dt in (-1, 0, 1):
            for dr in (-1, 0, 1):
                for db in (-1, 0, 1):
                    b2 = (box[0] + dl, box[1] + dt, box[2] + dr, box[3] + db)
                    if b2 == box or b2[0] < 0 or b2[1] < 0 or b2[2] > w or b2[3] > h or b2[2] <= b2[0] or b2[3] <= b2[1]:
                        continue
                    r2 = np.asarray(pil_reference(arr, b2))
                    if r2.shape == got.shape and np.array_equal(r2, got):
                        findings.append(("V", "G11:thumbnail:crop-box", "the thumbnail is the reduction of the crop box %s; the specified box is %s %s" % (b2, box, where)))
                        return
    diff = float(np.abs(ref.astype(int) - got.astype(int)).mean()) if ref.shape == got.shape else 255.0
    if diff <= 3.0:
        findings.append(("D", "thumb-resampling", "the thumbnail differs from PIL's default reduction of the specified crop box %s by %.2f counts on average (resampling is not specified) %s" % (box, diff, where)))
    else:
        findings.append(("V", "G11:thumbnail:crop-box", "the thumbnail is not the reduction of the specified crop box %s nor of a neighbouring box (mean difference %.1f counts) %s" % (box, diff, where)))


# ------------------------------------------------------------------------------------------------
def _quiet_worker():
    devnull = os.open(os.devnull, os.O_WRONLY)
    os.dup2(devnull, 1)
    os.dup2(devnull, 2)


def _warm():
    import time
    repo.setup()
    import astropy.wcs  # noqa
    import astropy.coordinates  # noqa
    from toasty import samplers, image, toast  # noqa
    time.sleep(0.1)
    return os.getpid()


def state_key(st):
    img = st["img"]
    return (st["root"], img["nx"], img["ny"], tuple(img["cd"]), tuple(img["r"]), img["lon0"])


def run(ctx):
    repo.setup(ctx)
    import concurrent.futures as cf
    import multiprocessing as mp
    import time
    quick = ctx.quick
    ctx.rule = ("TLC: for every root image (fixed + seeded random: CAR / TAN, 1x1 to 5x3 pixels, 13 integer CD matrices incl. skew, anisotropy and the "
                "45-degree lattice, integer / half-integer / outside reference pixels, 7 data encodings) every description reachable by FlipParity / "
                "Rotate / one recentring, all theorems as invariants / action properties, every state emitted with its requests and answers. "
                "Replay: every emitted state through the real WcsSampler; distinct = (state, request) pairs with at least one compared element inside a pixel; "
                "thumbnails: every (width, height, mode) of the size table through the real make_thumbnail_bitmap")
    t0 = time.time()
    # ---- inputs
    roots = list(FIXED_ROOTS) + ([] if quick else list(MORE_FIXED))
    n_random = 3 if quick else 50
    for k in range(n_random):
        roots.append(random_root(ctx.rng, 100 + k))
    for rt in roots:
        if not admissible(rt):
            ctx.machinery("root %s is outside the model's stated input domain" % (rt,))
    sizes, small = thumb_sizes(ctx.rng, quick)

    pool = cf.ProcessPoolExecutor(max_workers=4 if quick else 6, mp_context=mp.get_context("fork"), initializer=_quiet_worker)
    try:
        warm = [pool.submit(_warm) for _ in range(4 if quick else 6)]

        def tlc_sampling(name, rts, g, invariants):
            r = ctx.tlc(name, extra={name + ".tla": sampling_module(name, rts)}, cfg_text=sampling_cfg(invariants, g), workers=6, timeout=3600)
            return r, r.json_lines("S")

        def tlc_thumbs():
            name = "MCG11Thumb"
            r = ctx.tlc(name, extra={name + ".tla": thumb_module(name, sizes, small)}, cfg_text=thumb_cfg(THUMB_INVARIANTS), workers=2 if quick else 6, timeout=3600)
            return r, r.json_lines("T")

        def tlc_refute(module_text, name, cfg_text):
            return ctx.tlc(name, extra={name + ".tla": module_text}, cfg_text=cfg_text, workers=1, timeout=3600, expect_violation=True, count=False)

        with cf.ThreadPoolExecutor(max_workers=6) as tex:
            f_thumb = tex.submit(tlc_thumbs)
            if quick:
                f_samp = [tex.submit(tlc_sampling, "MCG11Sampling", roots, G_DEFAULT, SAMPLING_INVARIANTS_QUICK)]
            else:
                # three resolutions of the probe lattice over three thirds of the roots (the fixed ones at every resolution would only repeat)
                parts = [(3, roots[0::3]), (4, roots[1::3]), (5, roots[2::3])]
                f_samp = [tex.submit(tlc_sampling, "MCG11SamplingG%d" % g, rts, g, SAMPLING_INVARIANTS_FULL + ["PointTheorems"]) for g, rts in parts]
            f_ref = {}
            if not quick:
                ref_roots = list(FIXED_ROOTS)
                for inv in SAMPLING_IDEALS:
                    nm = "MCG11Not" + inv
                    f_ref[inv] = tex.submit(tlc_refute, sampling_module(nm, ref_roots), nm,
                                            sampling_cfg([inv], G_DEFAULT, props=False, emit=False))
                for inv in THUMB_IDEALS:
                    nm = "MCG11Not" + inv
                    f_ref[inv] = tex.submit(tlc_refute, thumb_module(nm, sizes, small), nm, thumb_cfg([inv], props=False, emit=False))

            set(f.result() for f in warm)
            # ---- sampling replay
            states, seen = [], set()
            tlc_stats = []
            for f in f_samp:
                r, recs = f.result()
                tlc_stats.append({"module": r.module, "distinct_states": r.distinct, "transitions": r.generated, "emitted": len(recs)})
                for st in recs:
                    k = (st["g"],) + state_key(st) + (st["act"],)
                    if k in seen:
                        continue
                    seen.add(k)
                    states.append(st)
            t_emit = time.time() - t0
            if not states:
                ctx.machinery("TLC emitted no state")
            by_root = dict((rt["id"], rt) for rt in roots)
            jobs, futs = [], []
            tile_budget = 3 if quick else 24
            for n, st in enumerate(sorted(states, key=lambda s: (s["root"], s["act"], repr(state_key(s))))):
                rng = random.Random("%d/%d/%s/%d" % (ctx.seed, st["root"], st["act"], n))
                rt = by_root[st["root"]]
                if st["img"]["proj"] == "CAR":
                    lift = {"unit": 360.0 / st["img"]["per"], "crval": None}
                else:
                    rr = random.Random("%d/%d" % (ctx.seed, st["root"]))       # one sky position and scale per root
                    lift = {"unit": rr.choice(TAN_UNITS), "crval": rr.choice(TAN_CRVALS)}
                lift["dtype"] = choose_dtype(st["img"], rng.randrange(1000))
                opts = {"selfcheck": st["act"] == "Init"}
                if st["act"] in ("Init", "FlipParity") and tile_budget > 0 and st["inNative"]:
                    opts["tiles"] = 1 if quick else 2
                    tile_budget -= 1
                jobs.append((st, lift, opts))
                futs.append(pool.submit(replay_state, (st, lift, opts)))
            # ---- thumbnails (in this process, while the pool samples)
            r_t, trecs = f_thumb.result()
            tfind = []
            tstats = {"calls": 0, "exact": 0, "resized_equal": 0, "empty": 0, "aspect_ties": 0}
            A = 96 / 45
            for rec in sorted(trecs, key=lambda r: (r["w"], r["h"], r["mode"])):
                if rec["tie"] and (rec["w"] / A) % 1.0 != 0.5:
                    ctx.machinery("width %d: %r / (96/45) is not exactly x.5 in floating point; the crop box's tie rule is not decided by Python's round()" % (rec["w"], rec["w"]))
                replay_thumb(rec, tfind, tstats)
                ctx.count()
                ctx.trace_ok()
                if not rec["refused"]:
                    ctx.distinct(("thumb", rec["w"], rec["h"], rec["mode"]))
            results = [f.result() for f in futs]
            t_replay = time.time() - t0
            refuted = {}
            for inv, f in f_ref.items():
                r = f.result()
                if r.violated != inv:
                    ctx.machinery("TLC no longer refutes %s (it reports %r): the model has lost the as-built behaviour it is meant to expose" % (inv, r.violated))
                refuted[inv] = "refuted by TLC (breadth-first counterexample)"
    finally:
        pool.shutdown(wait=True, cancel_futures=True)

    # ---- verdicts: sampling
    tot = {"calls": 0, "elements": 0, "requests": 0, "flip_routes": 0, "tiles": 0, "tile_defined": 0}
    acts, dev_seen = {}, {}
    for (st, lift, opts), (findings, stats) in zip(jobs, results):
        ctx.count(stats["calls"])
        ctx.trace_ok()
        for k in tot:
            tot[k] += stats.get(k, 0)
        acts[st["act"]] = acts.get(st["act"], 0) + 1
        for k, v in stats["deviations"].items():
            dev_seen.setdefault(k, set()).add(v)
        for rq in st["reqs"]:
            if any(v >= 0 for row in rq["res"] for v in row):
                ctx.distinct((st["g"],) + state_key(st) + (rq["name"],))
        for sev, key, msg in findings:
            if sev == "M":
                ctx.machinery(msg)
            elif sev == "V":
                ctx.violation(key, msg, {"state": dict((k, v) for k, v in st.items() if k != "reqs"), "lift": lift})
            else:
                ctx.drift("%s %s" % (key, msg))
    for sev, key, msg in tfind:
        if sev == "M":
            ctx.machinery(msg)
        elif sev == "V":
            ctx.violation(key, msg, {"thumbnail": msg})
        else:
            ctx.drift("%s %s" % (key, msg))
    # the as-built actions / operators must be reached, and each ideal refuted by an emitted state
    for need in ("Init", "FlipParity", "Rotate", "RecentreWithin", "RecentreAcrossSeam"):
        if acts.get(need, 0) < 1:
            ctx.machinery("no emitted state was reached by %s: the root family no longer exercises it" % need)
    for inv in SAMPLING_IDEALS:
        wit = [st for st in states if st["ideals"][inv] is False]
        if not wit:
            ctx.machinery("no emitted state refutes %s: the model (or the roots) have lost the as-built behaviour it is meant to expose" % inv)
        w = wit[0]
        refuted.setdefault(inv, "refuted by emitted states")
        refuted[inv] = {"how": refuted[inv], "refuting_states": len(wit), "a_witness": {"root": w["root"], "after": w["act"], "img": dict((k, v) for k, v in w["img"].items() if k != "pix")}}
    for inv in THUMB_IDEALS:
        wit = [r for r in trecs if r["ideals"][inv] is False]
        if not wit:
            ctx.machinery("no emitted size refutes %s" % inv)
        w = min(wit, key=lambda r: (r["w"] * r["h"], r["w"]))
        refuted.setdefault(inv, "refuted by emitted states")
        refuted[inv] = {"how": refuted[inv], "refuting_states": len(wit), "a_smallest_witness": {"w": w["w"], "h": w["h"], "mode": w["mode"], "box": w["box"], "out": w["out"]}}
    ctx.exhaustive = True
    ctx.note("tlc_sampling", {"runs": tlc_stats, "invariants": SAMPLING_INVARIANTS_QUICK if quick else SAMPLING_INVARIANTS_FULL, "action_properties": SAMPLING_PROPERTIES,
                              "roots": len(roots), "states_by_action": acts})
    ctx.note("tlc_thumbnails", {"distinct_states": r_t.distinct, "transitions": r_t.generated, "sizes": len(sizes), "invariants": THUMB_INVARIANTS, "action_properties": THUMB_PROPERTIES})
    ctx.note("tlc_refuted_ideals", refuted)
    ctx.note("replayed_sampling", {"states": len(jobs), "sampler_calls": tot["calls"], "requests_compared": tot["requests"], "elements_compared": tot["elements"],
                                   "real_flip_routes": tot["flip_routes"], "toast_tiles_composed": tot["tiles"], "toast_tile_pixels_with_data": tot["tile_defined"]})
    ctx.note("replayed_thumbnails", dict(tstats, records=len(trecs)))
    ctx.note("as_built_deviations_observed", dict((k, sorted(v)) for k, v in dev_seen.items()))
    ctx.note("phase_wall_s", {"states_emitted": round(t_emit, 1), "replay_done": round(t_replay, 1), "all_done": round(time.time() - t0, 1)})
    for st, lift, _o in jobs[:1] + jobs[len(jobs) // 2: len(jobs) // 2 + 1]:
        ctx.sample({"root": st["root"], "after": st["act"], "img": st["img"], "lift": lift, "main_request": {"xs": st["reqs"][0]["xs"], "ys": st["reqs"][0]["ys"]},
                    "main_answer": st["reqs"][0]["res"], "values": st["values"][:6]})
    for rec in [r for r in trecs if (r["w"], r["h"], r["mode"]) in ((144, 300, "RGB"), (1, 10, "RGB"), (300, 100, "RGBA"))][:3]:
        ctx.sample(rec)
    ctx.assume("images sit on an integer sky lattice: CAR with CRVAL on the equator (plane = sky) or TAN about a CRVAL of the harness's choice (plane points lifted by "
               "the closed-form gnomonic deprojection, cross-checked against wcslib's pix2world to 1e-9 deg); integer CD, integer or half-integer CRPIX; "
               "SIP / lookup-table distortions, cubes and other projections are outside the model")
    ctx.assume("probe points lie at least 1/(2 |det CD| G) of a pixel from every pixel edge and one sub-unit from the native seam; points TLC marks as lying on an edge "
               "or the seam are passed to the code but not compared (floating point decides them); BoundaryHalfOpen is a TLC-only theorem")
    ctx.assume("thumbnails: PIL's resampling is not specified; a resized thumbnail is compared with PIL's own thumbnail() of TLC's crop box (and of the neighbouring "
               "boxes when it differs); sizes where PIL's two aspect candidates tie exactly admit both")
