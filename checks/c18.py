"""C18 - publishing is crash-safe: index.wtml reaches the store only after all else.

Spec: spec/Publish.tla - PipelineManager.publish() (both directory listings chosen anew in every run, the
swap that moves index.wtml to the end, BeginPut / EndPut per file, Rename, Finish), Crash and Fail at every
point up to a fault budget, re-runs, and two store models (Atomic = FALSE: LocalPipelineIo.put_item as
written, open(..., 'wb') truncates first; Atomic = TRUE: temp + replace).

TLC (a) checks the property's sentences as theorems: IndexLast / RenameAfterAll / PublishedStable (action
properties), QIndexImpliesAll / QPublishedImpliesAll / QRefreshSafe / QUnfinishedIsApproved (invariants of
the quiescent states) and Completes / ReRunCompletes (liveness) for the atomic store at the full budget and
for the in-place store at budget 1, and REFUTES QIndexImpliesAll for the in-place store at budget 2;
(b) dumps the complete state graph (every transition, through an ACTION_CONSTRAINT that prints both states)
of the store model the real put_item is observed to implement.

Binding (spec -> code, complete): every path of that graph is cut into runs (idle -> ... -> idle) and every
run is executed by the real PipelineManager.publish() in a scratch work dir: os.listdir returns the listings
of the behaviour, the store is the real LocalPipelineIo behind a proxy that injects the behaviour's fault
(Crash in two realisations: publish() in a forked child that dies by os._exit(137) at the crash point - nothing of the
code under test runs afterwards, the parent examines the disk, the re-run happens in another process - and as an
exception unwinding publish(): KeyboardInterrupt delivered as a real SIGINT at every crash point, and in rotation over
the crash points SystemExit, GeneratorExit, MemoryError, an Exception subclass and a BaseException subclass, each once
or again at the next transfer if publish() carries on; OSError = failed transfer) at the entry of a put_item, after k bytes of its source
stream (so the real put_item leaves a really truncated item) or at its exit, or - action Refuse - INSIDE the real
put_item by making every open-for-writing below the item's store directory raise ENOSPC (builtins.open, io.open,
os.open), so that the clean-up path of put_item runs with no destination / temporary file created;
or - action StoreFail - by letting a low-level step of the real store-side write fail: a REAL RLIMIT_FSIZE of 0 / half /
all-but-one byte of the item while the real put_item runs (EFBIG from the kernel inside a write() for the item larger
than the stream buffer, at the flush of the buffered tail in close() for the others) or a failing os.replace/os.rename
onto the item's name; at every hook the real store
(absent / partial / complete by byte comparison) and the location of the image directory are compared with
the spec state (differences = CONFORMANCE-DRIFT).  At every quiescent point the property's sentences are
evaluated on the REAL store and directories (these are the VIOLATION monitors; TLC's evaluation of the same
formulas in the spec state is carried along), and the real `pipeline refresh` (cli.refresh_impl with a fake
image source) is run to see which images it skips.  The walk is level-synchronised over nodes
(spec idle state, byte contents of work dir + store): paths that meet in the same node share the replay of
their continuation and are counted individually.  `./check C18 --replay FILE` re-executes one recorded history.
One physical scenario outside the graph: an image with a file name of NAME_MAX-4 characters (legal, but name + any
temporary suffix is not) is published once per listing order and the safety sentences are judged on the real disk.

FILE SETS WITH SUB-FOLDERS (suites whose tag ends in "n").  A file of an image is named by its path relative to the image
directory ("tiles/1/0_0.png"); the store, the work dir, the snapshots and every monitor address it by that path (the whole
store tree is compared; entries that are not files of the image - temporary files a killed put_item left behind - are never
taken for one: each file of the image is looked up by its exact relative path).  As built (Traversal = "listdir", action
RefuseSubdir, invariant NestedClosed) publish() opens every directory entry as a file and raises IsADirectoryError at a
sub-folder before index.wtml is sent: the safety sentences are judged for these file sets, "re-running completes the job"
only for flat ones (noted, not a violation).  An undisturbed probe run tells whether the publish() under test refuses or
descends; if it descends, TLC dumps the graph of a publisher about whose traversal nothing is assumed (Traversal =
"descend-any", IndexImpliesAll evaluated by TLC in every state), the runs that use the traversal the real code is observed
to make (directories listed in sorted and in reverse order through os.listdir / os.scandir / os.walk) are replayed with a
fault before, during and after every transfer, nested ones included.  The to-be model "index.wtml last among ALL files of
the image" (Traversal = "descend-index-last") is proved by TLC in the thorough tier.

BEYOND THE STATED QUANTIFIER (spec/PublishOverlap.tla, overlap_exploration): two publish() runs overlapping on one image,
each a process of its own that may be killed.  TLC proves the safety invariant for the temporary name per process of the
code as built and refutes it for one temporary name per item; every path of the as-built graph with at most 2 (thorough: 3)
preemptions is replayed on two forked processes running the real publish(), each let go one spec step at a time (put_item
entry, every block of the source stream, close + rename), the real store compared with the spec state after every step and
the safety sentences judged when both have ended.  The unchanged tree is clean under it; a failure is reported under keys of
its own (C18:publish:overlapping-runs:...) and says that it lies outside the property's quantifier.
"""
import contextlib
import copy
import errno
import functools
import hashlib
import io
import json
import os
import pickle
import re
import shutil
import signal
import threading
import time
import types
import zlib

from lib import repo, tla

INDEX = "index.wtml"
ACTS = ["Start", "NextImage", "BeginPut", "EndPut", "Rename", "Finish", "Crash", "Fail", "Refuse", "StoreFail", "RefuseSubdir"]
STORE_CFG = "toasty-pipeline-config.yaml"
FAKE_SOURCE = "_c18_fake"

K_INDEX_EARLY = "C18:publish:index-transferred-before-others"
K_CLOBBER = "C18:publish:local-store:index-with-clobbered-file"
K_INDEX_INCOMPLETE = "C18:publish:quiescent:index-with-missing-file"
K_PUBLISHED = "C18:publish:quiescent:published-with-incomplete-file"
K_REFRESH = "C18:refresh:skips-incomplete-image"
K_RERUN = "C18:publish:rerun-does-not-complete"
K_INDEX_TRUNC = "C18:refresh:skips-image-with-incomplete-index"

# realisations of the spec action StoreFail: a real RLIMIT_FSIZE of 0 / half / all-but-one byte of the item while the real
# put_item runs (the kernel refuses the write with EFBIG: at a write() inside the copy for an item larger than the
# stream buffer, at the flush of the buffered tail in close() otherwise), or the rename onto the item's name failing
# realisations of the spec action Crash: "kill" = publish() runs in a forked child which dies by os._exit(137) at the crash
# point (no except / finally / with of the code under test runs, userspace buffers are lost; the parent examines the disk
# and the re-run happens in another process); the others = an exception of that class arrives at the crash point and unwinds
# publish() - KeyboardInterrupt is delivered as a real SIGINT (signal.raise_signal) - once, or ("*2") again at the next
# transfer should publish() carry on.  Whatever publish() does with it, the sentences are judged on the disk afterwards.
CRASH_CLASSES = ["KeyboardInterrupt", "SystemExit", "GeneratorExit", "MemoryError", "Exception", "BaseException"]
CRASH_ALWAYS = ["kill", "KeyboardInterrupt"]
CRASH_ROTATING = [c + m for c in CRASH_CLASSES for m in ("", "*2") if c + m not in CRASH_ALWAYS]
NAMES = {"data.png", INDEX, "index_rel.wtml", "thumb.jpg", "0_0.png", "tiles", "1", "previews", "small.jpg"}      # incl. the sub-folder names
# the flavours of OSError a failed transfer is realised with (Fail, Refuse, the failing rename of StoreFail), and "janitor":
# something really deletes the in-flight temporary file of the store, so that the real put_item fails by itself (ENOENT)
FAIL_CLASSES = ["OSError", "FileNotFoundError", "PermissionError", "IsADirectoryError", "ENOSPC", "EIO", "TimeoutError", "ConnectionError"]
STORE_VARIANTS = ["fsize:0", "fsize:half", "fsize:tail", "replace", "janitor"]
STORE_VARIANTS_SMALL = ["fsize:tail", "replace", "janitor"]     # an item that fits into the stream buffer: every write failure surfaces at close()
BIG = "data.png"        # this file is larger than two stream buffers, the others fit into one


# ------------------------------------------------------------------------------------------------
# TLC side
# ------------------------------------------------------------------------------------------------

def mc_module(name, configs):
    """spec/MCPublish.tla with the module name and the file sets replaced (St / Acts / EmitEdge are defined there)."""
    from lib.core import SPEC_DIR
    text = open(os.path.join(SPEC_DIR, "MCPublish.tla")).read()
    text, n1 = re.subn(r"MODULE MCPublish\b", "MODULE " + name, text, count=1)
    lit = "{" + ",\n               ".join(tla.lit(c) for c in configs) + "}"
    text, n2 = re.subn(r"MCConfigs ==.*?(?=\nASSUME)", lambda m: "MCConfigs == " + lit, text, count=1, flags=re.S)
    # TopOf: the files that lie in a sub-folder of their image directory (relative path with "/"), with that sub-folder
    nested = sorted({f for c in configs for fs in c.values() for f in fs if "/" in f})
    fn = ("(" + " @@ ".join("%s :> %s" % (tla.lit(f), tla.lit(f.split("/")[0])) for f in nested) + ")") if nested else '[f \\in {} |-> "-"]'
    text, n3 = re.subn(r"MCNested ==.*?(?=\nMCTopOf)", lambda m: "MCNested == " + fn, text, count=1, flags=re.S)
    if n1 != 1 or n2 != 1 or n3 != 1:
        raise RuntimeError("spec/MCPublish.tla does not have the expected shape")
    return text


def cfg(max_faults, atomic, invariants=(), properties=(), emit=False, traversal="listdir"):
    lines = ["SPECIFICATION Spec", "CONSTANTS", " Configs <- MCConfigs", ' Index = "%s"' % INDEX,
             " MaxFaults = %d" % max_faults, " Atomic = %s" % ("TRUE" if atomic else "FALSE"),
             " TopOf <- MCTopOf", ' Traversal = "%s"' % traversal]
    lines += ["INVARIANT " + i for i in invariants]
    lines += ["PROPERTY " + p for p in properties]
    if emit:
        lines.append("ACTION_CONSTRAINT EmitEdge")
    lines.append("CHECK_DEADLOCK FALSE")
    return "\n".join(lines) + "\n"


Q_INV = ["TypeOK", "NestedClosed", "QIndexImpliesAll", "QPublishedImpliesAll", "QRefreshSafe", "QUnfinishedIsApproved"]
PROPS = ["IndexLast", "RenameAfterAll", "PublishedStable", "Completes", "ReRunCompletes"]


def skey(s):
    return json.dumps(s, sort_keys=True, separators=(",", ":"))


def fkey(files):
    return json.dumps({i: sorted(fs) for i, fs in files.items()}, sort_keys=True)


def is_flat(files):
    return not any("/" in f for fs in files.values() for f in fs)


def initial_snapshot(files):
    """approved/<image>/<relative path> for every file of every image (sub-folders included), nothing anywhere else."""
    snap = {}
    for i, fs in files.items():
        snap["work/approved/" + i] = None
        for f in fs:
            parts = f.split("/")
            for n in range(1, len(parts)):
                snap["work/approved/%s/%s" % (i, "/".join(parts[:n]))] = None
            snap["work/approved/%s/%s" % (i, f)] = content(i, f)
    return snap


class Graph(object):
    """The state graph TLC printed: nodes = spec states, edges labelled with the set of actions that relate them."""

    def __init__(self, edges, full=True, orders=None, scan_reverse=False):
        # full = True: every Crash variant at every crash point (used by --replay); otherwise the two standing ones plus
        # `full` (a number) variants in rotation over the crash points
        # orders (graph of a descending publisher, Traversal = "descend-any"): {files key: {image: transfer order}} - the
        # traversal the code under test was observed to make; only the runs that use it are replayed
        self.full = full
        self.orders = orders
        self.scan_reverse = scan_reverse
        self.state = {}
        self.adj = {}
        indeg = set()
        for e in edges:
            a, b = skey(e["s"]), skey(e["t"])
            self.state.setdefault(a, e["s"])
            self.state.setdefault(b, e["t"])
            lst = self.adj.setdefault(a, [])
            item = (tuple(sorted(e["acts"])), b)
            if item not in lst:
                lst.append(item)
            indeg.add(b)
        for k in self.adj:
            self.adj[k].sort()
        # the initial states (a refused run of an image with a sub-folder may lead back to one)
        self.roots = sorted(k for k, s in self.state.items() if s["pc"] == "idle" and s["faults"] == 0
                            and all(v == "approved" for v in s["loc"].values())
                            and all(v == "absent" for st in s["store"].values() for v in st.values()))
        self._segs = {}
        self.nedges = sum(len(v) for v in self.adj.values())

    def segments(self, key):
        """All runs from the idle state `key`: lists of (action, state key) ending in the next idle state."""
        if key in self._segs:
            return self._segs[key]
        out = []

        def dfs(k, acc):
            for acts, t in self.adj.get(k, ()):
                for a in acts:
                    if a == "NextImage" and self.orders is not None:
                        st = self.state[t]
                        if self.orders.get(fkey(st["files"]), {}).get(st["cur"]) != list(st["order"]):
                            continue        # not the traversal the code under test makes
                    acc.append((a, t))
                    if self.state[t]["pc"] == "idle":
                        sk = self.state[k]
                        big = a == "StoreFail" and sk["order"][sk["k"] - 1] == BIG
                        for v in (self.store_variants(k, big) if a == "StoreFail" else
                                  self.crash_variants(k) if a == "Crash" else
                                  [None] if a in ("Finish", "RefuseSubdir") else self.fail_classes(k, a)):
                            out.append((list(acc), v))
                    else:
                        dfs(t, acc)
                    acc.pop()
        dfs(key, [])
        self._segs[key] = [Plan(self, key, seg, v) for seg, v in out]
        return self._segs[key]


def _crash_variants(self, k):
    # "kill-cli": like "kill", but the child runs the command-line entry point (toasty pipeline publish --workdir W) and
    # the re-run that is judged afterwards goes through the command line, too
    if self.full is True:
        return CRASH_ALWAYS + ["kill-cli"] + CRASH_ROTATING
    sk = self.state[k]
    r = zlib.crc32(json.dumps([sk["listing"], sk["pc"], sk["k"], sk["faults"], sk["cur"]]).encode())
    return (CRASH_ALWAYS + (["kill-cli"] if r % 3 == 0 else []) +
            [CRASH_ROTATING[(r + j) % len(CRASH_ROTATING)] for j in range(int(self.full))])


def _rot(self, k, salt):
    sk = self.state[k]
    return zlib.crc32(json.dumps([salt, sk["listing"], sk["pc"], sk["k"], sk["faults"], sk["cur"]]).encode())


def _fail_classes(self, k, act):
    """The OSError flavour a Fail / Refuse edge is realised with: one per edge, in rotation over the fault points."""
    if self.full is True:
        return list(FAIL_CLASSES)
    return [FAIL_CLASSES[_rot(self, k, act) % len(FAIL_CLASSES)]]


def _store_variants(self, k, big):
    out = []
    for v in (STORE_VARIANTS if big else STORE_VARIANTS_SMALL):
        if v == "replace":
            out += ["replace:" + c for c in _fail_classes(self, k, "replace")]
        else:
            out.append(v)
    return out


Graph.crash_variants = _crash_variants
Graph.fail_classes = _fail_classes
Graph.store_variants = _store_variants


class Plan(object):
    """One run of publish() as the spec describes it, arranged by the hooks at which the real run is observed."""

    def __init__(self, g, key0, seg, variant=None):
        self.key0 = key0
        self.end = seg[-1][1]
        self.queue = None
        self.images = []     # img, listing, order, pre (state at the outer loop head)
        self.puts = []       # img, file, pre, mid, post
        self.fault = None
        self.refused = None  # as built: the run ends with publish() raising at this sub-folder of this image
        self.descend = g.orders is not None
        self.scan_reverse = g.scan_reverse
        cur = g.state[key0]
        self.start = cur
        self.flat = is_flat(cur["files"])
        for act, tk in seg:
            st = g.state[tk]
            if act == "Start":
                self.queue = list(st["queue"])
            elif act == "NextImage":
                self.images.append({"img": st["cur"], "listing": list(st["listing"]), "order": list(st["order"]), "pre": cur})
            elif act == "BeginPut":
                self.puts.append({"img": cur["cur"], "file": cur["order"][cur["k"] - 1], "pre": cur, "mid": st, "post": None})
            elif act == "EndPut":
                self.puts[-1]["post"] = st
            elif act == "RefuseSubdir":
                self.refused = {"image": cur["cur"], "subdir": cur["order"][cur["k"] - 1]}
            elif act in ("Crash", "Fail", "Refuse", "StoreFail"):
                if act == "StoreFail":
                    where, ordinal = "store", len(self.puts) - 1
                elif act == "Refuse":
                    where, ordinal = "open", len(self.puts)
                    self.puts.append({"img": cur["cur"], "file": cur["order"][cur["k"] - 1], "pre": cur, "mid": None, "post": None})
                elif cur["pc"] == "writing":
                    where, ordinal = "during", len(self.puts) - 1
                elif cur["k"] <= len(cur["order"]) and cur["order"][cur["k"] - 1] in cur["files"][cur["cur"]]:
                    where, ordinal = "entry", len(self.puts)
                    self.puts.append({"img": cur["cur"], "file": cur["order"][cur["k"] - 1], "pre": cur, "mid": None, "post": None})
                else:       # after the last transfer of the image, or (as built) after the one before a sub-folder slot
                    where, ordinal = "exit", len(self.puts) - 1
                self.fault = {"kind": act, "where": where, "ordinal": ordinal,
                              "image": self.puts[ordinal]["img"], "file": self.puts[ordinal]["file"]}
                if variant:
                    self.fault["variant"] = variant
            cur = st
        self.final = cur
        self.nsteps = len(seg)

    def describe(self):
        d = {"approved_listing": self.queue, "listings": {i["img"]: i["listing"] for i in self.images},
             "fault": self.fault}
        if self.refused:
            d["refused_subdir"] = self.refused
        if self.descend:
            d["directory_order"] = "reverse-sorted" if self.scan_reverse else "sorted"
        return d


# ------------------------------------------------------------------------------------------------
# real-code side
# ------------------------------------------------------------------------------------------------

POOL = max(1, min(8, int(os.environ.get("VERIF_POOL", "8"))))        # worker processes of the replays


class SimulatedCrash(BaseException):
    pass


def make_os_error(name):
    if name == "OSError":
        return TransferFailed("transfer failed")                     # a plain OSError without errno
    if name in ("ENOSPC", "EIO"):
        code = getattr(errno, name)
        return OSError(code, os.strerror(code))
    cls, code = {"FileNotFoundError": (FileNotFoundError, errno.ENOENT), "PermissionError": (PermissionError, errno.EACCES),
                 "IsADirectoryError": (IsADirectoryError, errno.EISDIR), "TimeoutError": (TimeoutError, errno.ETIMEDOUT),
                 "ConnectionError": (ConnectionResetError, errno.ECONNRESET)}[name]
    return cls(code, os.strerror(code))


class InterruptedTransfer(Exception):
    pass


CRASH_CLASS = {"KeyboardInterrupt": KeyboardInterrupt, "SystemExit": SystemExit, "GeneratorExit": GeneratorExit,
               "MemoryError": MemoryError, "Exception": InterruptedTransfer, "BaseException": SimulatedCrash}


class TransferFailed(OSError):
    pass


@functools.lru_cache(maxsize=None)
def content(img, fn):
    head = ("%s/%s|" % (img, fn)).encode()
    if fn == BIG:
        return head + (bytes(range(256)) * 80)[:20000]
    return head + bytes(range(65, 65 + 20))


@contextlib.contextmanager
def fsize_limit(nbytes):
    """A real file-size limit for this process: the kernel fails any write beyond `nbytes` with EFBIG."""
    import resource
    import signal
    old = signal.signal(signal.SIGXFSZ, signal.SIG_IGN)
    soft, hard = resource.getrlimit(resource.RLIMIT_FSIZE)
    resource.setrlimit(resource.RLIMIT_FSIZE, (nbytes, hard))
    try:
        yield
    finally:
        resource.setrlimit(resource.RLIMIT_FSIZE, (soft, hard))
        signal.signal(signal.SIGXFSZ, old)


@contextlib.contextmanager
def refuse_rename(prefix, exc, on_hit):
    """While active, renaming anything onto a path below `prefix` raises `exc` (os.replace, os.rename)."""
    prefix = os.path.abspath(prefix) + os.sep
    real_replace, real_rename = os.replace, os.rename

    def wrap(real):
        def f(src, dst, *a, **kw):
            try:
                hit = os.path.abspath(os.fsdecode(os.fspath(dst))).startswith(prefix)
            except TypeError:
                hit = False
            if hit:
                on_hit()
                raise exc
            return real(src, dst, *a, **kw)
        return f
    os.replace, os.rename = wrap(real_replace), wrap(real_rename)
    try:
        yield
    finally:
        os.replace, os.rename = real_replace, real_rename


@contextlib.contextmanager
def refuse_creation(prefix, exc, on_hit):
    """While active, opening any path below `prefix` for writing / creation raises `exc` (builtins.open, io.open, os.open)."""
    import builtins
    prefix = os.path.abspath(prefix) + os.sep
    real_open, real_io_open, real_os_open = builtins.open, io.open, os.open

    def below(f):
        try:
            return os.path.abspath(os.fsdecode(os.fspath(f))).startswith(prefix)
        except TypeError:
            return False            # an integer file descriptor

    def open_(file, mode="r", *a, **kw):
        if set(str(mode)) & set("wax+") and below(file):
            on_hit()
            raise exc
        return real_open(file, mode, *a, **kw)

    def os_open(path, flags, *a, **kw):
        if flags & (os.O_CREAT | os.O_WRONLY | os.O_RDWR) and below(path):
            on_hit()
            raise exc
        return real_os_open(path, flags, *a, **kw)
    builtins.open, io.open, os.open = open_, open_, os_open
    try:
        yield
    finally:
        builtins.open, io.open, os.open = real_open, real_io_open, real_os_open


class FaultStream(object):
    CHUNK = 5

    def __init__(self, src, on_first_read, fault_after, exc, chunk=None):
        self._src, self._cb, self._after, self._exc = src, on_first_read, fault_after, exc
        if chunk:
            self.CHUNK = chunk
        self.sent = 0
        self.started = False

    def read(self, n=-1):
        if not self.started:
            self.started = True
            self._cb()
        limit = self.CHUNK
        if self._after is not None:
            if self.sent >= self._after:
                if callable(self._exc):
                    self._exc()
                raise self._exc
            limit = min(limit, self._after - self.sent)
        data = self._src.read(limit)
        self.sent += len(data)
        return data

    def __getattr__(self, name):
        return getattr(self._src, name)


class Bench(object):
    """A scratch work dir + store on which single runs of the real publish() are executed."""

    def __init__(self, root, files):
        repo.setup()
        from toasty import pipeline
        from toasty.pipeline import cli as pcli
        self.pipeline, self.pcli = pipeline, pcli
        self.files = files
        self.work = os.path.join(root, "work")
        self.store = os.path.join(root, "store")
        os.makedirs(self.work, exist_ok=True)
        os.makedirs(self.store, exist_ok=True)
        with open(os.path.join(self.work, "toasty-store-config.yaml"), "w") as f:
            f.write("_type: local\npath: %s\n" % self.store)
        with open(os.path.join(self.store, STORE_CFG), "w") as f:
            f.write("source_type: %s\n%s:\n  ids: [%s]\n" % (FAKE_SOURCE, FAKE_SOURCE, ", ".join(sorted(files))))
        self._listdir = os.listdir
        self._scandir = os.scandir
        self._refresh_memo = {}
        self.current = None
        self.park = os.path.join(root, "park")
        os.makedirs(self.park, exist_ok=True)
        self.parked, self.nparked = [], 0
        self.unstable_walks = 0
        self.watch_threads = False      # set once the code under test was seen to use threads
        self.template = pipeline.PipelineManager(self.work)      # __init__ only reads the store configuration
        self.real_io = pipeline.PipelineIo.load_from_config(os.path.join(self.work, "toasty-store-config.yaml"))
        class Cand(pipeline.CandidateInput):
            def __init__(self, i):
                self.i = i

            def get_unique_id(self):
                return self.i

            def save(self, stream):
                stream.write(b"{}")

        class Source(pipeline.ImageSource):
            @classmethod
            def get_config_key(cls):
                return FAKE_SOURCE

            @classmethod
            def deserialize(cls, data):
                inst = cls()
                inst.ids = list(data["ids"])
                return inst

            def query_candidates(self):
                for i in self.ids:
                    yield Cand(i)

            def fetch_candidate(self, unique_id, cand_data_stream, cachedir):
                pass

            def process(self, unique_id, cand_data_stream, cachedir, builder):
                pass

        pipeline.IMAGE_SOURCE_CLASS_LOADERS[FAKE_SOURCE] = lambda: Source

    # ---- disk state --------------------------------------------------------------------------
    def restore(self, snap):
        """Bring the work dir and the store to `snap`, touching only what differs from what is on disk now."""
        try:
            self._restore(snap)
        except OSError:
            # the disk is not what the last snapshot said (something the code under test left running wrote to it
            # later): start from empty directories
            self.current = None
            self._restore(snap)

    def _restore(self, snap):
        root = os.path.dirname(self.work)
        cur = self.current
        if cur is None:
            for d in ("approved", "published"):
                shutil.rmtree(os.path.join(self.work, d), ignore_errors=True)
            for e in self._listdir(self.store):
                if e != STORE_CFG:
                    shutil.rmtree(os.path.join(self.store, e), ignore_errors=True)
            for fn in self._listdir(self.work):
                p = os.path.join(self.work, fn)
                if fn not in ("toasty-store-config.yaml", STORE_CFG) and os.path.isfile(p):
                    os.remove(p)
            os.makedirs(os.path.join(self.work, "approved"), exist_ok=True)
            cur = {}
        for rel in sorted(cur, reverse=True):
            if rel not in snap or (snap[rel] is None) != (cur[rel] is None):
                p = os.path.join(root, rel)
                if cur[rel] is None:
                    # rmdir costs milliseconds on the scratch file system, rename microseconds: park the empty directory
                    self.nparked += 1
                    q = os.path.join(self.park, "d%d" % self.nparked)
                    os.rename(p, q)
                    self.parked.append(q)
                else:
                    os.remove(p)
        for rel in sorted(snap):
            if rel in cur and cur[rel] == snap[rel]:
                continue
            p = os.path.join(root, rel)
            if snap[rel] is None:
                if not os.path.isdir(p):
                    q = self.parked.pop() if self.parked else None
                    if q is not None and not self._listdir(q) and os.path.isdir(os.path.dirname(p)):
                        os.rename(q, p)
                    else:
                        os.makedirs(p)
            else:
                with open(p, "wb") as f:
                    f.write(snap[rel])
        self.current = dict(snap)

    def snapshot(self):
        """The byte contents of work dir and store.  The code under test may have left threads running that still
        create / rename / remove files: entries that vanish during the walk are treated as absent, and the walk is
        repeated until two consecutive walks agree (bounded)."""
        prev = self._walk()
        if self.watch_threads:
            for attempt in range(200):
                time.sleep(0.002 if attempt < 20 else 0.02)
                snap = self._walk()
                if snap == prev:
                    break
                prev = snap
                self.unstable_walks += 1
        self.current = dict(prev)
        return prev

    def _walk(self):
        snap = {}
        root = os.path.dirname(self.work)
        for top in ("work/approved", "work/published", "store"):
            base = os.path.join(root, top)
            if not os.path.isdir(base):
                continue
            for dp, dns, fns in os.walk(base):
                rel = os.path.relpath(dp, root)
                if dp != base:
                    snap[rel] = None
                for fn in fns:
                    if top == "store" and dp == base and fn == STORE_CFG:
                        continue
                    try:
                        with open(os.path.join(dp, fn), "rb") as f:
                            snap[rel + "/" + fn] = f.read()
                    except OSError:
                        pass                # vanished between the listing and the open
        try:
            tops = self._listdir(self.work)
        except OSError:
            tops = []
        for fn in tops:                     # anything else the code under test keeps at the top of the work dir (lock files ...)
            p = os.path.join(self.work, fn)
            if fn not in ("toasty-store-config.yaml", STORE_CFG) and os.path.isfile(p):
                try:
                    with open(p, "rb") as f:
                        snap["work/" + fn] = f.read()
                except OSError:
                    pass
        return snap

    def real_state(self):
        store, loc = {}, {}
        for i, fs in self.files.items():
            store[i] = {}
            for f in fs:
                p = os.path.join(self.store, i, f)
                try:
                    with open(p, "rb") as fh:
                        store[i][f] = "complete" if fh.read() == content(i, f) else "partial"
                except FileNotFoundError:
                    store[i][f] = "absent"
                except OSError:
                    store[i][f] = "partial"          # e.g. a directory under the item's name
            a = os.path.isdir(os.path.join(self.work, "approved", i))
            b = os.path.isdir(os.path.join(self.work, "published", i))
            loc[i] = "approved" if (a and not b) else "published" if (b and not a) else "both" if a else "lost"
        return {"store": store, "loc": loc}

    def stray(self, snap):
        # everything in the store that is not a file of an image (by relative path) or a folder on the way to one:
        # temporary files a killed put_item left behind (<item>.tmp<pid>) and the like.  They are NOT files of the image:
        # real_state() looks up each file of the image by its exact relative path and nothing else.
        known = set()
        for i, fs in self.files.items():
            known.add("store/" + i)
            for f in fs:
                parts = f.split("/")
                for n in range(1, len(parts) + 1):
                    known.add("store/%s/%s" % (i, "/".join(parts[:n])))
        return sorted(k for k in snap if k.startswith("store/") and k not in known)

    # ---- refresh ------------------------------------------------------------------------------
    def refresh_skips(self, digest):
        """Run the real `pipeline refresh` on the current store: which image ids does it skip as done?"""
        if digest in self._refresh_memo:
            return self._refresh_memo[digest]
        for d in ("candidates", "rejects"):
            shutil.rmtree(os.path.join(self.work, d), ignore_errors=True)
        try:
            os.remove(os.path.join(self.work, STORE_CFG))
        except OSError:
            pass
        with contextlib.redirect_stdout(io.StringIO()):
            self.pcli.refresh_impl(types.SimpleNamespace(workdir=self.work))
        saved = set(self._listdir(os.path.join(self.work, "candidates")))
        res = sorted(i for i in self.files if i not in saved)
        self._refresh_memo[digest] = res
        return res

    # ---- one run --------------------------------------------------------------------------------
    def run(self, plan, model_atomic):
        """Execute the real publish() once according to `plan`; returns a dict of observations."""
        if not (plan.fault and plan.fault["kind"] == "Crash" and plan.fault.get("variant") in ("kill", "kill-cli")):
            return self._run(plan, model_atomic, None)
        # a hard crash: publish() runs in a forked child that dies at the crash point; its observations come through a pipe
        r, w = os.pipe()
        pid = os.fork()
        if pid == 0:
            code = 3
            try:
                os.close(r)

                def send(obj):
                    with os.fdopen(w, "wb") as f:
                        pickle.dump(obj, f)
                try:
                    res = self._run(plan, model_atomic, send)      # does not return if the crash point is reached
                    send(res)
                    code = 0
                except BaseException:  # noqa
                    import traceback
                    send({"machinery": traceback.format_exc()})
            finally:
                os._exit(code)
        os.close(w)
        with os.fdopen(r, "rb") as f:
            data = f.read()
        _, status = os.waitpid(pid, 0)
        if not data:
            raise RuntimeError("the forked publish() died without a report (wait status %d)" % status)
        res = pickle.loads(data)
        if "machinery" in res:
            raise RuntimeError("harness failure in the forked publish():\n" + res["machinery"])
        if res.get("threaded"):
            self.watch_threads = True
        return res

    def _run(self, plan, model_atomic, send):
        bench = self
        drifts = []
        alarms = []        # (key, message)
        st = {"sync": True, "nput": 0, "img_i": 0, "injected": False, "calls": [], "listed_top": False}
        lock = threading.RLock()        # the code under test may call put_item from several threads
        threads_before = set(threading.enumerate())
        approved = os.path.join(self.work, "approved")

        def drift(msg):
            if len(drifts) < 4:
                drifts.append(msg)

        def compare(spec, what):
            if not st["sync"] or spec is None:
                return
            real = bench.real_state()
            if real["store"] != spec["store"] or real["loc"] != spec["loc"]:
                st["sync"] = False
                drift("%s: real store/loc %s, spec %s" % (what, json.dumps(real, sort_keys=True),
                                                           json.dumps({"store": spec["store"], "loc": spec["loc"]}, sort_keys=True)))

        def listdir(path="."):
            try:
                p = os.path.normpath(os.fspath(path))
            except TypeError:
                return bench._listdir(path)
            if p == approved:
                real = bench._listdir(path)
                if st["listed_top"] or plan.queue is None or sorted(real) != sorted(plan.queue):
                    st["sync"] = False
                    drift("listing of approved/: real %s, spec run lists %s" % (sorted(real), plan.queue))
                    return real
                st["listed_top"] = True
                return list(plan.queue)
            if plan.descend and p.startswith(approved + os.sep):
                # a publisher that walks the tree: the order of every directory below approved/ is the one of the probe
                return sorted(bench._listdir(path), reverse=plan.scan_reverse)
            if os.path.dirname(p) == approved:
                real = bench._listdir(path)
                return image_listing(os.path.basename(p), real) or real
            return bench._listdir(path)

        def image_listing(img, real):
            """The listing of approved/<img> the behaviour prescribes (None: the run has left the spec)."""
            j = st["img_i"]
            if st["sync"] and j < len(plan.images) and plan.images[j]["img"] == img and sorted(real) == sorted(plan.images[j]["listing"]):
                st["img_i"] = j + 1
                compare(plan.images[j]["pre"], "before listing %s" % img)
                return list(plan.images[j]["listing"])
            if st["sync"]:
                st["sync"] = False
                drift("unexpected listing of approved/%s (spec run: %s)" % (img, [i["img"] for i in plan.images]))
            return None

        class Scan(object):
            """os.scandir (which os.walk uses) with the entries in the imposed order."""

            def __init__(self, it, reverse, names=None):
                with it:
                    ents = list(it)
                if names is not None:
                    pos = {n: k for k, n in enumerate(names)}
                    self._it = iter(sorted(ents, key=lambda e: pos.get(e.name, len(pos))))
                else:
                    self._it = iter(sorted(ents, key=lambda e: e.name, reverse=reverse))

            def __iter__(self):
                return self

            def __next__(self):
                return next(self._it)

            def __enter__(self):
                return self

            def __exit__(self, *a):
                return False

            def close(self):
                pass

        def scandir(path="."):
            it = bench._scandir(path)
            try:
                p = os.path.normpath(os.fsdecode(os.fspath(path)))
            except TypeError:
                return it
            if plan.descend and (p + os.sep).startswith(approved + os.sep) and p != approved:
                return Scan(it, plan.scan_reverse)
            if not plan.descend and os.path.dirname(p) == approved:
                # a publish() that lists the image directory with os.scandir / os.walk: the listing of the behaviour
                names = image_listing(os.path.basename(p), bench._listdir(p))
                if names is not None:
                    return Scan(it, False, names)
            return it

        class Proxy(object):
            def __init__(self, real):
                self._real = real

            def __getattr__(self, name):
                return getattr(self._real, name)

            def put_item(self, *path, source=None):
                with lock:
                    n = st["nput"]
                    st["nput"] = n + 1
                    st["calls"].append(list(path))
                    if threading.current_thread() is not threading.main_thread() and not st.get("threaded"):
                        st["threaded"] = True
                        st["sync"] = False
                        drift("put_item is called from a thread other than the one that runs publish(): the step order of the spec "
                              "does not apply; only the sentences on the disk are judged")
                exp = plan.puts[n] if n < len(plan.puts) else None
                # an item below a sub-folder is addressed by its path relative to the image directory
                relf = "/".join(str(c) for c in path[1:])
                if st["sync"] and (exp is None or [exp["img"], exp["file"]] != [path[0], relf]):
                    st["sync"] = False
                    drift("put #%d is %s, spec %s" % (n + 1, list(path), ("transfers %s" % [exp["img"], exp["file"]]) if exp else
                                                      ("has publish() raise at the sub-folder %s" % plan.refused["subdir"]) if plan.refused
                                                      else "makes no further transfer"))
                # property monitor on the REAL store: index.wtml strictly after every other file of the image (sub-folders included)
                if len(path) == 2 and path[1] == INDEX and path[0] in bench.files:
                    real = bench.real_state()["store"][path[0]]
                    bad = sorted(f for f, v in real.items() if f != INDEX and v != "complete")
                    if bad:
                        alarms.append((K_INDEX_EARLY, "put_item(%r, 'index.wtml') began while %s of that image %s not completely in the store"
                                       % (path[0], bad, "is" if len(bad) == 1 else "are")))
                if st.get("again"):
                    st["again"] = False         # publish() carried on after the first one: it arrives once more
                    throw()
                if exp is not None:
                    compare(exp["pre"], "at entry of put #%d %s" % (n + 1, list(path)))
                flt = plan.fault if (plan.fault and plan.fault["ordinal"] == n) else None
                exc = None
                if flt:
                    exc = (die if (flt["kind"] == "Crash" and send) else throw if flt["kind"] == "Crash" else
                           make_os_error((flt.get("variant") or "replace:EIO").split(":")[-1]) if flt["kind"] == "StoreFail"
                           and (flt.get("variant") or "").startswith("replace") else
                           TransferFailed(errno.EIO, "Input/output error") if flt["kind"] == "StoreFail" else
                           make_os_error(flt.get("variant") or "OSError"))
                    if isinstance(exc, OSError):
                        st["fail_exc"] = exc
                size = len(content(path[0], relf)) if relf in bench.files.get(path[0], ()) else 0
                chunk = 4099 if size > 1000 else FaultStream.CHUNK
                if flt and flt["where"] == "entry":
                    st["injected"] = True
                    if callable(exc):
                        exc()
                    raise exc
                after = None
                if flt and flt["where"] == "during":
                    after = 0 if (n + plan.start["faults"]) % 2 == 0 else 2 * chunk

                def first_read():
                    if flt and flt.get("variant") == "janitor":
                        # something cleans the store directory while the transfer is in flight: every entry that is not an
                        # item (the temporary file of this put_item) is really deleted
                        d = os.path.dirname(os.path.join(bench.store, *path))
                        sub = "/".join(path[1:-1])
                        keep = {f[len(sub) + 1 if sub else 0:].split("/")[0] for f in bench.files.get(path[0], ()) if f.startswith(sub + "/" if sub else "")}
                        for e in (bench._listdir(d) if os.path.isdir(d) else []):
                            if e not in keep:
                                try:
                                    os.remove(os.path.join(d, e))
                                    st["janitor"] = True
                                except OSError:
                                    pass
                    if after is not None:
                        st["injected"] = True
                    if exp is not None and exp["mid"] is not None:
                        compare(exp["mid"], "while put #%d %s is writing (%s store model)"
                                % (n + 1, list(path), "atomic" if model_atomic else "in-place"))
                stream = FaultStream(source, first_read, after, exc, chunk)
                if flt and flt["where"] == "store":
                    # a low-level step of the store-side write fails inside the real put_item
                    var = flt["variant"]
                    if var == "janitor":
                        try:
                            self._real.put_item(*path, source=stream)
                        except FileNotFoundError as e:
                            if not st.get("janitor"):
                                raise
                            st["injected"] = True
                            st["fail_exc"] = e
                            raise
                        if not st.get("janitor"):
                            st["na"] = True         # this put_item keeps nothing but the item itself in the store
                    elif var.startswith("replace"):
                        with refuse_rename(os.path.join(bench.store, path[0]), exc, lambda: st.__setitem__("injected", True)):
                            self._real.put_item(*path, source=stream)
                        if not st["injected"]:
                            st["na"] = True         # this put_item does not rename anything into place
                    else:
                        limit = {"fsize:0": 0, "fsize:half": size // 2, "fsize:tail": size - 1}[var]
                        try:
                            with fsize_limit(limit):
                                self._real.put_item(*path, source=stream)
                        except OSError as e:
                            if e.errno != errno.EFBIG:
                                raise
                            st["injected"] = True
                            raise TransferFailed(e.errno, "%s (file-size limit %d of %d bytes)" % (e.strerror, limit, size)) from e
                elif flt and flt["where"] == "open":
                    # the store refuses to create the destination: every open-for-writing of a path below the item's
                    # store directory raises, INSIDE the real put_item (whatever file name it writes to first)
                    with refuse_creation(os.path.join(bench.store, path[0]), exc, lambda: st.__setitem__("injected", True)):
                        self._real.put_item(*path, source=stream)
                else:
                    self._real.put_item(*path, source=stream)
                if not stream.started and st["sync"]:
                    drift("put_item did not read its source through read()")
                nxt = plan.puts[n + 1] if n + 1 < len(plan.puts) else None
                if exp is not None and exp["post"] is not None and not (nxt and nxt["img"] == exp["img"]):
                    compare(exp["post"], "after put #%d %s" % (n + 1, list(path)))
                if flt and flt["where"] == "exit":
                    st["injected"] = True
                    if callable(exc):
                        exc()
                    raise exc

        def result(outcome, err):
            return {"outcome": outcome, "error": err, "sync": st["sync"], "drifts": drifts, "alarms": alarms, "calls": st["calls"],
                    "na": bool(st.get("na")), "threaded": bool(st.get("threaded"))}

        def die():
            st["injected"] = True
            send(result("crashed", None))
            os._exit(137)

        variant = (plan.fault or {}).get("variant") or ""
        crash_cls = CRASH_CLASS.get(variant.split("*")[0]) if (plan.fault and plan.fault["kind"] == "Crash") else None

        def throw():
            if not st["injected"] and variant.endswith("*2"):
                st["again"] = True
            st["injected"] = True
            if crash_cls is KeyboardInterrupt:
                signal.raise_signal(signal.SIGINT)      # a real ^C: the interpreter raises KeyboardInterrupt here
                for _ in range(100):
                    pass
            raise crash_cls("injected at the crash point")

        mgr = copy.copy(self.template)          # a re-run is a new process: a fresh manager object
        mgr._pipeio = Proxy(mgr._pipeio)
        outcome, err = "returned", None
        os.listdir = listdir
        os.scandir = scandir
        old_int = signal.signal(signal.SIGINT, signal.default_int_handler) if crash_cls is KeyboardInterrupt else None
        try:
            with contextlib.redirect_stdout(io.StringIO()), contextlib.redirect_stderr(io.StringIO()):
                if variant == "kill-cli" or getattr(plan, "via_cli", False):
                    # the operator's route: `toasty pipeline publish --workdir W`; the manager it builds gets the store proxy
                    from toasty import cli as tcli
                    loaders = self.pipeline.PIPELINE_IO_LOADERS
                    orig_loader = loaders["local"]
                    loaders["local"] = lambda config: Proxy(orig_loader(config))
                    try:
                        tcli.entrypoint(["pipeline", "publish", "--workdir", self.work])
                    except SystemExit as e:
                        if e.code not in (0, None):
                            raise RuntimeError("toasty pipeline publish exited with status %r" % (e.code,))
                    finally:
                        loaders["local"] = orig_loader
                else:
                    mgr.publish()
        except BaseException as e:  # noqa
            if isinstance(e, TransferFailed) or (e is st.get("fail_exc") and st["injected"]):
                outcome = "failed"
            elif crash_cls is not None and st["injected"] and type(e) is crash_cls:
                outcome = "crashed"
            elif isinstance(e, Exception):      # the real code gave up by itself
                outcome, err = "raised", "%s: %s" % (type(e).__name__, e)
            else:
                raise
        finally:
            os.listdir = self._listdir
            os.scandir = self._scandir
            if old_int is not None:
                signal.signal(signal.SIGINT, old_int)
        # threads the code under test started and left running still belong to this run: give them a bounded time to
        # finish (what they write late is judged with the rest; the snapshot then waits for the disk to stand still)
        late = [t for t in threading.enumerate() if t not in threads_before and t is not threading.current_thread()]
        if late or st.get("threaded"):
            bench.watch_threads = True
            deadline = time.time() + 1.0
            for t in late:
                t.join(max(0.0, min(0.05, deadline - time.time())))
        if st["sync"] and not st["listed_top"]:
            st["sync"] = False
            drift("publish() did not list approved/ through os.listdir: the listing order of the behaviour could not be imposed")
        if st.get("na"):
            st["sync"] = False
        elif plan.fault and not st["injected"]:
            st["sync"] = False
            drift("the planned fault (%s) was never reached" % (plan.fault,))
        if st["sync"] and not plan.fault and st["nput"] != len(plan.puts):
            st["sync"] = False
            drift("%d transfers, spec %d" % (st["nput"], len(plan.puts)))
        return result(outcome, err)


def probe_store_model(root):
    """Which store model does the real LocalPipelineIo.put_item implement?  Looks at the destination item at the
    moment put_item first reads its source, for an item that already exists and for a new one."""
    repo.setup()
    from toasty.pipeline.local_io import LocalPipelineIo
    pio = LocalPipelineIo(root)
    pio.put_item("p", "x", source=io.BytesIO(b"old-content"))
    seen = {}

    def look(tag, name):
        p = os.path.join(root, "p", name)
        seen[tag] = open(p, "rb").read() if os.path.exists(p) else None
    pio.put_item("p", "x", source=FaultStream(io.BytesIO(b"new-content-which-is-longer"), lambda: look("old", "x"), None, None))
    pio.put_item("p", "y", source=FaultStream(io.BytesIO(b"brand-new"), lambda: look("new", "y"), None, None))
    if seen.get("old") == b"old-content" and seen.get("new") is None:
        return "atomic", seen
    if seen.get("old") == b"" and seen.get("new") == b"":
        return "inplace", seen
    return "other", seen


# ------------------------------------------------------------------------------------------------
# the walk over every path of the graph
# ------------------------------------------------------------------------------------------------

def digest(snap):
    """Identity of the disk contents.  Names of stray store entries (temporary files a killed process left behind) carry a
    process id: digit runs in names that are not item names are masked, so that equal contents are recognised as equal."""
    items = []
    for k in snap:
        parts = k.split("/")
        if parts[0] == "store" and len(parts) == 3 and parts[2] not in NAMES:
            parts[2] = re.sub(r"\d+", "#", parts[2])
        items.append(("/".join(parts), b"\0" if snap[k] is None else b"\1" + snap[k]))
    h = hashlib.sha1()
    for k, v in sorted(items):
        h.update(k.encode())
        h.update(v)
        h.update(b"\n")
    return h.hexdigest()


class Walker(object):
    def __init__(self, graph, root_key, scratch, atomic):
        self.g = graph
        self.files = {i: list(fs) for i, fs in graph.state[root_key]["files"].items()}
        self.bench = Bench(scratch, self.files)
        self.atomic = atomic
        self.findings = {}      # key -> [count, message, replay]
        self.drifts = []
        self.ndrift = 0
        self.runs = 0
        self.distinct = set()
        self.stray = 0
        self.weak_whole = 0     # quiescent states where refresh skips an image whose index.wtml itself is truncated
        self.samples = []
        self._snap_id = None
        self.flat = is_flat(self.files)
        self.refused_runs = 0   # runs that ended, as the spec says, with publish() raising at a sub-folder
        self.stray_names = set()

    def finding(self, key, msg, hist, real):
        f = self.findings.get(key)
        if f is None:
            self.findings[key] = [1, msg, {"files": self.files, "store_model": "atomic" if self.atomic else "inplace",
                                           "history": [p.describe() for p in hist], "observed": real}]
        else:
            f[0] += 1

    def drift(self, msg, hist):
        self.ndrift += 1
        if len(self.drifts) < 3:
            self.drifts.append("%s (history %s)" % (msg, json.dumps([p.describe() for p in hist])))

    def monitors(self, plan, hist, before, res, snap, dg):
        """The property's sentences on the REAL quiescent state (before = real state at the start of this run)."""
        b = self.bench
        real = b.real_state()
        skips = b.refresh_skips(dg)
        final = plan.final
        for i, fs in self.files.items():
            has_index = INDEX in fs and b.real_io.check_exists(i, INDEX)      # what refresh asks the store
            bad = sorted(f for f in fs if f != INDEX and real["store"][i][f] != "complete")
            was_bad = sorted(f for f in fs if f != INDEX and before["store"][i][f] != "complete")
            was_index = INDEX in fs and before["store"][i][INDEX] != "absent"
            introduced = not (was_index and was_bad)
            if has_index and bad and introduced:
                clobbered = [f for f in bad if before["store"][i][f] == "complete"]
                pred = "" if final["iia"] else " (TLC: IndexImpliesAll is FALSE in this state of the %s store model)" % ("atomic" if self.atomic else "in-place")
                if clobbered:
                    self.finding(K_CLOBBER, "after the %s the store holds %s/index.wtml while %s %s there (complete before this run; "
                                 "refresh skips %s)%s" % (self.how(plan, res), i, clobbered,
                                                          "is " + real["store"][i][clobbered[0]], skips, pred), hist, real)
                else:
                    self.finding(K_INDEX_INCOMPLETE, "after the %s the store holds %s/index.wtml while %s %s (refresh skips %s)%s"
                                 % (self.how(plan, res), i, bad, [real["store"][i][f] for f in bad], skips, pred), hist, real)
            elif i in skips and bad and not (i in self.skipped_before and was_bad):
                self.finding(K_REFRESH, "pipeline refresh skips %s as already done while %s of it %s in the store"
                             % (i, bad, [real["store"][i][f] for f in bad]), hist, real)
            allbad = sorted(f for f in fs if real["store"][i][f] != "complete")
            if real["loc"][i] != "approved" and (allbad or real["loc"][i] != "published"):
                was_pub = before["loc"][i] != "approved"
                if not was_pub:
                    self.finding(K_PUBLISHED, "after the %s the directory of %s is %s while %s of it %s in the store"
                                 % (self.how(plan, res), i, real["loc"][i], allbad, [real["store"][i][f] for f in allbad]), hist, real)
            if i in skips and INDEX in fs and real["store"][i][INDEX] == "partial":
                self.weak_whole += 1
                if not (before["store"][i][INDEX] == "partial" and i in self.skipped_before):
                    self.finding(K_INDEX_TRUNC, "after the %s the store holds an incomplete %s/index.wtml (not byte-identical to the approved "
                                 "file) and pipeline refresh skips %s as already done%s"
                                 % (self.how(plan, res), i, i, "" if final["whole"] else " (TLC: SkippedIsWhole is FALSE in this state of the spec)"), hist, real)
        if plan.fault is None and plan.refused:
            # a file set with a sub-folder: "re-running completes the job" is not judged (as built publish() refuses the
            # sub-folder in every run; recorded in the notes); the safety sentences above are
            if res["outcome"] == "raised":
                self.refused_runs += 1
            elif res["sync"]:
                res["sync"] = False
                self.drift("spec (as built): publish() raises at the sub-folder %s/%s; the real run %s" % (
                    plan.refused["image"], plan.refused["subdir"], res["outcome"]), hist)
        elif plan.fault is None and self.flat:
            done = all(real["loc"][i] == "published" and all(v == "complete" for v in real["store"][i].values()) for i in self.files)
            if res["outcome"] != "returned" or not done:
                self.finding(K_RERUN, "a run of publish() without any fault %s and left %s"
                             % ("returned" if res["outcome"] == "returned" else "raised %s" % res["error"], json.dumps(real, sort_keys=True)), hist, real)
        if res["outcome"] == "raised" and not plan.refused and (plan.fault is not None or not self.flat):
            self.drift("publish() raised %s by itself" % res["error"], hist)
        # spec vs real, after the run
        if res["sync"]:
            if real["store"] != final["store"] or real["loc"] != final["loc"]:
                res["sync"] = False
                self.drift("after the run: real %s, spec %s" % (json.dumps(real, sort_keys=True),
                                                               json.dumps({"store": final["store"], "loc": final["loc"]}, sort_keys=True)), hist)
            elif sorted(final["skips"]) != skips:
                self.drift("refresh skips %s, spec RefreshSkips %s" % (skips, sorted(final["skips"])), hist)
        return real, skips

    def safety_after_rerun(self, real, before, hist, what):
        """The safety sentences on the real disk after a run that has no spec behaviour behind it."""
        b = self.bench
        for i, fs in self.files.items():
            bad = sorted(f for f in fs if f != INDEX and real["store"][i][f] != "complete")
            if INDEX in fs and b.real_io.check_exists(i, INDEX) and bad and not (before["store"][i][INDEX] != "absent" and
                                                                                   any(before["store"][i][f] != "complete" for f in bad)):
                self.finding(K_INDEX_INCOMPLETE, "after the %s the store holds %s/index.wtml while %s %s" % (
                    what, i, bad, [real["store"][i][f] for f in bad]), hist, real)
            allbad = sorted(f for f in fs if real["store"][i][f] != "complete")
            if real["loc"][i] != "approved" and before["loc"][i] == "approved" and (allbad or real["loc"][i] != "published"):
                self.finding(K_PUBLISHED, "after the %s the directory of %s is %s while %s of it %s in the store" % (
                    what, i, real["loc"][i], allbad, [real["store"][i][f] for f in allbad]), hist, real)

    @staticmethod
    def how(plan, res):
        f = plan.fault
        if f is None:
            return "run"
        if f["kind"] == "StoreFail":
            return "store-side %s failing while %s/%s is written" % (
                "temporary file deleted under it (real ENOENT)" if f["variant"] == "janitor" else
                "rename (%s)" % f["variant"].split(":")[-1] if f["variant"].startswith("replace") else
                "write (real file-size limit, %s)" % f["variant"], f["image"], f["file"])
        if f["kind"] == "Refuse":
            return "store refusing (%s) to create the file for %s/%s" % (f.get("variant"), f["image"], f["file"])
        return "%s %s the transfer of %s/%s" % (("crash (%s)" % ("process killed, os._exit" if f.get("variant") == "kill" else
                                                               "`toasty pipeline publish` killed, os._exit" if f.get("variant") == "kill-cli" else
                                                               "%s%s unwinding publish()" % (f.get("variant", "?").split("*")[0],
                                                                                            ", delivered again at the next transfer" if "*2" in f.get("variant", "") else "")))
                                                if f["kind"] == "Crash" else "failed transfer (%s)" % f.get("variant"),
                                                {"entry": "before", "during": "during", "exit": "after"}[f["where"]], f["image"], f["file"])

    def step(self, key, snap, plan, hist):
        """Execute one run from (spec idle state key, disk snapshot); returns (next snapshot or None if out of sync)."""
        b = self.bench
        b.restore(snap)
        before = b.real_state()
        if self._snap_id != id(snap):
            self._snap_id, self._snap_dg = id(snap), digest(snap)
            self._snap_keep = snap
        self.skipped_before = b.refresh_skips(self._snap_dg)
        res = b.run(plan, self.atomic)
        self.runs += 1
        if res["na"]:
            self.stray_na = getattr(self, "stray_na", 0) + 1
        after = b.snapshot()
        dg = digest(after)
        hist2 = hist + [plan]
        for k, msg in res["alarms"]:
            self.finding(k, msg, hist2, b.real_state())
        for d in res["drifts"]:
            self.drift(d, hist2)
        real, skips = self.monitors(plan, hist2, before, res, after, dg)
        strays = b.stray(after)
        if strays:
            self.stray += 1
            if len(self.stray_names) < 6:
                self.stray_names.update(re.sub(r"\d+", "#", s) if s.split("/")[-1] not in NAMES else s for s in strays[:2])
        if plan.fault is not None and plan.fault.get("variant") == "kill-cli" and res["sync"]:
            # the operator runs the command again, undisturbed: it must complete the job
            todo = sorted(i for i in self.files if os.path.isdir(os.path.join(b.work, "approved", i)))
            if todo:
                ls = [(i, sorted(b._listdir(os.path.join(b.work, "approved", i)))) for i in todo]
                fp = FreePlan(ls[0][0], ls[0][1], ls[1:], descend=plan.descend, scan_reverse=plan.scan_reverse)
                fp.via_cli = True
                res2 = b.run(fp, self.atomic)
                self.runs += 1
                b.current = None
                real2 = b.real_state()
                for k2, msg2 in res2["alarms"]:
                    self.finding(k2, msg2 + " (re-run through the command line after the %s)" % self.how(plan, res), hist2, real2)
                if self.flat and (res2["outcome"] != "returned" or not all(real2["loc"][i] == "published" and all(v == "complete" for v in real2["store"][i].values())
                                                                            for i in self.files)):
                    self.finding(K_RERUN, "after the %s re-running `toasty pipeline publish` %s and left %s"
                                 % (self.how(plan, res), "returned" if res2["outcome"] == "returned" else "raised %s" % res2["error"],
                                    json.dumps(real2, sort_keys=True)), hist2, real2)
        if plan.fault is not None and not res["sync"] and not res["na"]:
            # the run left the spec: "re-running publish completes the job" is then judged directly, by one fault-free run
            todo = sorted(i for i in self.files if os.path.isdir(os.path.join(b.work, "approved", i)))
            res2 = {"outcome": "returned", "error": None}
            if todo:
                ls = [(i, sorted(b._listdir(os.path.join(b.work, "approved", i)))) for i in todo]
                res2 = b.run(FreePlan(ls[0][0], ls[0][1], ls[1:], descend=plan.descend, scan_reverse=plan.scan_reverse), self.atomic)
                self.runs += 1
                b.current = None            # the disk no longer is the snapshot taken above
            real2 = b.real_state()
            for k2, msg2 in res2.get("alarms", ()):
                self.finding(k2, msg2 + " (fault-free re-run after the %s)" % self.how(plan, res), hist2, real2)
            if todo:
                self.safety_after_rerun(real2, before, hist2, "fault-free re-run after the %s" % self.how(plan, res))
            if self.flat and (res2["outcome"] != "returned" or not all(real2["loc"][i] == "published" and all(v == "complete" for v in real2["store"][i].values())
                                                                        for i in self.files)):
                self.finding(K_RERUN, "after the %s a fault-free re-run of publish() %s and left %s"
                             % (self.how(plan, res), "returned" if res2["outcome"] == "returned" else "raised %s" % res2["error"],
                                json.dumps(real2, sort_keys=True)), hist2, real2)
        if plan.puts:
            self.distinct.add((plan.key0, json.dumps(plan.describe(), sort_keys=True)))
        if len(self.samples) < 2 and plan.fault and plan.fault["where"] == "during" and len(hist2) > 1:
            self.samples.append({"history": [p.describe() for p in hist2], "put_calls_of_last_run": res["calls"],
                                 "real_state_after": real, "spec_state_after": {"store": plan.final["store"], "loc": plan.final["loc"]},
                                 "refresh_skips": skips})
        return (after if res["sync"] else None), dg

    def expand(self, key, snap, hist):
        """Execute every run the spec allows from (spec idle state, disk snapshot); returns the successor nodes."""
        out = []
        for j, plan in enumerate(self.g.segments(key)):
            nxt, dg = self.step(key, snap, plan, hist)
            out.append((j, plan.end, dg, nxt))
        return out

    def report(self):
        r = {"findings": self.findings, "drifts": self.drifts, "ndrift": self.ndrift, "runs": self.runs,
             "distinct": self.distinct, "stray": self.stray, "na": getattr(self, "stray_na", 0), "weak_whole": self.weak_whole, "samples": self.samples,
             "refused": self.refused_runs, "stray_names": sorted(self.stray_names)}
        self.findings, self.drifts, self.ndrift, self.runs = {}, [], 0, 0
        self.distinct, self.stray, self.weak_whole, self.samples = set(), 0, 0, []
        self.stray_na = 0
        self.refused_runs, self.stray_names = 0, set()
        return r


_G = {}
_WALKERS = {}


def _expand(args):
    root_key, key, snap, hist, base, atomic = args
    g = _G["graph"]
    w = _WALKERS.get(root_key)
    if w is None:
        d = os.path.join(base, "p%d-%d" % (os.getpid(), len(_WALKERS)))
        w = _WALKERS[root_key] = Walker(g, root_key, d, atomic)
    plans = [g.segments(k0)[j] for k0, j in hist]
    children = w.expand(key, snap, plans)
    r = w.report()
    r["children"] = children
    return r


def replay_graph(ctx, graph, atomic, share, tag, roots=None):
    """Level-synchronised walk over every path of the graph.  A node is (spec idle state, real disk contents); with
    `share`, paths that arrive at the same node are continued once (and counted as often as they arrive)."""
    import multiprocessing as mp
    _G["graph"] = graph
    base = ctx.mkdtemp("bench")
    frontier = {}
    for rk in graph.roots:
        if roots is not None and fkey(graph.state[rk]["files"]) not in roots:
            continue
        files = {i: list(fs) for i, fs in graph.state[rk]["files"].items()}
        snap0 = initial_snapshot(files)
        frontier[(rk, rk, digest(snap0), ())] = [snap0, 1, []]
    agg = {"runs": 0, "paths": 0, "ndrift": 0, "stray": 0, "weak_whole": 0, "nodes": 0, "levels": 0, "na": 0, "refused": 0,
           "repeats": 0, "stray_names": set()}
    found = {}
    with mp.get_context("fork").Pool(POOL) as pool:
        while frontier:
            agg["levels"] += 1
            if agg["levels"] > 40:
                ctx.machinery("the walk over the graph does not end (more than 40 runs on one path)")
            items = []
            for nk in sorted(frontier, key=lambda t: (t[0], t[1], t[2], t[3])):
                snap, cnt, hist = frontier[nk]
                if not graph.segments(nk[1]):
                    agg["paths"] += cnt
                else:
                    items.append((nk, snap, cnt, hist))
            agg["nodes"] += len(items)
            results = pool.map(_expand, [(nk[0], nk[1], snap, hist, base, atomic) for nk, snap, cnt, hist in items], chunksize=1)
            frontier = {}
            for (nk, snap, cnt, hist), r in zip(items, results):
                for k in ("runs", "ndrift", "stray", "weak_whole", "na", "refused"):
                    agg[k] += r[k]
                agg["stray_names"].update(r["stray_names"])
                for key, (n, msg, rep) in sorted(r["findings"].items()):
                    f = found.setdefault(key, [0, msg, rep])
                    f[0] += n * cnt
                for d in r["drifts"]:
                    ctx.drift(d)
                for dk in r["distinct"]:
                    ctx.distinct((tag,) + dk)
                for sm in r["samples"]:
                    ctx.sample(sm)
                for j, ek, edg, esnap in r["children"]:
                    if esnap is None:
                        agg["paths"] += cnt        # the path left the spec (reported as drift); not continued
                        continue
                    if (ek, edg) == (nk[1], nk[2]):
                        # a refused run (sub-folder) that changed nothing: spec state and disk are those it started from;
                        # running it again would repeat it
                        agg["paths"] += cnt
                        agg["repeats"] += 1
                        continue
                    h2 = hist + [(nk[1], j)]
                    ck = (nk[0], ek, edg, () if share else tuple(h2))
                    node = frontier.get(ck)
                    if node is None:
                        frontier[ck] = [esnap, cnt, h2]
                    else:
                        node[1] += cnt
    for key in sorted(found):
        n, msg, rep = found[key]
        rep["paths_with_this_finding"] = n
        ctx.violation(key, msg, rep)
    ctx.count(agg["runs"])
    ctx.trace_ok(agg["runs"])
    agg["stray_names"] = sorted(agg["stray_names"])[:6]
    return agg


def probe_traversal(ctx, files, reverse):
    """What does the real publish() do with an approved image that has a sub-folder?  One undisturbed run on a scratch work
    dir, every directory below approved/ listed in sorted (reverse-sorted) order whichever way publish() lists it
    (os.listdir, os.scandir / os.walk).  As built it raises at the sub-folder before index.wtml is sent; a publish() that
    transfers files of sub-folders has left that model, and the transfer order it is seen to use selects the runs of the
    to-be graph (Traversal = "descend-any") that are replayed.  The safety sentences are judged on the real disk here, too."""
    b = Bench(ctx.mkdtemp("probe-nested"), files)
    b.restore(initial_snapshot(files))
    ls = [(i, sorted(b._listdir(os.path.join(b.work, "approved", i)), reverse=reverse)) for i in sorted(files)]
    res = b.run(FreePlan(ls[0][0], ls[0][1], ls[1:], descend=True, scan_reverse=reverse), True)
    ctx.count()
    orders = {}
    for c in res["calls"]:
        orders.setdefault(c[0], []).append("/".join(str(x) for x in c[1:]))
    real = b.real_state()
    rp = {"files": {i: sorted(fs) for i, fs in files.items()}, "directory_order": "reverse-sorted" if reverse else "sorted", "probe": True,
          "put_calls": res["calls"], "outcome": res["outcome"], "error": res["error"], "observed": real, "fault": None}
    for k, msg in res["alarms"]:
        ctx.violation(k, msg + " (undisturbed publish() of an image with a sub-folder, directories listed in %s order)" % rp["directory_order"], rp)
    for i, fs in files.items():
        bad = sorted(f for f in fs if f != INDEX and real["store"][i][f] != "complete")
        if INDEX in fs and b.real_io.check_exists(i, INDEX) and bad:
            ctx.violation(K_INDEX_INCOMPLETE, "after an undisturbed publish() (%s%s) of an image with a sub-folder the store holds %s/index.wtml while %s %s"
                          % (res["outcome"], " " + res["error"] if res["error"] else "", i, bad, [real["store"][i][f] for f in bad]), rp)
        allbad = sorted(f for f in fs if real["store"][i][f] != "complete")
        if real["loc"][i] != "approved" and (allbad or real["loc"][i] != "published"):
            ctx.violation(K_PUBLISHED, "after an undisturbed publish() (%s) of an image with a sub-folder its directory is %s while %s of it %s in the store"
                          % (res["outcome"], real["loc"][i], allbad, [real["store"][i][f] for f in allbad]), rp)
    descends = any(len(c) > 2 for c in res["calls"])
    complete = descends and res["outcome"] == "returned" and all(sorted(orders.get(i, [])) == sorted(fs) for i, fs in files.items())
    return {"descends": descends, "complete": complete, "orders": orders, "outcome": res["outcome"], "error": res["error"]}


# ------------------------------------------------------------------------------------------------

class FreePlan(object):
    """A run without a spec behaviour behind it (physical scenario): only the listings are imposed."""

    def __init__(self, img, listing, more=(), descend=False, scan_reverse=False):
        both = [(img, listing)] + list(more)
        self.queue = [i for i, _ in both]
        self.images = [{"img": i, "listing": list(ls), "order": None, "pre": None} for i, ls in both]
        self.puts = []
        self.fault = None
        self.start = {"faults": 0}
        self.refused = None
        self.descend = descend
        self.scan_reverse = scan_reverse


# ------------------------------------------------------------------------------------------------
# BEYOND THE STATED QUANTIFIER: two overlapping publish() runs (spec/PublishOverlap.tla)
# ------------------------------------------------------------------------------------------------

K_OVERLAP_INDEX = "C18:publish:overlapping-runs:index-with-incomplete-file"
K_OVERLAP_PUBLISHED = "C18:publish:overlapping-runs:published-with-incomplete-file"
OBLOCK = 16384          # a multiple of the stream buffer: a block handed to the store-side file object goes to the disk at once
OIMG = "imgA"


def overlap_module(name, order, max_crash):
    from lib.core import SPEC_DIR
    text = open(os.path.join(SPEC_DIR, "MCPublishOverlap.tla")).read()
    text, n1 = re.subn(r"MODULE MCPublishOverlap\b", "MODULE " + name, text, count=1)
    text, n2 = re.subn(r"MCOrder ==.*", lambda m: "MCOrder == " + tla.lit(list(order)), text, count=1)
    text, n3 = re.subn(r"MCMaxCrash ==.*", lambda m: "MCMaxCrash == " + tla.lit(list(max_crash)), text, count=1)
    if (n1, n2, n3) != (1, 1, 1):
        raise RuntimeError("spec/MCPublishOverlap.tla does not have the expected shape")
    return text


def overlap_cfg(shared, invariants, emit=False, properties=()):
    lines = ["SPECIFICATION Spec", "CONSTANTS", " Order <- MCOrder", ' Index = "%s"' % INDEX, " NB <- MCNB", " Early <- MCEarly",
             " MaxCrash <- MCMaxCrash", " SharedTmp = %s" % ("TRUE" if shared else "FALSE")]
    lines += ["INVARIANT " + i for i in invariants] + ["PROPERTY " + q for q in properties]
    if emit:
        lines.append("ACTION_CONSTRAINT EmitEdge")
    lines.append("CHECK_DEADLOCK FALSE")
    return "\n".join(lines) + "\n"


def oblocks(fn):
    """The content of a file of the overlap exploration, as the blocks in which its source stream hands it out
    (MCNB / MCEarly of spec/MCPublishOverlap.tla: data.png = two blocks that reach the disk before close, the others one
    block that is written at close)."""
    if fn == BIG:
        return [bytes([65 + j]) * OBLOCK for j in range(2)], 2
    return [("%s|" % fn).encode() + bytes(range(65, 85))], 0


def overlap_paths(edges, bound):
    """Every path of the dumped graph from the initial state to a state where both runs have ended, with at most `bound`
    preemptions (a step of one process while the process that made the step before could still move; being killed is
    not a step of the process).  bound = None: every path."""
    state, adj = {}, {}
    for e in edges:
        a, b = skey(e["s"]), skey(e["t"])
        state.setdefault(a, e["s"])
        state.setdefault(b, e["t"])
        for act in sorted(map(tuple, e["acts"])):
            item = (act, b)
            if item not in adj.setdefault(a, []):
                adj[a].append(item)
    roots = [k for k, s in state.items() if s["pc"] == ["idle", "idle"]]
    if len(roots) != 1:
        raise RuntimeError("overlap graph: %d initial states" % len(roots))
    out, npaths = [], [0]
    ended = ("done", "failed", "dead")

    def dfs(key, acc, last, pre):
        nxt = sorted(adj.get(key, ()))
        if not nxt:
            npaths[0] += 1
            out.append(list(acc))
            return
        s = state[key]
        for (a, p), tk in nxt:
            cost = 0
            if a != "Crash" and last is not None and p != last and s["pc"][last - 1] not in ended:
                cost = 1
            if bound is not None and pre + cost > bound:
                continue
            acc.append(((a, p), tk))
            dfs(tk, acc, last if a == "Crash" else p, pre + cost)
            acc.pop()
    dfs(roots[0], [], None, 0)
    return state, roots[0], out


def _overlap_child(work, order, pno, cmd_r, rep_w):
    """One publisher process: the real PipelineManager.publish() on `work`, stopping at every point that separates two
    steps of the spec until the parent lets it go on."""
    def say(obj):
        os.write(rep_w, (json.dumps(obj) + "\n").encode())

    def pause(pc, k=0, b=0):
        say({"at": [pc, k, b]})
        if not os.read(cmd_r, 1):
            os._exit(98)            # the parent went away

    code = 0
    try:
        from toasty import pipeline
        approved = os.path.join(work, "approved")
        real_listdir = os.listdir
        st = {"k": 0, "begun": False}

        def listdir(path="."):
            try:
                pth = os.path.normpath(os.fspath(path))
            except TypeError:
                return real_listdir(path)
            if pth == approved and not st["begun"]:
                st["begun"] = True
                pause("idle")
            res = real_listdir(path)
            if os.path.dirname(pth) == approved and sorted(res) == sorted(order):
                return list(order)           # index.wtml is last in this listing already: the transfer list of the spec
            return res

        class Paced(object):
            def __init__(self, k, fn):
                self.k, self.blocks, self.early = k, oblocks(fn)[0], oblocks(fn)[1]
                self.n = 0

            def read(self, size=-1):
                n = self.n
                self.n += 1
                if n < self.early:
                    pause("write", self.k, n)
                    return self.blocks[n]
                if n == self.early:
                    pause("close", self.k, n)
                    return b"".join(self.blocks[n:])
                return b""

        class Proxy(object):
            def __init__(self, real):
                self._real = real

            def __getattr__(self, name):
                return getattr(self._real, name)

            def put_item(self, *path, source=None):
                st["k"] += 1
                pause("open", st["k"], 0)
                self._real.put_item(*path, source=Paced(st["k"], path[-1]))

        mgr = pipeline.PipelineManager(work)
        mgr._pipeio = Proxy(mgr._pipeio)
        os.listdir = listdir
        try:
            with open(os.devnull, "w") as null, contextlib.redirect_stdout(null), contextlib.redirect_stderr(null):
                mgr.publish()
            if not st["begun"]:
                pause("idle")
            say({"end": "done"})
        except Exception as e:  # noqa
            say({"end": "failed", "error": "%s: %s" % (type(e).__name__, e)})
    except BaseException:  # noqa
        import traceback
        try:
            say({"end": "machinery", "error": traceback.format_exc()})
        except OSError:
            pass
        code = 3
    finally:
        os._exit(code)


def _overlap_replay(args):
    """Worker: replays paths of the overlap graph; each path = a fresh work dir and store and two forked publishers that
    are let go one step at a time, in the order of the path (so the interleaving is the one TLC produced, deterministically)."""
    import select
    base, order, paths = args
    repo.setup()
    from toasty import pipeline  # noqa: F401  (imported before forking the publishers)
    files = {f: b"".join(oblocks(f)[0]) for f in order}
    state = _G["overlap_state"]
    out = {"runs": 0, "findings": {}, "drifts": [], "ndrift": 0, "steps": 0, "samples": []}
    root = tempfile_mkdtemp(base)
    for pi, path in paths:
        d = os.path.join(root, "p%d" % pi)
        work, store = os.path.join(d, "work"), os.path.join(d, "store")
        os.makedirs(os.path.join(work, "approved", OIMG))
        os.makedirs(store)
        with open(os.path.join(work, "toasty-store-config.yaml"), "w") as f:
            f.write("_type: local\npath: %s\n" % store)
        for fn, data in files.items():
            with open(os.path.join(work, "approved", OIMG, fn), "wb") as f:
                f.write(data)
        procs = {}
        sync, drifts = True, []
        desc = [[a, q] for (a, q), _ in path]

        def real_state():
            items = {}
            for fn, data in files.items():
                try:
                    with open(os.path.join(store, OIMG, fn), "rb") as fh:
                        items[fn] = "complete" if fh.read() == data else "partial"
                except FileNotFoundError:
                    items[fn] = "absent"
            a = os.path.isdir(os.path.join(work, "approved", OIMG))
            pb = os.path.isdir(os.path.join(work, "published", OIMG))
            return items, ("approved" if a and not pb else "published" if pb and not a else "both" if a else "lost")

        def report(q):
            """The next report of publisher q: ('at', [pc, k, b]) | ('end', how, error)."""
            pr = procs[q]
            while b"\n" not in pr["buf"]:
                r, _, _ = select.select([pr["rep"]], [], [], 120)
                chunk = os.read(pr["rep"], 4096) if r else b""
                if not chunk:
                    if not r:
                        os.kill(pr["pid"], signal.SIGKILL)
                    os.waitpid(pr["pid"], 0)
                    pr["live"] = False
                    return ("end", "died", "no report within 120 s" if not r else "no report")
                pr["buf"] += chunk
            line, pr["buf"] = pr["buf"].split(b"\n", 1)
            obj = json.loads(line)
            if "end" in obj:
                os.waitpid(pr["pid"], 0)
                pr["live"] = False
                if obj["end"] == "machinery":
                    raise RuntimeError("harness failure in a publisher process:\n" + obj["error"])
                return ("end", obj["end"], obj.get("error"))
            return ("at", obj["at"])

        try:
            for q in (1, 2):
                cr, cw = os.pipe()
                rr, rw = os.pipe()
                pid = os.fork()
                if pid == 0:
                    os.close(cw)
                    os.close(rr)
                    for o in procs.values():
                        os.close(o["cmd"])
                        os.close(o["rep"])
                    _overlap_child(work, order, q, cr, rw)
                os.close(cr)
                os.close(rw)
                procs[q] = {"pid": pid, "cmd": cw, "rep": rr, "buf": b"", "live": True, "last": None}
                procs[q]["last"] = report(q)
            ends = {}
            for (act, q), tk in path:
                spec = state[tk]
                out["steps"] += 1
                pr = procs[q]
                if not pr["live"]:
                    if sync:
                        sync = False
                        drifts.append("step %s of publisher %d: the real process has ended already (%s)" % (act, q, ends.get(q)))
                    continue
                if act == "Crash":
                    os.kill(pr["pid"], signal.SIGKILL)
                    os.waitpid(pr["pid"], 0)
                    pr["live"] = False
                    ends[q] = "dead"
                else:
                    os.write(pr["cmd"], b"g")
                    rp = report(q)
                    want = spec["pc"][q - 1]
                    if rp[0] == "end":
                        ends[q] = "%s%s" % (rp[1], " (%s)" % rp[2] if rp[2] else "")
                        if sync and rp[1] != want:
                            sync = False
                            drifts.append("after step %s of publisher %d the real run has %s, spec pc = %s" % (act, q, ends[q], want))
                    elif sync and rp[1] != [want, spec["k"][q - 1], spec["b"][q - 1]]:
                        sync = False
                        drifts.append("after step %s of publisher %d the real run is at %s, spec at %s" % (
                            act, q, rp[1], [want, spec["k"][q - 1], spec["b"][q - 1]]))
                if sync and act != "Begin":
                    items, loc = real_state()
                    if items != spec["items"] or loc != spec["loc"]:
                        sync = False
                        drifts.append("after step %s of publisher %d: real store %s / %s, spec %s / %s" % (
                            act, q, json.dumps(items, sort_keys=True), loc, json.dumps(spec["items"], sort_keys=True), spec["loc"]))
            # whatever is still running (the run left the spec) is let go to its end, one process after the other
            for q in (1, 2):
                pr = procs[q]
                n = 0
                while pr["live"] and n < 200:
                    n += 1
                    os.write(pr["cmd"], b"g")
                    rp = report(q)
                    if rp[0] == "end":
                        ends[q] = "%s%s" % (rp[1], " (%s)" % rp[2] if rp[2] else "")
        finally:
            for pr in procs.values():
                if pr["live"]:
                    try:
                        os.kill(pr["pid"], signal.SIGKILL)
                        os.waitpid(pr["pid"], 0)
                    except OSError:
                        pass
                os.close(pr["cmd"])
                os.close(pr["rep"])
        out["runs"] += 1
        final = state[path[-1][1]]
        items, loc = real_state()
        rp = {"overlap": True, "order": list(order), "schedule": desc, "observed": {"items": items, "loc": loc, "ends": ends},
              "spec_final": {"items": final["items"], "loc": final["loc"], "IndexImpliesAll": final["iia"], "PublishedImpliesAll": final["pia"]}}
        how = ("BEYOND THE STATED QUANTIFIER (two publish() runs overlapping on one image; schedule %s; publisher 1 %s, publisher 2 %s): "
               % (" ".join("%s%d" % (a if a != "Crash" else "KILL", q) for a, q in desc), ends.get(1), ends.get(2)))
        bad = sorted(f for f in items if f != INDEX and items[f] != "complete")
        if os.path.exists(os.path.join(store, OIMG, INDEX)) and bad:
            fd = out["findings"].setdefault(K_OVERLAP_INDEX, [0, how + "when both runs have ended the store holds %s/index.wtml while %s %s%s" % (
                OIMG, bad, [items[f] for f in bad], "" if not final["iia"] else " (TLC: holds in the as-built model, temporary name per process)"), rp])
            fd[0] += 1
        allbad = sorted(f for f in items if items[f] != "complete")
        if loc != "approved" and (allbad or loc != "published"):
            fd = out["findings"].setdefault(K_OVERLAP_PUBLISHED, [0, how + "when both runs have ended the image directory is %s while %s %s in the store" % (
                loc, allbad, [items[f] for f in allbad]), rp])
            fd[0] += 1
        if sync:
            strays = sum(len([e for e in fns if e not in files]) for _, _, fns in os.walk(os.path.join(store, OIMG))) if os.path.isdir(os.path.join(store, OIMG)) else 0
            if strays != final["strays"]:
                drifts.append("when both runs have ended the store holds %d entries that are not files of the image, spec %d temporary names" % (strays, final["strays"]))
        if drifts:
            out["ndrift"] += 1
            if len(out["drifts"]) < 2:
                out["drifts"].append("overlapping runs, schedule %s: %s" % (json.dumps(desc), drifts[0]))
        if len(out["samples"]) < 1 and len(desc) > 10:
            out["samples"].append(rp)
        shutil.rmtree(d, ignore_errors=True)
    shutil.rmtree(root, ignore_errors=True)
    return out


def tempfile_mkdtemp(base):
    import tempfile
    return tempfile.mkdtemp(prefix="ov%d-" % os.getpid(), dir=base)


def overlap_suites(ctx, only=None, order=None):
    """(tag, transfer list, kill budget of publisher 1 / 2, preemption bound, symmetric) of the overlap exploration.
    symmetric: both publishers may be killed equally often, so a schedule and the one with the two names swapped are the same
    schedule - only those in which publisher 1 makes the first step are replayed."""
    if only:
        return [("replay", list(order), [1, 1], None, False)]
    if ctx.quick:
        return [("o2", [BIG, INDEX], [0, 1], 2, False)]
    return [("o2", [BIG, INDEX], [1, 1], None, True), ("o3", ["thumb.jpg", BIG, INDEX], [1, 1], 2, True)]


def overlap_tlc_jobs(ctx, suites):
    """name -> zero-argument callable that runs the TLC job."""
    inv = ["TypeOK", "QIndexImpliesAll", "QPublishedImpliesAll", "ItemsWhole"]
    jobs = {}
    for tag, order, crash, bound, sym in suites:
        def tlc(name, cfg_text, order=order, crash=crash, **kw):
            return ctx.tlc(name, extra={name + ".tla": overlap_module(name, order, crash)}, cfg_text=cfg_text, timeout=3000, **kw)
        jobs["MCPublishOverlap_%s_asbuilt" % tag] = functools.partial(tlc, "MCPublishOverlap_%s_asbuilt" % tag, overlap_cfg(False, inv, emit=True), workers=1)
        jobs["MCPublishOverlap_%s_shared_refuted" % tag] = functools.partial(
            tlc, "MCPublishOverlap_%s_shared_refuted" % tag, overlap_cfg(True, ["TypeOK", "QIndexImpliesAll"]), workers=1, expect_violation=True, count=False)
    if not ctx.quick and suites[0][0] != "replay":
        tag, order = suites[0][0], suites[0][1]
        jobs["MCPublishOverlap_%s_liveness" % tag] = functools.partial(
            lambda name, order=order: ctx.tlc(name, extra={name + ".tla": overlap_module(name, order, [0, 0])},
                                              cfg_text=overlap_cfg(False, inv, properties=["SomeoneCompletes"]), timeout=3000, workers=2),
            "MCPublishOverlap_%s_liveness" % tag)
    return jobs


def overlap_exploration(ctx, atomic, only=None, order=None, suites=None, results=None):
    """Two overlapping publish() runs on one image - outside the property's quantifier (one publisher with injected
    crashes / failures), explored separately and reported under keys of its own.  only = a recorded schedule (--replay);
    results = the TLC runs of overlap_tlc_jobs when the caller has made them already."""
    if not atomic:
        ctx.note("overlapping_runs (beyond the stated quantifier)", "not explored: the put_item under test does not write to a temporary sibling "
                 "(spec/PublishOverlap.tla models temp + os.replace)")
        return
    suites = suites or overlap_suites(ctx, only, order)
    if results is None:
        from concurrent.futures import ThreadPoolExecutor
        with ThreadPoolExecutor(3) as ex:
            futs = {k: ex.submit(f) for k, f in overlap_tlc_jobs(ctx, suites).items()}
            results = {k: f.result() for k, f in futs.items()}
    notes = {}
    for suite in suites:
        notes[suite[0]] = overlap_replay_suite(ctx, suite, results["MCPublishOverlap_%s_asbuilt" % suite[0]],
                                               results["MCPublishOverlap_%s_shared_refuted" % suite[0]], only)
    lv = [k for k in results if k.endswith("_liveness")]
    if lv:
        notes["liveness"] = "neither publisher killed: some run gets the image published with every file complete (SomeoneCompletes, %d distinct states)" % results[lv[0]].distinct
    notes["keys"] = "a failure here is reported under %s / %s and says that it lies outside the property's quantifier" % (K_OVERLAP_INDEX, K_OVERLAP_PUBLISHED)
    ctx.note("overlapping_runs (beyond the stated quantifier)", notes)


def overlap_replay_suite(ctx, suite, r1, r2, only):
    import multiprocessing as mp
    tag, order, crash, bound, sym = suite
    if r2.violated != "QIndexImpliesAll":
        ctx.machinery("TLC was expected to refute QIndexImpliesAll for a temporary name shared by the two publishers, it reports %r" % (r2.violated,))
    edges = r1.json_lines("E")
    state, root, paths = overlap_paths(edges, bound)
    if len(state) != r1.distinct:
        ctx.machinery("overlap edge dump incomplete: %d states in the dump, TLC found %d" % (len(state), r1.distinct))
    nall = len(paths)
    if sym:
        paths = [pth for pth in paths if pth[0][0][1] == 1]
    _G["overlap_state"] = state
    base = ctx.mkdtemp("overlap")
    if only:
        paths = [pth for pth in paths if [[a, q] for (a, q), _ in pth] == [list(x) for x in only]]
        if not paths:
            ctx.machinery("the recorded schedule is not a path of the overlap graph")
    idx = list(enumerate(paths))
    nchunk = max(1, min(len(idx), POOL * 4))
    chunks = [idx[j::nchunk] for j in range(nchunk)]
    if only:
        results = [_overlap_replay((base, order, idx))]
        print("schedule %s" % json.dumps(only))
        print("   spec (as built): %s" % json.dumps({k: state[paths[0][-1][1]][k] for k in ("items", "loc", "iia", "pia")}, sort_keys=True))
    else:
        with mp.get_context("fork").Pool(POOL) as pool:
            results = pool.map(_overlap_replay, [(base, order, c) for c in chunks], chunksize=1)
    agg = {"runs": 0, "ndrift": 0, "steps": 0}
    found = {}
    ndr = 0
    for r in results:
        for k in agg:
            agg[k] += r[k]
        for d in r["drifts"][:1]:
            ndr += 1
            if ndr <= 3:
                ctx.drift(d)
        for key, (n, msg, rp) in sorted(r["findings"].items()):
            f = found.setdefault(key, [0, msg, rp])
            f[0] += n
        for sm in r["samples"][:1]:
            if "overlap_sample" not in _G:
                _G["overlap_sample"] = True
                ctx.sample(sm)
    for key in sorted(found):
        n, msg, rp = found[key]
        rp["schedules_with_this_finding"] = n
        ctx.violation(key, msg, rp)
    ctx.count(agg["runs"])
    ctx.trace_ok(agg["runs"])
    for dk in range(agg["runs"]):
        ctx.distinct(("overlap", tag, dk))
    return {
        "spec": "spec/PublishOverlap.tla: two publisher processes on one image (transfer list %s), publisher 1 / 2 may be killed %s times; inodes, names, blocks" % (order, crash),
        "tlc": {"temporary name per process (as built)": "QIndexImpliesAll, QPublishedImpliesAll, ItemsWhole hold (%d distinct states)" % r1.distinct,
                "one temporary name per item": "%s REFUTED (counterexample of %d states)" % (r2.violated, r2.output.count("\nState "))},
        "replayed": "%d schedules (%s%s) on two forked processes running the real publish(), let go one spec step at a time; %d steps; the real store and "
                    "image directory compared with the spec state after every step (%d schedules with drift)"
                    % (agg["runs"], "every path of the graph" if bound is None else "every path of the graph with at most %d preemptions" % bound,
                       ", publisher 1 first (the two are interchangeable): %d of %d" % (len(paths), nall) if sym else "", agg["steps"], agg["ndrift"])}


def long_name_scenario(ctx):
    """Refuse, physically: a file whose name is legal but so long that name + any temporary suffix exceeds NAME_MAX.
    Whether the store can take it depends on the put_item implementation (either outcome is fine); what is judged
    is the property's safety half on the real disk afterwards."""
    root = ctx.mkdtemp("longname")
    try:
        name_max = os.pathconf(root, "PC_NAME_MAX")
    except (OSError, ValueError):
        name_max = 255
    long = "x" * (name_max - 8) + ".png"             # legal by itself; 4 more characters are not
    outcomes = []
    for n, listing in enumerate(([INDEX, long], [long, INDEX])):
        b = Bench(os.path.join(root, "b%d" % n), {"imgL": [long, INDEX]})
        snap = {"work/approved/imgL": None}
        for f in (long, INDEX):
            snap["work/approved/imgL/" + f] = content("imgL", f)
        b.restore(snap)
        res = b.run(FreePlan("imgL", listing), True)
        ctx.count()
        real = b.real_state()
        st, loc = real["store"]["imgL"], real["loc"]["imgL"]
        outcomes.append("%s%s" % (res["outcome"], " (%s)" % res["error"].split(":")[0] if res["error"] else ""))
        rp = {"files": {"imgL": ["x * %d + .png" % (name_max - 8), INDEX]}, "listing": ["<long>" if f == long else f for f in listing],
              "observed": {"store": {("<long>" if f == long else f): v for f, v in st.items()}, "loc": loc}}
        for k, msg in res["alarms"]:
            ctx.violation(k, msg.replace(long, "<%d-character name>" % len(long)) + " (image with a %d-character file name, no injected fault)" % len(long), rp)
        if b.real_io.check_exists("imgL", INDEX) and st[long] != "complete":
            ctx.violation(K_INDEX_INCOMPLETE, "after publish() of an image with a %d-character file name (%s) the store holds imgL/index.wtml "
                          "while that file is %s" % (len(long), outcomes[-1], st[long]), rp)
        if loc != "approved" and any(v != "complete" for v in st.values()):
            ctx.violation(K_PUBLISHED, "after publish() of an image with a %d-character file name (%s) its directory is %s while the store has %s"
                          % (len(long), outcomes[-1], loc, sorted(rp["observed"]["store"].items())), rp)
    ctx.note("long_name_scenario", {"name_length": len(long), "name_max": name_max, "publish_outcomes": outcomes,
                                    "judged": "safety on the real disk only (index.wtml / published imply all files complete)"})


def dump_graph(ctx, tlc, configs, budget, atomic, name, r=None, full=True, traversal="listdir", **gkw):
    if r is None:
        r = tlc(name, configs, cfg(budget, atomic, ["TypeOK"], [], emit=True, traversal=traversal), workers=1)
    edges = r.json_lines("E")
    # every generated successor is printed once (again when TLC re-evaluates the constraint for liveness checking)
    if len(edges) < r.generated - len(configs):
        ctx.machinery("edge dump incomplete: %d edges printed, TLC generated %d states" % (len(edges), r.generated))
    graph = Graph(edges, full=full, **gkw)
    graph.edges = edges
    if len(graph.state) != r.distinct:
        ctx.machinery("edge dump incomplete: %d states in the dump, TLC found %d distinct states" % (len(graph.state), r.distinct))
    if len(graph.roots) != len(configs):
        ctx.machinery("expected %d initial states in the dump, found %d" % (len(configs), len(graph.roots)))
    return graph


def replay_one(ctx, tlc, rep, atomic):
    """--replay FILE: follow the recorded history through a freshly dumped graph, on the tree under test."""
    if rep.get("overlap"):
        return overlap_exploration(ctx, atomic, only=rep["schedule"], order=rep["order"])
    files = {i: set(fs) for i, fs in rep["files"].items()}
    if rep.get("probe"):
        pr = probe_traversal(ctx, {i: sorted(fs) for i, fs in files.items()}, rep.get("directory_order") == "reverse-sorted")
        print("undisturbed publish() of %s: %s %s; transfers %s" % (fkey(files), pr["outcome"], pr["error"] or "", pr["orders"]))
        ctx.trace_ok(1)
        return
    hist = rep["history"]
    budget = max(1, sum(1 for h in hist if h["fault"]))
    gkw = {}
    if any("directory_order" in h for h in hist):
        # a history of a publisher that descends into sub-folders: the runs that use the traversal it is observed to make now
        reverse = any(h.get("directory_order") == "reverse-sorted" for h in hist)
        pr = probe_traversal(ctx, files, reverse)
        if not pr["complete"]:
            print("the recorded history is one of a publish() that transfers the files of sub-folders; this tree's publish() does not (%s %s): "
                  "nothing to follow" % (pr["outcome"], pr["error"]))
            ctx.trace_ok(1)
            return
        gkw = dict(traversal="descend-any", orders={fkey(files): pr["orders"]}, scan_reverse=reverse)
    graph = dump_graph(ctx, tlc, [files], budget, atomic, "MCPublish_replay", **gkw)
    key = graph.roots[0]
    w = Walker(graph, key, ctx.mkdtemp("bench"), atomic)
    snap = initial_snapshot(w.files)
    plans = []
    for n, desc in enumerate(hist):
        want = json.loads(json.dumps(desc))
        match = [pl for pl in graph.segments(key) if json.loads(json.dumps(pl.describe())) == want]
        if not match:
            ctx.machinery("run #%d of the recorded history is not a run of the spec from this state" % (n + 1))
        nxt, dg = w.step(key, snap, match[0], plans)
        plans.append(match[0])
        print("run #%d %s" % (n + 1, json.dumps(want)))
        print("   real: %s" % json.dumps(w.bench.real_state(), sort_keys=True))
        print("   spec: %s" % json.dumps({"store": match[0].final["store"], "loc": match[0].final["loc"],
                                          "IndexImpliesAll": match[0].final["iia"], "PublishedImpliesAll": match[0].final["pia"]}, sort_keys=True))
        if nxt is None:
            print("   (real run left the spec; stopping)")
            break
        key, snap = match[0].end, nxt
    r = w.report()
    for d in r["drifts"]:
        ctx.drift(d)
    for k in sorted(r["findings"]):
        n, msg, rp = r["findings"][k]
        ctx.violation(k, msg, rp)
    ctx.count(r["runs"])
    ctx.trace_ok(1)


def run(ctx):
    repo.setup(ctx)
    from concurrent.futures import ThreadPoolExecutor
    ctx.rule = ("TLC dumps every transition of spec/Publish.tla (all file sets of the tier, every listing order of approved/ and of each "
                "image directory in every run, Crash/Fail before, during and after every transfer up to the fault budget, re-runs); "
                "every path of that graph is cut into runs and each run is executed by the real PipelineManager.publish() on a real "
                "LocalPipelineIo with the listing order and the fault of the behaviour, the real store and directories being compared "
                "with the spec state at every hook and the property's sentences evaluated on the real quiescent state. "
                "distinct = distinct (spec idle state, run) pairs with at least one transfer")
    A, B, C, D, E = "data.png", INDEX, "index_rel.wtml", "thumb.jpg", "0_0.png"
    # files in sub-folders of the image directory, named by their relative path (suites whose tag ends in "n")
    T, T2, P = "tiles/0_0.png", "tiles/1/0_0.png", "previews/small.jpg"
    if ctx.quick:
        suites = [("q", 2, [{"imgA": {A, B, C}}, {"imgA": {A, D}}]),
                  ("q1", 1, [{"imgA": {A, B, C, D}}, {"imgA": {A, B}, "imgB": {B, D}}]),
                  ("qn", 1, [{"imgA": {A, B, T}}, {"imgA": {D, T2}}])]
    else:
        suites = [("t4", 2, [{"imgA": {A, B, C, D}}, {"imgA": {A, C, D}}, {"imgA": {A, B, C}, "imgB": {B, D}}, {"imgA": {B}}]),
                  ("t3", 3, [{"imgA": {A, B, C}}, {"imgA": {A, D}}, {"imgA": {A, B}, "imgB": {B, D}}]),
                  ("t5", 1, [{"imgA": {A, B, C, D, E}}, {"imgA": {A, B}, "imgB": {B, D}, "imgC": {B, C}}]),
                  ("t4n", 2, [{"imgA": {A, B, C, T}}, {"imgA": {A, B, T, T2}}, {"imgA": {D, T}}, {"imgA": {B, D, T2}, "imgB": {B, D}},
                              {"imgA": {B, D, P, T}}]),
                  ("t3n", 3, [{"imgA": {A, B, T}}, {"imgA": {B, T}, "imgB": {B, D}}])]
    nested_tags = {tag for tag, _, configs in suites if not all(is_flat(c) for c in configs)}
    kind, seen = probe_store_model(ctx.mkdtemp("probe"))
    ctx.note("store_model_of_real_put_item", {"model": kind, "destination_seen_at_first_read":
                                                {k: (v.decode() if v is not None else None) for k, v in seen.items()}})
    if kind == "other":
        ctx.drift("LocalPipelineIo.put_item implements neither store model of the spec (destination at first read: %r); replaying the in-place graph" % (seen,))
    atomic = kind == "atomic"

    def tlc(name, configs, cfg_text, **kw):
        return ctx.tlc(name, extra={name + ".tla": mc_module(name, configs)}, cfg_text=cfg_text, timeout=3000, **kw)

    if ctx.replay_path:
        rep = json.load(open(ctx.replay_path))["replay"]
        return replay_one(ctx, tlc, rep, atomic)
    if "--overlap-only" in getattr(ctx, "extra_args", ()):        # development aid: ./check C18 --overlap-only
        return overlap_exploration(ctx, atomic)

    # file sets with sub-folders: which model does the publish() under test follow?  (as built: it raises at the sub-folder)
    probes = {}
    for tag, budget, configs in suites:
        if tag in nested_tags:
            for c in configs:
                probes[fkey(c)] = [probe_traversal(ctx, {i: sorted(fs) for i, fs in c.items()}, rev) for rev in (False, True)]
    descending = {k for k, prs in probes.items() if any(pr["descends"] for pr in prs)}
    ctx.note("file_sets_with_sub_folders", {
        "undisturbed_publish": {k: sorted({("%s %s" % (pr["outcome"], (pr["error"] or "").split(":")[0])).strip() for pr in prs}) for k, prs in probes.items()},
        "model": "as built publish() opens every entry of the image directory as a file and raises IsADirectoryError at a sub-folder before index.wtml is sent "
                 "(spec action RefuseSubdir, invariant NestedClosed): the safety sentences are judged for these file sets; 're-running publish completes the job' "
                 "is NOT judged for them (no run ever publishes such an image, and it blocks the images listed after it) - the pipeline's own image sources "
                 "produce flat directories",
        "file_sets_the_tree_under_test_descends_into": sorted(descending)})
    inplace_too = lambda tag: not (ctx.quick and tag in nested_tags)          # noqa: E731
    phase = {"start": time.time()}
    jobs = {}
    gsrc = {}          # suite -> theorem job whose run also dumps the graph (same store model and budget)
    for tag, budget, configs in suites:
        ja, ji = "MCPublish_%s_atomic_f%d" % (tag, budget), "MCPublish_%s_inplace_f1" % tag
        ea, ei = atomic, (not atomic and budget == 1 and inplace_too(tag))
        jobs[ja] = (configs, cfg(budget, True, Q_INV + ["QSkippedIsWhole"], PROPS, emit=ea), dict(workers=1 if ea else 4))
        if inplace_too(tag):
            jobs[ji] = (configs, cfg(1, False, Q_INV, PROPS, emit=ei), dict(workers=1 if ei else 4))
        if ea or ei:
            gsrc[tag] = ja if ea else ji
    tag0, budget0, configs0 = suites[0]
    jobs["MCPublish_%s_inplace_f2_refuted" % tag0] = (configs0, cfg(2, False, Q_INV, PROPS), dict(workers=1, expect_violation=True, count=False))
    if not ctx.quick:
        jobs["MCPublish_observer_atomic"] = (configs0, cfg(budget0, True, ["IndexImpliesAll", "PublishedImpliesAll", "SkippedIsWhole"], []), dict(workers=2))
        jobs["MCPublish_observer_inplace_refuted"] = (configs0, cfg(1, False, ["IndexImpliesAll"], []), dict(workers=1, expect_violation=True, count=False))
        jobs["MCPublish_whole_inplace_f1_refuted"] = (configs0, cfg(1, False, ["QSkippedIsWhole"], []), dict(workers=1, expect_violation=True, count=False))
        # the to-be model of a publisher that descends into sub-folders: index.wtml last among ALL files -> everything holds;
        # no assumption on the traversal -> refuted
        tagn, budgetn, configsn = [s for s in suites if s[0] in nested_tags][0]
        jobs["MCPublish_descend_index_last"] = (configsn, cfg(budgetn, True, Q_INV + ["QSkippedIsWhole"], PROPS, traversal="descend-index-last"), dict(workers=4))
        jobs["MCPublish_descend_any_refuted"] = (configsn, cfg(1, True, ["QIndexImpliesAll"], [], traversal="descend-any"),
                                                 dict(workers=1, expect_violation=True, count=False))
    osuites = overlap_suites(ctx)
    with ThreadPoolExecutor(6) as ex:
        futs = {k: ex.submit(tlc, k, v[0], v[1], **v[2]) for k, v in jobs.items()}
        ofuts = {k: ex.submit(f) for k, f in overlap_tlc_jobs(ctx, osuites).items()} if atomic else {}
        gfuts = {tag: ex.submit(dump_graph, ctx, tlc, configs, budget, atomic,
                                "MCPublish_%s_graph_%s_f%d" % (tag, "atomic" if atomic else "inplace", budget), None, 1 if ctx.quick else 3)
                 for tag, budget, configs in suites if tag not in gsrc}
        res = {k: f.result() for k, f in futs.items()}
        graphs = {k: f.result() for k, f in gfuts.items()}
    phase["tlc"] = time.time()
    for tag, budget, configs in suites:
        if tag in gsrc:
            graphs[tag] = dump_graph(ctx, tlc, configs, budget, atomic, gsrc[tag], r=res[gsrc[tag]], full=1 if ctx.quick else 3)
    r2 = res["MCPublish_%s_inplace_f2_refuted" % tag0]
    if r2.violated not in ("QIndexImpliesAll", "QRefreshSafe"):
        ctx.machinery("TLC was expected to refute QIndexImpliesAll for the in-place store with 2 faults, it reports %r" % (r2.violated,))
    th = {}
    for tag, budget, configs in suites:
        th["%s: atomic store, %d faults" % (tag, budget)] = ("all invariants, action properties and liveness hold (%d distinct states)"
                                                             % res["MCPublish_%s_atomic_f%d" % (tag, budget)].distinct)
        if inplace_too(tag):
            th["%s: in-place store, 1 fault" % tag] = "all hold (%d distinct states)" % res["MCPublish_%s_inplace_f1" % tag].distinct
    th["%s: in-place store, 2 faults" % tag0] = "%s REFUTED by TLC (counterexample of %d states)" % (r2.violated, r2.output.count("\nState "))
    ctx.note("tlc_theorems", th)
    if not ctx.quick:
        ctx.note("not_claimed_variants", {
            "observer during a run, atomic store": "IndexImpliesAll/PublishedImpliesAll/SkippedIsWhole hold in every state",
            "observer during a run, in-place store": "refuted (%s)" % res["MCPublish_observer_inplace_refuted"].violated,
            "index.wtml itself whole when refresh skips, in-place store, 1 fault": "refuted (%s)" % res["MCPublish_whole_inplace_f1_refuted"].violated,
            "a publisher that descends into sub-folders, index.wtml last among all files of the image (to-be model)":
                "all invariants, action properties and liveness hold (%d distinct states)" % res["MCPublish_descend_index_last"].distinct,
            "a publisher that descends into sub-folders, any traversal": "refuted (%s)" % res["MCPublish_descend_any_refuted"].violated,
        })
    gnote, rnote = {}, {}
    for tag, budget, configs in suites:
        graph = graphs[tag]
        gnote[tag] = {"store_model": "atomic" if atomic else "inplace", "fault_budget": budget, "states": len(graph.state),
                      "labelled_edges": graph.nedges, "configs": [{i: sorted(fs) for i, fs in c.items()} for c in configs]}
        roots = None
        if tag in nested_tags:
            # the file sets the tree under test refuses (as built) are replayed on the as-built graph; so are those for which
            # its traversal could not be observed as one clean pass (they leave the spec: drift, sentences judged on the disk)
            follow = {fkey(c) for c in configs if fkey(c) in descending and all(pr["complete"] for pr in probes[fkey(c)])}
            roots = {fkey(c) for c in configs} - follow
            for c in configs:
                if fkey(c) in descending:
                    ctx.drift("publish() transfers files of a sub-folder of the image directory (spec as built: it raises at the sub-folder); file set %s: %s"
                              % (fkey(c), "the runs of the to-be graph (Traversal = descend-any) that use its traversal are replayed" if fkey(c) in follow
                                 else "its traversal is not one pass over all files (%s), the as-built graph is replayed"
                                 % sorted({"%s %s" % (pr["outcome"], pr["error"]) for pr in probes[fkey(c)]})))
            if follow:
                dconfigs = [c for c in configs if fkey(c) in follow]
                for rev in (False, True):
                    orders = {fkey(c): probes[fkey(c)][int(rev)]["orders"] for c in dconfigs}
                    if rev:
                        dg = Graph(dg.edges, full=dg.full, orders=orders, scan_reverse=True)
                    else:
                        dg = dump_graph(ctx, tlc, dconfigs, budget, atomic, "MCPublish_%s_graph_descend_f%d" % (tag, budget), None,
                                        1 if ctx.quick else 3, traversal="descend-any", orders=orders)
                    dtag = tag + ("-descend-reverse" if rev else "-descend")
                    agg = replay_graph(ctx, dg, atomic, True, dtag)
                    rnote[dtag] = {"runs_of_real_publish": agg["runs"], "complete_paths_covered": agg["paths"], "runs_with_drift": agg["ndrift"],
                                   "transfer_orders_followed": orders}
        if roots is not None and not roots:
            continue
        agg = replay_graph(ctx, graph, atomic, True, tag, roots=roots)
        rnote[tag] = {"runs_of_real_publish": agg["runs"], "complete_paths_covered": agg["paths"],
                      "distinct_nodes (spec idle state, disk contents)": agg["nodes"], "runs_with_drift": agg["ndrift"],
                      "runs_leaving_stray_store_entries": agg["stray"],
                      "store_fault_variants_not_applicable (put_item renames nothing)": agg["na"],
                      "quiescent_states_where_refresh_skips_an_image_whose_index_itself_is_truncated (not claimed by the property)": agg["weak_whole"]}
        if agg["stray_names"]:
            rnote[tag]["stray_store_entries (not files of the image: ignored by the comparison, digits masked)"] = agg["stray_names"]
        phase["replay " + tag] = time.time()
        if tag in nested_tags:
            rnote[tag]["runs_ending_with_publish_raising_at_a_sub_folder (as the spec says; re-run completeness not judged)"] = agg["refused"]
            rnote[tag]["refused_runs_that_changed_nothing (not continued)"] = agg["repeats"]
    long_name_scenario(ctx)
    phase["long name"] = time.time()
    overlap_exploration(ctx, atomic, suites=osuites, results={k: f.result() for k, f in ofuts.items()})
    phase["overlap"] = time.time()
    import resource
    ctx.note("maxrss_mb", round(resource.getrusage(resource.RUSAGE_SELF).ru_maxrss / 1024.0))
    ks = list(phase)
    ctx.note("phase_wall_s", {ks[j]: round(phase[ks[j]] - phase[ks[j - 1]], 1) for j in range(1, len(ks))})
    ctx.note("graph", gnote)
    ctx.note("replay", rnote)
    ctx.exhaustive = True
    ctx.assume("paths that reach the same spec state with a byte-identical work dir and store share the replay of their continuation "
               "(publish() is a function of the directory contents, the listing order and the fault); every path is counted")
    ctx.assume("a crash is modelled as a BaseException raised at a put_item boundary or from the source stream (buffers are flushed by "
               "the with-statement; loss of OS buffers on power failure is outside the model)")
    ctx.assume("only the local store backend is exercised; the Azure backend is assumed to replace an item atomically")
    ctx.assume("a single publisher: no two publish() runs at the same time; image directories contain plain files and sub-folders of plain "
               "files (no links, no special files); 're-running completes the job' is judged for flat image directories only")
