"""C18 - publishing is crash-safe: index.wtml reaches the store only after all else.

Spec: spec/Publish.tla - PipelineManager.publish() (both directory listings chosen anew in every run, the
swap that moves index.wtml to the end, BeginPut / EndPut per file, Rename, Finish), Crash and Fail at every
point up to a fault budget, re-runs, and two store models (Atomic = FALSE: LocalPipelineIo.put_item as
written, open(..., 'wb') truncates first; Atomic = TRUE: temp + replace).

TLC (a) checks the property's sentences as theorems: IndexLast / RenameAfterAll / PublishedStable (action
properties), QIndexImpliesAll / QPublishedImpliesAll / QRefreshSafe / QUnfinishedIsApproved (invariants of
the quiescent states) and Completes / ReRunCompletes (liveness) for the atomic store at the full budget and
for the in-place store at budget 1, and REFUTES QIndexImpliesAll for the in-place store at budget 2;
(b) dumps the complete state graph (every transition, through an ACTION_CONSTRAINT that prints both states)
of the store model the real put_item is observed to implement.

Binding (spec -> code, complete): every path of that graph is cut into runs (idle -> ... -> idle) and every
run is executed by the real PipelineManager.publish() in a scratch work dir: os.listdir returns the listings
of the behaviour, the store is the real LocalPipelineIo behind a proxy that injects the behaviour's fault
(Crash in two realisations: publish() in a forked child that dies by os._exit(137) at the crash point - nothing of the
code under test runs afterwards, the parent examines the disk, the re-run happens in another process - and as an
exception unwinding publish(): KeyboardInterrupt delivered as a real SIGINT at every crash point, and in rotation over
the crash points SystemExit, GeneratorExit, MemoryError, an Exception subclass and a BaseException subclass, each once
or again at the next transfer if publish() carries on; OSError = failed transfer) at the entry of a put_item, after k bytes of its source
stream (so the real put_item leaves a really truncated item) or at its exit, or - action Refuse - INSIDE the real
put_item by making every open-for-writing below the item's store directory raise ENOSPC (builtins.open, io.open,
os.open), so that the clean-up path of put_item runs with no destination / temporary file created;
or - action StoreFail - by letting a low-level step of the real store-side write fail: a REAL RLIMIT_FSIZE of 0 / half /
all-but-one byte of the item while the real put_item runs (EFBIG from the kernel inside a write() for the item larger
than the stream buffer, at the flush of the buffered tail in close() for the others) or a failing os.replace/os.rename
onto the item's name; at every hook the real store
(absent / partial / complete by byte comparison) and the location of the image directory are compared with
the spec state (differences = CONFORMANCE-DRIFT).  At every quiescent point the property's sentences are
evaluated on the REAL store and directories (these are the VIOLATION monitors; TLC's evaluation of the same
formulas in the spec state is carried along), and the real `pipeline refresh` (cli.refresh_impl with a fake
image source) is run to see which images it skips.  The walk is level-synchronised over nodes
(spec idle state, byte contents of work dir + store): paths that meet in the same node share the replay of
their continuation and are counted individually.  `./check C18 --replay FILE` re-executes one recorded history.
One physical scenario outside the graph: an image with a file name of NAME_MAX-4 characters (legal, but name + any
temporary suffix is not) is published once per listing order and the safety sentences are judged on the real disk.
"""
import contextlib
import copy
import errno
import functools
import hashlib
import io
import json
import os
import pickle
import re
import shutil
import signal
import threading
import time
import types
import zlib

from lib import repo, tla

INDEX = "index.wtml"
ACTS = ["Start", "NextImage", "BeginPut", "EndPut", "Rename", "Finish", "Crash", "Fail", "Refuse", "StoreFail"]
STORE_CFG = "toasty-pipeline-config.yaml"
FAKE_SOURCE = "_c18_fake"

K_INDEX_EARLY = "C18:publish:index-transferred-before-others"
K_CLOBBER = "C18:publish:local-store:index-with-clobbered-file"
K_INDEX_INCOMPLETE = "C18:publish:quiescent:index-with-missing-file"
K_PUBLISHED = "C18:publish:quiescent:published-with-incomplete-file"
K_REFRESH = "C18:refresh:skips-incomplete-image"
K_RERUN = "C18:publish:rerun-does-not-complete"
K_INDEX_TRUNC = "C18:refresh:skips-image-with-incomplete-index"

# realisations of the spec action StoreFail: a real RLIMIT_FSIZE of 0 / half / all-but-one byte of the item while the real
# put_item runs (the kernel refuses the write with EFBIG: at a write() inside the copy for an item larger than the
# stream buffer, at the flush of the buffered tail in close() otherwise), or the rename onto the item's name failing
# realisations of the spec action Crash: "kill" = publish() runs in a forked child which dies by os._exit(137) at the crash
# point (no except / finally / with of the code under test runs, userspace buffers are lost; the parent examines the disk
# and the re-run happens in another process); the others = an exception of that class arrives at the crash point and unwinds
# publish() - KeyboardInterrupt is delivered as a real SIGINT (signal.raise_signal) - once, or ("*2") again at the next
# transfer should publish() carry on.  Whatever publish() does with it, the sentences are judged on the disk afterwards.
CRASH_CLASSES = ["KeyboardInterrupt", "SystemExit", "GeneratorExit", "MemoryError", "Exception", "BaseException"]
CRASH_ALWAYS = ["kill", "KeyboardInterrupt"]
CRASH_ROTATING = [c + m for c in CRASH_CLASSES for m in ("", "*2") if c + m not in CRASH_ALWAYS]
NAMES = {"data.png", INDEX, "index_rel.wtml", "thumb.jpg", "0_0.png"}
# the flavours of OSError a failed transfer is realised with (Fail, Refuse, the failing rename of StoreFail), and "janitor":
# something really deletes the in-flight temporary file of the store, so that the real put_item fails by itself (ENOENT)
FAIL_CLASSES = ["OSError", "FileNotFoundError", "PermissionError", "IsADirectoryError", "ENOSPC", "EIO", "TimeoutError", "ConnectionError"]
STORE_VARIANTS = ["fsize:0", "fsize:half", "fsize:tail", "replace", "janitor"]
STORE_VARIANTS_SMALL = ["fsize:tail", "replace", "janitor"]     # an item that fits into the stream buffer: every write failure surfaces at close()
BIG = "data.png"        # this file is larger than two stream buffers, the others fit into one


# ------------------------------------------------------------------------------------------------
# TLC side
# ------------------------------------------------------------------------------------------------

def mc_module(name, configs):
    """spec/MCPublish.tla with the module name and the file sets replaced (St / Acts / EmitEdge are defined there)."""
    from lib.core import SPEC_DIR
    text = open(os.path.join(SPEC_DIR, "MCPublish.tla")).read()
    text, n1 = re.subn(r"MODULE MCPublish\b", "MODULE " + name, text, count=1)
    lit = "{" + ",\n               ".join(tla.lit(c) for c in configs) + "}"
    text, n2 = re.subn(r"MCConfigs ==.*?(?=\nASSUME)", lambda m: "MCConfigs == " + lit, text, count=1, flags=re.S)
    if n1 != 1 or n2 != 1:
        raise RuntimeError("spec/MCPublish.tla does not have the expected shape")
    return text


def cfg(max_faults, atomic, invariants=(), properties=(), emit=False):
    lines = ["SPECIFICATION Spec", "CONSTANTS", " Configs <- MCConfigs", ' Index = "%s"' % INDEX,
             " MaxFaults = %d" % max_faults, " Atomic = %s" % ("TRUE" if atomic else "FALSE")]
    lines += ["INVARIANT " + i for i in invariants]
    lines += ["PROPERTY " + p for p in properties]
    if emit:
        lines.append("ACTION_CONSTRAINT EmitEdge")
    lines.append("CHECK_DEADLOCK FALSE")
    return "\n".join(lines) + "\n"


Q_INV = ["TypeOK", "QIndexImpliesAll", "QPublishedImpliesAll", "QRefreshSafe", "QUnfinishedIsApproved"]
PROPS = ["IndexLast", "RenameAfterAll", "PublishedStable", "Completes", "ReRunCompletes"]


def skey(s):
    return json.dumps(s, sort_keys=True, separators=(",", ":"))


class Graph(object):
    """The state graph TLC printed: nodes = spec states, edges labelled with the set of actions that relate them."""

    def __init__(self, edges, full=True):
        # full = True: every Crash variant at every crash point (used by --replay); otherwise the two standing ones plus
        # `full` (a number) variants in rotation over the crash points
        self.full = full
        self.state = {}
        self.adj = {}
        indeg = set()
        for e in edges:
            a, b = skey(e["s"]), skey(e["t"])
            self.state.setdefault(a, e["s"])
            self.state.setdefault(b, e["t"])
            lst = self.adj.setdefault(a, [])
            item = (tuple(sorted(e["acts"])), b)
            if item not in lst:
                lst.append(item)
            indeg.add(b)
        for k in self.adj:
            self.adj[k].sort()
        self.roots = sorted(k for k in self.state if k not in indeg)
        self._segs = {}
        self.nedges = sum(len(v) for v in self.adj.values())

    def segments(self, key):
        """All runs from the idle state `key`: lists of (action, state key) ending in the next idle state."""
        if key in self._segs:
            return self._segs[key]
        out = []

        def dfs(k, acc):
            for acts, t in self.adj.get(k, ()):
                for a in acts:
                    acc.append((a, t))
                    if self.state[t]["pc"] == "idle":
                        sk = self.state[k]
                        big = a == "StoreFail" and sk["order"][sk["k"] - 1] == BIG
                        for v in (self.store_variants(k, big) if a == "StoreFail" else
                                  self.crash_variants(k) if a == "Crash" else self.fail_classes(k, a)):
                            out.append((list(acc), v))
                    else:
                        dfs(t, acc)
                    acc.pop()
        dfs(key, [])
        self._segs[key] = [Plan(self, key, seg, v) for seg, v in out]
        return self._segs[key]


def _crash_variants(self, k):
    # "kill-cli": like "kill", but the child runs the command-line entry point (toasty pipeline publish --workdir W) and
    # the re-run that is judged afterwards goes through the command line, too
    if self.full is True:
        return CRASH_ALWAYS + ["kill-cli"] + CRASH_ROTATING
    sk = self.state[k]
    r = zlib.crc32(json.dumps([sk["listing"], sk["pc"], sk["k"], sk["faults"], sk["cur"]]).encode())
    return (CRASH_ALWAYS + (["kill-cli"] if r % 3 == 0 else []) +
            [CRASH_ROTATING[(r + j) % len(CRASH_ROTATING)] for j in range(int(self.full))])


def _rot(self, k, salt):
    sk = self.state[k]
    return zlib.crc32(json.dumps([salt, sk["listing"], sk["pc"], sk["k"], sk["faults"], sk["cur"]]).encode())


def _fail_classes(self, k, act):
    """The OSError flavour a Fail / Refuse edge is realised with: one per edge, in rotation over the fault points."""
    if self.full is True:
        return list(FAIL_CLASSES)
    return [FAIL_CLASSES[_rot(self, k, act) % len(FAIL_CLASSES)]]


def _store_variants(self, k, big):
    out = []
    for v in (STORE_VARIANTS if big else STORE_VARIANTS_SMALL):
        if v == "replace":
            out += ["replace:" + c for c in _fail_classes(self, k, "replace")]
        else:
            out.append(v)
    return out


Graph.crash_variants = _crash_variants
Graph.fail_classes = _fail_classes
Graph.store_variants = _store_variants


class Plan(object):
    """One run of publish() as the spec describes it, arranged by the hooks at which the real run is observed."""

    def __init__(self, g, key0, seg, variant=None):
        self.key0 = key0
        self.end = seg[-1][1]
        self.queue = None
        self.images = []     # img, listing, order, pre (state at the outer loop head)
        self.puts = []       # img, file, pre, mid, post
        self.fault = None
        cur = g.state[key0]
        self.start = cur
        for act, tk in seg:
            st = g.state[tk]
            if act == "Start":
                self.queue = list(st["queue"])
            elif act == "NextImage":
                self.images.append({"img": st["cur"], "listing": list(st["listing"]), "order": list(st["order"]), "pre": cur})
            elif act == "BeginPut":
                self.puts.append({"img": cur["cur"], "file": cur["order"][cur["k"] - 1], "pre": cur, "mid": st, "post": None})
            elif act == "EndPut":
                self.puts[-1]["post"] = st
            elif act in ("Crash", "Fail", "Refuse", "StoreFail"):
                if act == "StoreFail":
                    where, ordinal = "store", len(self.puts) - 1
                elif act == "Refuse":
                    where, ordinal = "open", len(self.puts)
                    self.puts.append({"img": cur["cur"], "file": cur["order"][cur["k"] - 1], "pre": cur, "mid": None, "post": None})
                elif cur["pc"] == "writing":
                    where, ordinal = "during", len(self.puts) - 1
                elif cur["k"] <= len(cur["order"]):
                    where, ordinal = "entry", len(self.puts)
                    self.puts.append({"img": cur["cur"], "file": cur["order"][cur["k"] - 1], "pre": cur, "mid": None, "post": None})
                else:
                    where, ordinal = "exit", len(self.puts) - 1
                self.fault = {"kind": act, "where": where, "ordinal": ordinal,
                              "image": self.puts[ordinal]["img"], "file": self.puts[ordinal]["file"]}
                if variant:
                    self.fault["variant"] = variant
            cur = st
        self.final = cur
        self.nsteps = len(seg)

    def describe(self):
        return {"approved_listing": self.queue, "listings": {i["img"]: i["listing"] for i in self.images},
                "fault": self.fault}


# ------------------------------------------------------------------------------------------------
# real-code side
# ------------------------------------------------------------------------------------------------

class SimulatedCrash(BaseException):
    pass


def make_os_error(name):
    if name == "OSError":
        return TransferFailed("transfer failed")                     # a plain OSError without errno
    if name in ("ENOSPC", "EIO"):
        code = getattr(errno, name)
        return OSError(code, os.strerror(code))
    cls, code = {"FileNotFoundError": (FileNotFoundError, errno.ENOENT), "PermissionError": (PermissionError, errno.EACCES),
                 "IsADirectoryError": (IsADirectoryError, errno.EISDIR), "TimeoutError": (TimeoutError, errno.ETIMEDOUT),
                 "ConnectionError": (ConnectionResetError, errno.ECONNRESET)}[name]
    return cls(code, os.strerror(code))


class InterruptedTransfer(Exception):
    pass


CRASH_CLASS = {"KeyboardInterrupt": KeyboardInterrupt, "SystemExit": SystemExit, "GeneratorExit": GeneratorExit,
               "MemoryError": MemoryError, "Exception": InterruptedTransfer, "BaseException": SimulatedCrash}


class TransferFailed(OSError):
    pass


@functools.lru_cache(maxsize=None)
def content(img, fn):
    head = ("%s/%s|" % (img, fn)).encode()
    if fn == BIG:
        return head + (bytes(range(256)) * 80)[:20000]
    return head + bytes(range(65, 65 + 20))


@contextlib.contextmanager
def fsize_limit(nbytes):
    """A real file-size limit for this process: the kernel fails any write beyond `nbytes` with EFBIG."""
    import resource
    import signal
    old = signal.signal(signal.SIGXFSZ, signal.SIG_IGN)
    soft, hard = resource.getrlimit(resource.RLIMIT_FSIZE)
    resource.setrlimit(resource.RLIMIT_FSIZE, (nbytes, hard))
    try:
        yield
    finally:
        resource.setrlimit(resource.RLIMIT_FSIZE, (soft, hard))
        signal.signal(signal.SIGXFSZ, old)


@contextlib.contextmanager
def refuse_rename(prefix, exc, on_hit):
    """While active, renaming anything onto a path below `prefix` raises `exc` (os.replace, os.rename)."""
    prefix = os.path.abspath(prefix) + os.sep
    real_replace, real_rename = os.replace, os.rename

    def wrap(real):
        def f(src, dst, *a, **kw):
            try:
                hit = os.path.abspath(os.fsdecode(os.fspath(dst))).startswith(prefix)
            except TypeError:
                hit = False
            if hit:
                on_hit()
                raise exc
            return real(src, dst, *a, **kw)
        return f
    os.replace, os.rename = wrap(real_replace), wrap(real_rename)
    try:
        yield
    finally:
        os.replace, os.rename = real_replace, real_rename


@contextlib.contextmanager
def refuse_creation(prefix, exc, on_hit):
    """While active, opening any path below `prefix` for writing / creation raises `exc` (builtins.open, io.open, os.open)."""
    import builtins
    prefix = os.path.abspath(prefix) + os.sep
    real_open, real_io_open, real_os_open = builtins.open, io.open, os.open

    def below(f):
        try:
            return os.path.abspath(os.fsdecode(os.fspath(f))).startswith(prefix)
        except TypeError:
            return False            # an integer file descriptor

    def open_(file, mode="r", *a, **kw):
        if set(str(mode)) & set("wax+") and below(file):
            on_hit()
            raise exc
        return real_open(file, mode, *a, **kw)

    def os_open(path, flags, *a, **kw):
        if flags & (os.O_CREAT | os.O_WRONLY | os.O_RDWR) and below(path):
            on_hit()
            raise exc
        return real_os_open(path, flags, *a, **kw)
    builtins.open, io.open, os.open = open_, open_, os_open
    try:
        yield
    finally:
        builtins.open, io.open, os.open = real_open, real_io_open, real_os_open


class FaultStream(object):
    CHUNK = 5

    def __init__(self, src, on_first_read, fault_after, exc, chunk=None):
        self._src, self._cb, self._after, self._exc = src, on_first_read, fault_after, exc
        if chunk:
            self.CHUNK = chunk
        self.sent = 0
        self.started = False

    def read(self, n=-1):
        if not self.started:
            self.started = True
            self._cb()
        limit = self.CHUNK
        if self._after is not None:
            if self.sent >= self._after:
                if callable(self._exc):
                    self._exc()
                raise self._exc
            limit = min(limit, self._after - self.sent)
        data = self._src.read(limit)
        self.sent += len(data)
        return data

    def __getattr__(self, name):
        return getattr(self._src, name)


class Bench(object):
    """A scratch work dir + store on which single runs of the real publish() are executed."""

    def __init__(self, root, files):
        repo.setup()
        from toasty import pipeline
        from toasty.pipeline import cli as pcli
        self.pipeline, self.pcli = pipeline, pcli
        self.files = files
        self.work = os.path.join(root, "work")
        self.store = os.path.join(root, "store")
        os.makedirs(self.work, exist_ok=True)
        os.makedirs(self.store, exist_ok=True)
        with open(os.path.join(self.work, "toasty-store-config.yaml"), "w") as f:
            f.write("_type: local\npath: %s\n" % self.store)
        with open(os.path.join(self.store, STORE_CFG), "w") as f:
            f.write("source_type: %s\n%s:\n  ids: [%s]\n" % (FAKE_SOURCE, FAKE_SOURCE, ", ".join(sorted(files))))
        self._listdir = os.listdir
        self._refresh_memo = {}
        self.current = None
        self.park = os.path.join(root, "park")
        os.makedirs(self.park, exist_ok=True)
        self.parked, self.nparked = [], 0
        self.unstable_walks = 0
        self.watch_threads = False      # set once the code under test was seen to use threads
        self.template = pipeline.PipelineManager(self.work)      # __init__ only reads the store configuration
        self.real_io = pipeline.PipelineIo.load_from_config(os.path.join(self.work, "toasty-store-config.yaml"))
        class Cand(pipeline.CandidateInput):
            def __init__(self, i):
                self.i = i

            def get_unique_id(self):
                return self.i

            def save(self, stream):
                stream.write(b"{}")

        class Source(pipeline.ImageSource):
            @classmethod
            def get_config_key(cls):
                return FAKE_SOURCE

            @classmethod
            def deserialize(cls, data):
                inst = cls()
                inst.ids = list(data["ids"])
                return inst

            def query_candidates(self):
                for i in self.ids:
                    yield Cand(i)

            def fetch_candidate(self, unique_id, cand_data_stream, cachedir):
                pass

            def process(self, unique_id, cand_data_stream, cachedir, builder):
                pass

        pipeline.IMAGE_SOURCE_CLASS_LOADERS[FAKE_SOURCE] = lambda: Source

    # ---- disk state --------------------------------------------------------------------------
    def restore(self, snap):
        """Bring the work dir and the store to `snap`, touching only what differs from what is on disk now."""
        try:
            self._restore(snap)
        except OSError:
            # the disk is not what the last snapshot said (something the code under test left running wrote to it
            # later): start from empty directories
            self.current = None
            self._restore(snap)

    def _restore(self, snap):
        root = os.path.dirname(self.work)
        cur = self.current
        if cur is None:
            for d in ("approved", "published"):
                shutil.rmtree(os.path.join(self.work, d), ignore_errors=True)
            for e in self._listdir(self.store):
                if e != STORE_CFG:
                    shutil.rmtree(os.path.join(self.store, e), ignore_errors=True)
            for fn in self._listdir(self.work):
                p = os.path.join(self.work, fn)
                if fn not in ("toasty-store-config.yaml", STORE_CFG) and os.path.isfile(p):
                    os.remove(p)
            os.makedirs(os.path.join(self.work, "approved"), exist_ok=True)
            cur = {}
        for rel in sorted(cur, reverse=True):
            if rel not in snap or (snap[rel] is None) != (cur[rel] is None):
                p = os.path.join(root, rel)
                if cur[rel] is None:
                    # rmdir costs milliseconds on the scratch file system, rename microseconds: park the empty directory
                    self.nparked += 1
                    q = os.path.join(self.park, "d%d" % self.nparked)
                    os.rename(p, q)
                    self.parked.append(q)
                else:
                    os.remove(p)
        for rel in sorted(snap):
            if rel in cur and cur[rel] == snap[rel]:
                continue
            p = os.path.join(root, rel)
            if snap[rel] is None:
                if not os.path.isdir(p):
                    q = self.parked.pop() if self.parked else None
                    if q is not None and not self._listdir(q):
                        os.rename(q, p)
                    else:
                        os.makedirs(p)
            else:
                with open(p, "wb") as f:
                    f.write(snap[rel])
        self.current = dict(snap)

    def snapshot(self):
        """The byte contents of work dir and store.  The code under test may have left threads running that still
        create / rename / remove files: entries that vanish during the walk are treated as absent, and the walk is
        repeated until two consecutive walks agree (bounded)."""
        prev = self._walk()
        if self.watch_threads:
            for attempt in range(200):
                time.sleep(0.002 if attempt < 20 else 0.02)
                snap = self._walk()
                if snap == prev:
                    break
                prev = snap
                self.unstable_walks += 1
        self.current = dict(prev)
        return prev

    def _walk(self):
        snap = {}
        root = os.path.dirname(self.work)
        for top in ("work/approved", "work/published", "store"):
            base = os.path.join(root, top)
            if not os.path.isdir(base):
                continue
            for dp, dns, fns in os.walk(base):
                rel = os.path.relpath(dp, root)
                if dp != base:
                    snap[rel] = None
                for fn in fns:
                    if top == "store" and dp == base and fn == STORE_CFG:
                        continue
                    try:
                        with open(os.path.join(dp, fn), "rb") as f:
                            snap[rel + "/" + fn] = f.read()
                    except OSError:
                        pass                # vanished between the listing and the open
        try:
            tops = self._listdir(self.work)
        except OSError:
            tops = []
        for fn in tops:                     # anything else the code under test keeps at the top of the work dir (lock files ...)
            p = os.path.join(self.work, fn)
            if fn not in ("toasty-store-config.yaml", STORE_CFG) and os.path.isfile(p):
                try:
                    with open(p, "rb") as f:
                        snap["work/" + fn] = f.read()
                except OSError:
                    pass
        return snap

    def real_state(self):
        store, loc = {}, {}
        for i, fs in self.files.items():
            store[i] = {}
            for f in fs:
                p = os.path.join(self.store, i, f)
                try:
                    with open(p, "rb") as fh:
                        store[i][f] = "complete" if fh.read() == content(i, f) else "partial"
                except FileNotFoundError:
                    store[i][f] = "absent"
                except OSError:
                    store[i][f] = "partial"          # e.g. a directory under the item's name
            a = os.path.isdir(os.path.join(self.work, "approved", i))
            b = os.path.isdir(os.path.join(self.work, "published", i))
            loc[i] = "approved" if (a and not b) else "published" if (b and not a) else "both" if a else "lost"
        return {"store": store, "loc": loc}

    def stray(self, snap):
        known = set()
        for i, fs in self.files.items():
            known.add("store/" + i)
            for f in fs:
                known.add("store/%s/%s" % (i, f))
        return sorted(k for k in snap if k.startswith("store/") and k not in known)

    # ---- refresh ------------------------------------------------------------------------------
    def refresh_skips(self, digest):
        """Run the real `pipeline refresh` on the current store: which image ids does it skip as done?"""
        if digest in self._refresh_memo:
            return self._refresh_memo[digest]
        for d in ("candidates", "rejects"):
            shutil.rmtree(os.path.join(self.work, d), ignore_errors=True)
        try:
            os.remove(os.path.join(self.work, STORE_CFG))
        except OSError:
            pass
        with contextlib.redirect_stdout(io.StringIO()):
            self.pcli.refresh_impl(types.SimpleNamespace(workdir=self.work))
        saved = set(self._listdir(os.path.join(self.work, "candidates")))
        res = sorted(i for i in self.files if i not in saved)
        self._refresh_memo[digest] = res
        return res

    # ---- one run --------------------------------------------------------------------------------
    def run(self, plan, model_atomic):
        """Execute the real publish() once according to `plan`; returns a dict of observations."""
        if not (plan.fault and plan.fault["kind"] == "Crash" and plan.fault.get("variant") in ("kill", "kill-cli")):
            return self._run(plan, model_atomic, None)
        # a hard crash: publish() runs in a forked child that dies at the crash point; its observations come through a pipe
        r, w = os.pipe()
        pid = os.fork()
        if pid == 0:
            code = 3
            try:
                os.close(r)

                def send(obj):
                    with os.fdopen(w, "wb") as f:
                        pickle.dump(obj, f)
                try:
                    res = self._run(plan, model_atomic, send)      # does not return if the crash point is reached
                    send(res)
                    code = 0
                except BaseException:  # noqa
                    import traceback
                    send({"machinery": traceback.format_exc()})
            finally:
                os._exit(code)
        os.close(w)
        with os.fdopen(r, "rb") as f:
            data = f.read()
        _, status = os.waitpid(pid, 0)
        if not data:
            raise RuntimeError("the forked publish() died without a report (wait status %d)" % status)
        res = pickle.loads(data)
        if "machinery" in res:
            raise RuntimeError("harness failure in the forked publish():\n" + res["machinery"])
        if res.get("threaded"):
            self.watch_threads = True
        return res

    def _run(self, plan, model_atomic, send):
        bench = self
        drifts = []
        alarms = []        # (key, message)
        st = {"sync": True, "nput": 0, "img_i": 0, "injected": False, "calls": [], "listed_top": False}
        lock = threading.RLock()        # the code under test may call put_item from several threads
        threads_before = set(threading.enumerate())
        approved = os.path.join(self.work, "approved")

        def drift(msg):
            if len(drifts) < 4:
                drifts.append(msg)

        def compare(spec, what):
            if not st["sync"] or spec is None:
                return
            real = bench.real_state()
            if real["store"] != spec["store"] or real["loc"] != spec["loc"]:
                st["sync"] = False
                drift("%s: real store/loc %s, spec %s" % (what, json.dumps(real, sort_keys=True),
                                                           json.dumps({"store": spec["store"], "loc": spec["loc"]}, sort_keys=True)))

        def listdir(path="."):
            try:
                p = os.path.normpath(os.fspath(path))
            except TypeError:
                return bench._listdir(path)
            if p == approved:
                real = bench._listdir(path)
                if st["listed_top"] or plan.queue is None or sorted(real) != sorted(plan.queue):
                    st["sync"] = False
                    drift("listing of approved/: real %s, spec run lists %s" % (sorted(real), plan.queue))
                    return real
                st["listed_top"] = True
                return list(plan.queue)
            if os.path.dirname(p) == approved:
                img = os.path.basename(p)
                real = bench._listdir(path)
                j = st["img_i"]
                if st["sync"] and j < len(plan.images) and plan.images[j]["img"] == img and sorted(real) == sorted(plan.images[j]["listing"]):
                    st["img_i"] = j + 1
                    compare(plan.images[j]["pre"], "before listing %s" % img)
                    return list(plan.images[j]["listing"])
                if st["sync"]:
                    st["sync"] = False
                    drift("unexpected listing of approved/%s (spec run: %s)" % (img, [i["img"] for i in plan.images]))
                return real
            return bench._listdir(path)

        class Proxy(object):
            def __init__(self, real):
                self._real = real

            def __getattr__(self, name):
                return getattr(self._real, name)

            def put_item(self, *path, source=None):
                with lock:
                    n = st["nput"]
                    st["nput"] = n + 1
                    st["calls"].append(list(path))
                    if threading.current_thread() is not threading.main_thread() and not st.get("threaded"):
                        st["threaded"] = True
                        st["sync"] = False
                        drift("put_item is called from a thread other than the one that runs publish(): the step order of the spec "
                              "does not apply; only the sentences on the disk are judged")
                exp = plan.puts[n] if n < len(plan.puts) else None
                if st["sync"] and (exp is None or [exp["img"], exp["file"]] != list(path)):
                    st["sync"] = False
                    drift("put #%d is %s, spec transfers %s" % (n + 1, list(path), exp and [exp["img"], exp["file"]]))
                # property monitor on the REAL store: index.wtml strictly after every other file of the image
                if len(path) == 2 and path[1] == INDEX and path[0] in bench.files:
                    real = bench.real_state()["store"][path[0]]
                    bad = sorted(f for f, v in real.items() if f != INDEX and v != "complete")
                    if bad:
                        alarms.append((K_INDEX_EARLY, "put_item(%r, 'index.wtml') began while %s of that image %s not completely in the store"
                                       % (path[0], bad, "is" if len(bad) == 1 else "are")))
                if st.get("again"):
                    st["again"] = False         # publish() carried on after the first one: it arrives once more
                    throw()
                if exp is not None:
                    compare(exp["pre"], "at entry of put #%d %s" % (n + 1, list(path)))
                flt = plan.fault if (plan.fault and plan.fault["ordinal"] == n) else None
                exc = None
                if flt:
                    exc = (die if (flt["kind"] == "Crash" and send) else throw if flt["kind"] == "Crash" else
                           make_os_error((flt.get("variant") or "replace:EIO").split(":")[-1]) if flt["kind"] == "StoreFail"
                           and (flt.get("variant") or "").startswith("replace") else
                           TransferFailed(errno.EIO, "Input/output error") if flt["kind"] == "StoreFail" else
                           make_os_error(flt.get("variant") or "OSError"))
                    if isinstance(exc, OSError):
                        st["fail_exc"] = exc
                size = len(content(*path)) if len(path) == 2 else 0
                chunk = 4099 if size > 1000 else FaultStream.CHUNK
                if flt and flt["where"] == "entry":
                    st["injected"] = True
                    if callable(exc):
                        exc()
                    raise exc
                after = None
                if flt and flt["where"] == "during":
                    after = 0 if (n + plan.start["faults"]) % 2 == 0 else 2 * chunk

                def first_read():
                    if flt and flt.get("variant") == "janitor":
                        # something cleans the store directory while the transfer is in flight: every entry that is not an
                        # item (the temporary file of this put_item) is really deleted
                        d = os.path.join(bench.store, path[0])
                        for e in (bench._listdir(d) if os.path.isdir(d) else []):
                            if e not in bench.files.get(path[0], ()):
                                try:
                                    os.remove(os.path.join(d, e))
                                    st["janitor"] = True
                                except OSError:
                                    pass
                    if after is not None:
                        st["injected"] = True
                    if exp is not None and exp["mid"] is not None:
                        compare(exp["mid"], "while put #%d %s is writing (%s store model)"
                                % (n + 1, list(path), "atomic" if model_atomic else "in-place"))
                stream = FaultStream(source, first_read, after, exc, chunk)
                if flt and flt["where"] == "store":
                    # a low-level step of the store-side write fails inside the real put_item
                    var = flt["variant"]
                    if var == "janitor":
                        try:
                            self._real.put_item(*path, source=stream)
                        except FileNotFoundError as e:
                            if not st.get("janitor"):
                                raise
                            st["injected"] = True
                            st["fail_exc"] = e
                            raise
                        if not st.get("janitor"):
                            st["na"] = True         # this put_item keeps nothing but the item itself in the store
                    elif var.startswith("replace"):
                        with refuse_rename(os.path.join(bench.store, path[0]), exc, lambda: st.__setitem__("injected", True)):
                            self._real.put_item(*path, source=stream)
                        if not st["injected"]:
                            st["na"] = True         # this put_item does not rename anything into place
                    else:
                        limit = {"fsize:0": 0, "fsize:half": size // 2, "fsize:tail": size - 1}[var]
                        try:
                            with fsize_limit(limit):
                                self._real.put_item(*path, source=stream)
                        except OSError as e:
                            if e.errno != errno.EFBIG:
                                raise
                            st["injected"] = True
                            raise TransferFailed(e.errno, "%s (file-size limit %d of %d bytes)" % (e.strerror, limit, size)) from e
                elif flt and flt["where"] == "open":
                    # the store refuses to create the destination: every open-for-writing of a path below the item's
                    # store directory raises, INSIDE the real put_item (whatever file name it writes to first)
                    with refuse_creation(os.path.join(bench.store, path[0]), exc, lambda: st.__setitem__("injected", True)):
                        self._real.put_item(*path, source=stream)
                else:
                    self._real.put_item(*path, source=stream)
                if not stream.started and st["sync"]:
                    drift("put_item did not read its source through read()")
                nxt = plan.puts[n + 1] if n + 1 < len(plan.puts) else None
                if exp is not None and exp["post"] is not None and not (nxt and nxt["img"] == exp["img"]):
                    compare(exp["post"], "after put #%d %s" % (n + 1, list(path)))
                if flt and flt["where"] == "exit":
                    st["injected"] = True
                    if callable(exc):
                        exc()
                    raise exc

        def result(outcome, err):
            return {"outcome": outcome, "error": err, "sync": st["sync"], "drifts": drifts, "alarms": alarms, "calls": st["calls"],
                    "na": bool(st.get("na")), "threaded": bool(st.get("threaded"))}

        def die():
            st["injected"] = True
            send(result("crashed", None))
            os._exit(137)

        variant = (plan.fault or {}).get("variant") or ""
        crash_cls = CRASH_CLASS.get(variant.split("*")[0]) if (plan.fault and plan.fault["kind"] == "Crash") else None

        def throw():
            if not st["injected"] and variant.endswith("*2"):
                st["again"] = True
            st["injected"] = True
            if crash_cls is KeyboardInterrupt:
                signal.raise_signal(signal.SIGINT)      # a real ^C: the interpreter raises KeyboardInterrupt here
                for _ in range(100):
                    pass
            raise crash_cls("injected at the crash point")

        mgr = copy.copy(self.template)          # a re-run is a new process: a fresh manager object
        mgr._pipeio = Proxy(mgr._pipeio)
        outcome, err = "returned", None
        os.listdir = listdir
        old_int = signal.signal(signal.SIGINT, signal.default_int_handler) if crash_cls is KeyboardInterrupt else None
        try:
            with contextlib.redirect_stdout(io.StringIO()), contextlib.redirect_stderr(io.StringIO()):
                if variant == "kill-cli" or getattr(plan, "via_cli", False):
                    # the operator's route: `toasty pipeline publish --workdir W`; the manager it builds gets the store proxy
                    from toasty import cli as tcli
                    loaders = self.pipeline.PIPELINE_IO_LOADERS
                    orig_loader = loaders["local"]
                    loaders["local"] = lambda config: Proxy(orig_loader(config))
                    try:
                        tcli.entrypoint(["pipeline", "publish", "--workdir", self.work])
                    except SystemExit as e:
                        if e.code not in (0, None):
                            raise RuntimeError("toasty pipeline publish exited with status %r" % (e.code,))
                    finally:
                        loaders["local"] = orig_loader
                else:
                    mgr.publish()
        except BaseException as e:  # noqa
            if isinstance(e, TransferFailed) or (e is st.get("fail_exc") and st["injected"]):
                outcome = "failed"
            elif crash_cls is not None and st["injected"] and type(e) is crash_cls:
                outcome = "crashed"
            elif isinstance(e, Exception):      # the real code gave up by itself
                outcome, err = "raised", "%s: %s" % (type(e).__name__, e)
            else:
                raise
        finally:
            os.listdir = self._listdir
            if old_int is not None:
                signal.signal(signal.SIGINT, old_int)
        # threads the code under test started and left running still belong to this run: give them a bounded time to
        # finish (what they write late is judged with the rest; the snapshot then waits for the disk to stand still)
        late = [t for t in threading.enumerate() if t not in threads_before and t is not threading.current_thread()]
        if late or st.get("threaded"):
            bench.watch_threads = True
            deadline = time.time() + 1.0
            for t in late:
                t.join(max(0.0, min(0.05, deadline - time.time())))
        if st["sync"] and not st["listed_top"]:
            st["sync"] = False
            drift("publish() did not list approved/ through os.listdir: the listing order of the behaviour could not be imposed")
        if st.get("na"):
            st["sync"] = False
        elif plan.fault and not st["injected"]:
            st["sync"] = False
            drift("the planned fault (%s) was never reached" % (plan.fault,))
        if st["sync"] and not plan.fault and st["nput"] != len(plan.puts):
            st["sync"] = False
            drift("%d transfers, spec %d" % (st["nput"], len(plan.puts)))
        return result(outcome, err)


def probe_store_model(root):
    """Which store model does the real LocalPipelineIo.put_item implement?  Looks at the destination item at the
    moment put_item first reads its source, for an item that already exists and for a new one."""
    repo.setup()
    from toasty.pipeline.local_io import LocalPipelineIo
    pio = LocalPipelineIo(root)
    pio.put_item("p", "x", source=io.BytesIO(b"old-content"))
    seen = {}

    def look(tag, name):
        p = os.path.join(root, "p", name)
        seen[tag] = open(p, "rb").read() if os.path.exists(p) else None
    pio.put_item("p", "x", source=FaultStream(io.BytesIO(b"new-content-which-is-longer"), lambda: look("old", "x"), None, None))
    pio.put_item("p", "y", source=FaultStream(io.BytesIO(b"brand-new"), lambda: look("new", "y"), None, None))
    if seen.get("old") == b"old-content" and seen.get("new") is None:
        return "atomic", seen
    if seen.get("old") == b"" and seen.get("new") == b"":
        return "inplace", seen
    return "other", seen


# ------------------------------------------------------------------------------------------------
# the walk over every path of the graph
# ------------------------------------------------------------------------------------------------

def digest(snap):
    """Identity of the disk contents.  Names of stray store entries (temporary files a killed process left behind) carry a
    process id: digit runs in names that are not item names are masked, so that equal contents are recognised as equal."""
    items = []
    for k in snap:
        parts = k.split("/")
        if parts[0] == "store" and len(parts) == 3 and parts[2] not in NAMES:
            parts[2] = re.sub(r"\d+", "#", parts[2])
        items.append(("/".join(parts), b"\0" if snap[k] is None else b"\1" + snap[k]))
    h = hashlib.sha1()
    for k, v in sorted(items):
        h.update(k.encode())
        h.update(v)
        h.update(b"\n")
    return h.hexdigest()


class Walker(object):
    def __init__(self, graph, root_key, scratch, atomic):
        self.g = graph
        self.files = {i: list(fs) for i, fs in graph.state[root_key]["files"].items()}
        self.bench = Bench(scratch, self.files)
        self.atomic = atomic
        self.findings = {}      # key -> [count, message, replay]
        self.drifts = []
        self.ndrift = 0
        self.runs = 0
        self.distinct = set()
        self.stray = 0
        self.weak_whole = 0     # quiescent states where refresh skips an image whose index.wtml itself is truncated
        self.samples = []
        self._snap_id = None

    def finding(self, key, msg, hist, real):
        f = self.findings.get(key)
        if f is None:
            self.findings[key] = [1, msg, {"files": self.files, "store_model": "atomic" if self.atomic else "inplace",
                                           "history": [p.describe() for p in hist], "observed": real}]
        else:
            f[0] += 1

    def drift(self, msg, hist):
        self.ndrift += 1
        if len(self.drifts) < 3:
            self.drifts.append("%s (history %s)" % (msg, json.dumps([p.describe() for p in hist])))

    def monitors(self, plan, hist, before, res, snap, dg):
        """The property's sentences on the REAL quiescent state (before = real state at the start of this run)."""
        b = self.bench
        real = b.real_state()
        skips = b.refresh_skips(dg)
        final = plan.final
        for i, fs in self.files.items():
            has_index = INDEX in fs and b.real_io.check_exists(i, INDEX)      # what refresh asks the store
            bad = sorted(f for f in fs if f != INDEX and real["store"][i][f] != "complete")
            was_bad = sorted(f for f in fs if f != INDEX and before["store"][i][f] != "complete")
            was_index = INDEX in fs and before["store"][i][INDEX] != "absent"
            introduced = not (was_index and was_bad)
            if has_index and bad and introduced:
                clobbered = [f for f in bad if before["store"][i][f] == "complete"]
                pred = "" if final["iia"] else " (TLC: IndexImpliesAll is FALSE in this state of the %s store model)" % ("atomic" if self.atomic else "in-place")
                if clobbered:
                    self.finding(K_CLOBBER, "after the %s the store holds %s/index.wtml while %s %s there (complete before this run; "
                                 "refresh skips %s)%s" % (self.how(plan, res), i, clobbered,
                                                          "is " + real["store"][i][clobbered[0]], skips, pred), hist, real)
                else:
                    self.finding(K_INDEX_INCOMPLETE, "after the %s the store holds %s/index.wtml while %s %s (refresh skips %s)%s"
                                 % (self.how(plan, res), i, bad, [real["store"][i][f] for f in bad], skips, pred), hist, real)
            elif i in skips and bad and not (i in self.skipped_before and was_bad):
                self.finding(K_REFRESH, "pipeline refresh skips %s as already done while %s of it %s in the store"
                             % (i, bad, [real["store"][i][f] for f in bad]), hist, real)
            allbad = sorted(f for f in fs if real["store"][i][f] != "complete")
            if real["loc"][i] != "approved" and (allbad or real["loc"][i] != "published"):
                was_pub = before["loc"][i] != "approved"
                if not was_pub:
                    self.finding(K_PUBLISHED, "after the %s the directory of %s is %s while %s of it %s in the store"
                                 % (self.how(plan, res), i, real["loc"][i], allbad, [real["store"][i][f] for f in allbad]), hist, real)
            if i in skips and INDEX in fs and real["store"][i][INDEX] == "partial":
                self.weak_whole += 1
                if not (before["store"][i][INDEX] == "partial" and i in self.skipped_before):
                    self.finding(K_INDEX_TRUNC, "after the %s the store holds an incomplete %s/index.wtml (not byte-identical to the approved "
                                 "file) and pipeline refresh skips %s as already done%s"
                                 % (self.how(plan, res), i, i, "" if final["whole"] else " (TLC: SkippedIsWhole is FALSE in this state of the spec)"), hist, real)
        if plan.fault is None:
            done = all(real["loc"][i] == "published" and all(v == "complete" for v in real["store"][i].values()) for i in self.files)
            if res["outcome"] != "returned" or not done:
                self.finding(K_RERUN, "a run of publish() without any fault %s and left %s"
                             % ("returned" if res["outcome"] == "returned" else "raised %s" % res["error"], json.dumps(real, sort_keys=True)), hist, real)
        if res["outcome"] == "raised" and plan.fault is not None:
            self.drift("publish() raised %s by itself" % res["error"], hist)
        # spec vs real, after the run
        if res["sync"]:
            if real["store"] != final["store"] or real["loc"] != final["loc"]:
                res["sync"] = False
                self.drift("after the run: real %s, spec %s" % (json.dumps(real, sort_keys=True),
                                                               json.dumps({"store": final["store"], "loc": final["loc"]}, sort_keys=True)), hist)
            elif sorted(final["skips"]) != skips:
                self.drift("refresh skips %s, spec RefreshSkips %s" % (skips, sorted(final["skips"])), hist)
        return real, skips

    @staticmethod
    def how(plan, res):
        f = plan.fault
        if f is None:
            return "run"
        if f["kind"] == "StoreFail":
            return "store-side %s failing while %s/%s is written" % (
                "temporary file deleted under it (real ENOENT)" if f["variant"] == "janitor" else
                "rename (%s)" % f["variant"].split(":")[-1] if f["variant"].startswith("replace") else
                "write (real file-size limit, %s)" % f["variant"], f["image"], f["file"])
        if f["kind"] == "Refuse":
            return "store refusing (%s) to create the file for %s/%s" % (f.get("variant"), f["image"], f["file"])
        return "%s %s the transfer of %s/%s" % (("crash (%s)" % ("process killed, os._exit" if f.get("variant") == "kill" else
                                                               "`toasty pipeline publish` killed, os._exit" if f.get("variant") == "kill-cli" else
                                                               "%s%s unwinding publish()" % (f.get("variant", "?").split("*")[0],
                                                                                            ", delivered again at the next transfer" if "*2" in f.get("variant", "") else "")))
                                                if f["kind"] == "Crash" else "failed transfer (%s)" % f.get("variant"),
                                                {"entry": "before", "during": "during", "exit": "after"}[f["where"]], f["image"], f["file"])

    def step(self, key, snap, plan, hist):
        """Execute one run from (spec idle state key, disk snapshot); returns (next snapshot or None if out of sync)."""
        b = self.bench
        b.restore(snap)
        before = b.real_state()
        if self._snap_id != id(snap):
            self._snap_id, self._snap_dg = id(snap), digest(snap)
            self._snap_keep = snap
        self.skipped_before = b.refresh_skips(self._snap_dg)
        res = b.run(plan, self.atomic)
        self.runs += 1
        if res["na"]:
            self.stray_na = getattr(self, "stray_na", 0) + 1
        after = b.snapshot()
        dg = digest(after)
        hist2 = hist + [plan]
        for k, msg in res["alarms"]:
            self.finding(k, msg, hist2, b.real_state())
        for d in res["drifts"]:
            self.drift(d, hist2)
        real, skips = self.monitors(plan, hist2, before, res, after, dg)
        if b.stray(after):
            self.stray += 1
        if plan.fault is not None and plan.fault.get("variant") == "kill-cli" and res["sync"]:
            # the operator runs the command again, undisturbed: it must complete the job
            todo = sorted(i for i in self.files if os.path.isdir(os.path.join(b.work, "approved", i)))
            if todo:
                ls = [(i, sorted(b._listdir(os.path.join(b.work, "approved", i)))) for i in todo]
                fp = FreePlan(ls[0][0], ls[0][1], ls[1:])
                fp.via_cli = True
                res2 = b.run(fp, self.atomic)
                self.runs += 1
                b.current = None
                real2 = b.real_state()
                if res2["outcome"] != "returned" or not all(real2["loc"][i] == "published" and all(v == "complete" for v in real2["store"][i].values())
                                                            for i in self.files):
                    self.finding(K_RERUN, "after the %s re-running `toasty pipeline publish` %s and left %s"
                                 % (self.how(plan, res), "returned" if res2["outcome"] == "returned" else "raised %s" % res2["error"],
                                    json.dumps(real2, sort_keys=True)), hist2, real2)
        if plan.fault is not None and not res["sync"] and not res["na"]:
            # the run left the spec: "re-running publish completes the job" is then judged directly, by one fault-free run
            todo = sorted(i for i in self.files if os.path.isdir(os.path.join(b.work, "approved", i)))
            res2 = {"outcome": "returned", "error": None}
            if todo:
                ls = [(i, sorted(b._listdir(os.path.join(b.work, "approved", i)))) for i in todo]
                res2 = b.run(FreePlan(ls[0][0], ls[0][1], ls[1:]), self.atomic)
                self.runs += 1
                b.current = None            # the disk no longer is the snapshot taken above
            real2 = b.real_state()
            if res2["outcome"] != "returned" or not all(real2["loc"][i] == "published" and all(v == "complete" for v in real2["store"][i].values())
                                                        for i in self.files):
                self.finding(K_RERUN, "after the %s a fault-free re-run of publish() %s and left %s"
                             % (self.how(plan, res), "returned" if res2["outcome"] == "returned" else "raised %s" % res2["error"],
                                json.dumps(real2, sort_keys=True)), hist2, real2)
        if plan.puts:
            self.distinct.add((plan.key0, json.dumps(plan.describe(), sort_keys=True)))
        if len(self.samples) < 2 and plan.fault and plan.fault["where"] == "during" and len(hist2) > 1:
            self.samples.append({"history": [p.describe() for p in hist2], "put_calls_of_last_run": res["calls"],
                                 "real_state_after": real, "spec_state_after": {"store": plan.final["store"], "loc": plan.final["loc"]},
                                 "refresh_skips": skips})
        return (after if res["sync"] else None), dg

    def expand(self, key, snap, hist):
        """Execute every run the spec allows from (spec idle state, disk snapshot); returns the successor nodes."""
        out = []
        for j, plan in enumerate(self.g.segments(key)):
            nxt, dg = self.step(key, snap, plan, hist)
            out.append((j, plan.end, dg, nxt))
        return out

    def report(self):
        r = {"findings": self.findings, "drifts": self.drifts, "ndrift": self.ndrift, "runs": self.runs,
             "distinct": self.distinct, "stray": self.stray, "na": getattr(self, "stray_na", 0), "weak_whole": self.weak_whole, "samples": self.samples}
        self.findings, self.drifts, self.ndrift, self.runs = {}, [], 0, 0
        self.distinct, self.stray, self.weak_whole, self.samples = set(), 0, 0, []
        self.stray_na = 0
        return r


_G = {}
_WALKERS = {}


def _expand(args):
    root_key, key, snap, hist, base, atomic = args
    g = _G["graph"]
    w = _WALKERS.get(root_key)
    if w is None:
        d = os.path.join(base, "p%d-%d" % (os.getpid(), len(_WALKERS)))
        w = _WALKERS[root_key] = Walker(g, root_key, d, atomic)
    plans = [g.segments(k0)[j] for k0, j in hist]
    children = w.expand(key, snap, plans)
    r = w.report()
    r["children"] = children
    return r


def replay_graph(ctx, graph, atomic, share, tag):
    """Level-synchronised walk over every path of the graph.  A node is (spec idle state, real disk contents); with
    `share`, paths that arrive at the same node are continued once (and counted as often as they arrive)."""
    import multiprocessing as mp
    _G["graph"] = graph
    base = ctx.mkdtemp("bench")
    frontier = {}
    for rk in graph.roots:
        if graph.state[rk]["pc"] != "idle":
            ctx.machinery("a root of the dumped graph is not an initial state")
        files = {i: list(fs) for i, fs in graph.state[rk]["files"].items()}
        snap0 = {}
        for i, fs in files.items():
            snap0["work/approved/" + i] = None
            for f in fs:
                snap0["work/approved/%s/%s" % (i, f)] = content(i, f)
        frontier[(rk, rk, digest(snap0), ())] = [snap0, 1, []]
    agg = {"runs": 0, "paths": 0, "ndrift": 0, "stray": 0, "weak_whole": 0, "nodes": 0, "levels": 0, "na": 0}
    found = {}
    with mp.get_context("fork").Pool(8) as pool:
        while frontier:
            agg["levels"] += 1
            items = []
            for nk in sorted(frontier, key=lambda t: (t[0], t[1], t[2], t[3])):
                snap, cnt, hist = frontier[nk]
                if not graph.segments(nk[1]):
                    agg["paths"] += cnt
                else:
                    items.append((nk, snap, cnt, hist))
            agg["nodes"] += len(items)
            results = pool.map(_expand, [(nk[0], nk[1], snap, hist, base, atomic) for nk, snap, cnt, hist in items], chunksize=1)
            frontier = {}
            for (nk, snap, cnt, hist), r in zip(items, results):
                for k in ("runs", "ndrift", "stray", "weak_whole", "na"):
                    agg[k] += r[k]
                for key, (n, msg, rep) in sorted(r["findings"].items()):
                    f = found.setdefault(key, [0, msg, rep])
                    f[0] += n * cnt
                for d in r["drifts"]:
                    ctx.drift(d)
                for dk in r["distinct"]:
                    ctx.distinct((tag,) + dk)
                for sm in r["samples"]:
                    ctx.sample(sm)
                for j, ek, edg, esnap in r["children"]:
                    if esnap is None:
                        agg["paths"] += cnt        # the path left the spec (reported as drift); not continued
                        continue
                    h2 = hist + [(nk[1], j)]
                    ck = (nk[0], ek, edg, () if share else tuple(h2))
                    node = frontier.get(ck)
                    if node is None:
                        frontier[ck] = [esnap, cnt, h2]
                    else:
                        node[1] += cnt
    for key in sorted(found):
        n, msg, rep = found[key]
        rep["paths_with_this_finding"] = n
        ctx.violation(key, msg, rep)
    ctx.count(agg["runs"])
    ctx.trace_ok(agg["runs"])
    return agg


# ------------------------------------------------------------------------------------------------

class FreePlan(object):
    """A run without a spec behaviour behind it (physical scenario): only the listings are imposed."""

    def __init__(self, img, listing, more=()):
        both = [(img, listing)] + list(more)
        self.queue = [i for i, _ in both]
        self.images = [{"img": i, "listing": list(ls), "order": None, "pre": None} for i, ls in both]
        self.puts = []
        self.fault = None
        self.start = {"faults": 0}


def long_name_scenario(ctx):
    """Refuse, physically: a file whose name is legal but so long that name + any temporary suffix exceeds NAME_MAX.
    Whether the store can take it depends on the put_item implementation (either outcome is fine); what is judged
    is the property's safety half on the real disk afterwards."""
    root = ctx.mkdtemp("longname")
    try:
        name_max = os.pathconf(root, "PC_NAME_MAX")
    except (OSError, ValueError):
        name_max = 255
    long = "x" * (name_max - 8) + ".png"             # legal by itself; 4 more characters are not
    outcomes = []
    for n, listing in enumerate(([INDEX, long], [long, INDEX])):
        b = Bench(os.path.join(root, "b%d" % n), {"imgL": [long, INDEX]})
        snap = {"work/approved/imgL": None}
        for f in (long, INDEX):
            snap["work/approved/imgL/" + f] = content("imgL", f)
        b.restore(snap)
        res = b.run(FreePlan("imgL", listing), True)
        ctx.count()
        real = b.real_state()
        st, loc = real["store"]["imgL"], real["loc"]["imgL"]
        outcomes.append("%s%s" % (res["outcome"], " (%s)" % res["error"].split(":")[0] if res["error"] else ""))
        rp = {"files": {"imgL": ["x * %d + .png" % (name_max - 8), INDEX]}, "listing": ["<long>" if f == long else f for f in listing],
              "observed": {"store": {("<long>" if f == long else f): v for f, v in st.items()}, "loc": loc}}
        for k, msg in res["alarms"]:
            ctx.violation(k, msg.replace(long, "<%d-character name>" % len(long)) + " (image with a %d-character file name, no injected fault)" % len(long), rp)
        if b.real_io.check_exists("imgL", INDEX) and st[long] != "complete":
            ctx.violation(K_INDEX_INCOMPLETE, "after publish() of an image with a %d-character file name (%s) the store holds imgL/index.wtml "
                          "while that file is %s" % (len(long), outcomes[-1], st[long]), rp)
        if loc != "approved" and any(v != "complete" for v in st.values()):
            ctx.violation(K_PUBLISHED, "after publish() of an image with a %d-character file name (%s) its directory is %s while the store has %s"
                          % (len(long), outcomes[-1], loc, sorted(rp["observed"]["store"].items())), rp)
    ctx.note("long_name_scenario", {"name_length": len(long), "name_max": name_max, "publish_outcomes": outcomes,
                                    "judged": "safety on the real disk only (index.wtml / published imply all files complete)"})


def dump_graph(ctx, tlc, configs, budget, atomic, name, r=None, full=True):
    if r is None:
        r = tlc(name, configs, cfg(budget, atomic, ["TypeOK"], [], emit=True), workers=1)
    edges = r.json_lines("E")
    # every generated successor is printed once (again when TLC re-evaluates the constraint for liveness checking)
    if len(edges) < r.generated - len(configs):
        ctx.machinery("edge dump incomplete: %d edges printed, TLC generated %d states" % (len(edges), r.generated))
    graph = Graph(edges, full=full)
    if len(graph.state) != r.distinct:
        ctx.machinery("edge dump incomplete: %d states in the dump, TLC found %d distinct states" % (len(graph.state), r.distinct))
    if len(graph.roots) != len(configs):
        ctx.machinery("expected %d initial states in the dump, found %d" % (len(configs), len(graph.roots)))
    return graph


def replay_one(ctx, tlc, rep, atomic):
    """--replay FILE: follow the recorded history through a freshly dumped graph, on the tree under test."""
    files = {i: set(fs) for i, fs in rep["files"].items()}
    hist = rep["history"]
    budget = max(1, sum(1 for h in hist if h["fault"]))
    graph = dump_graph(ctx, tlc, [files], budget, atomic, "MCPublish_replay")
    key = graph.roots[0]
    w = Walker(graph, key, ctx.mkdtemp("bench"), atomic)
    snap = {}
    for i, fs in w.files.items():
        snap["work/approved/" + i] = None
        for f in fs:
            snap["work/approved/%s/%s" % (i, f)] = content(i, f)
    plans = []
    for n, desc in enumerate(hist):
        want = json.loads(json.dumps(desc))
        match = [pl for pl in graph.segments(key) if json.loads(json.dumps(pl.describe())) == want]
        if not match:
            ctx.machinery("run #%d of the recorded history is not a run of the spec from this state" % (n + 1))
        nxt, dg = w.step(key, snap, match[0], plans)
        plans.append(match[0])
        print("run #%d %s" % (n + 1, json.dumps(want)))
        print("   real: %s" % json.dumps(w.bench.real_state(), sort_keys=True))
        print("   spec: %s" % json.dumps({"store": match[0].final["store"], "loc": match[0].final["loc"],
                                          "IndexImpliesAll": match[0].final["iia"], "PublishedImpliesAll": match[0].final["pia"]}, sort_keys=True))
        if nxt is None:
            print("   (real run left the spec; stopping)")
            break
        key, snap = match[0].end, nxt
    r = w.report()
    for d in r["drifts"]:
        ctx.drift(d)
    for k in sorted(r["findings"]):
        n, msg, rp = r["findings"][k]
        ctx.violation(k, msg, rp)
    ctx.count(r["runs"])
    ctx.trace_ok(1)


def run(ctx):
    repo.setup(ctx)
    from concurrent.futures import ThreadPoolExecutor
    ctx.rule = ("TLC dumps every transition of spec/Publish.tla (all file sets of the tier, every listing order of approved/ and of each "
                "image directory in every run, Crash/Fail before, during and after every transfer up to the fault budget, re-runs); "
                "every path of that graph is cut into runs and each run is executed by the real PipelineManager.publish() on a real "
                "LocalPipelineIo with the listing order and the fault of the behaviour, the real store and directories being compared "
                "with the spec state at every hook and the property's sentences evaluated on the real quiescent state. "
                "distinct = distinct (spec idle state, run) pairs with at least one transfer")
    A, B, C, D, E = "data.png", INDEX, "index_rel.wtml", "thumb.jpg", "0_0.png"
    if ctx.quick:
        suites = [("q", 2, [{"imgA": {A, B, C}}, {"imgA": {A, D}}]),
                  ("q1", 1, [{"imgA": {A, B, C, D}}, {"imgA": {A, B}, "imgB": {B, D}}])]
    else:
        suites = [("t4", 2, [{"imgA": {A, B, C, D}}, {"imgA": {A, C, D}}, {"imgA": {A, B, C}, "imgB": {B, D}}, {"imgA": {B}}]),
                  ("t3", 3, [{"imgA": {A, B, C}}, {"imgA": {A, D}}, {"imgA": {A, B}, "imgB": {B, D}}]),
                  ("t5", 1, [{"imgA": {A, B, C, D, E}}, {"imgA": {A, B}, "imgB": {B, D}, "imgC": {B, C}}])]
    kind, seen = probe_store_model(ctx.mkdtemp("probe"))
    ctx.note("store_model_of_real_put_item", {"model": kind, "destination_seen_at_first_read":
                                                {k: (v.decode() if v is not None else None) for k, v in seen.items()}})
    if kind == "other":
        ctx.drift("LocalPipelineIo.put_item implements neither store model of the spec (destination at first read: %r); replaying the in-place graph" % (seen,))
    atomic = kind == "atomic"

    def tlc(name, configs, cfg_text, **kw):
        return ctx.tlc(name, extra={name + ".tla": mc_module(name, configs)}, cfg_text=cfg_text, timeout=3000, **kw)

    if ctx.replay_path:
        rep = json.load(open(ctx.replay_path))["replay"]
        return replay_one(ctx, tlc, rep, atomic)

    jobs = {}
    gsrc = {}          # suite -> theorem job whose run also dumps the graph (same store model and budget)
    for tag, budget, configs in suites:
        ja, ji = "MCPublish_%s_atomic_f%d" % (tag, budget), "MCPublish_%s_inplace_f1" % tag
        ea, ei = atomic, (not atomic and budget == 1)
        jobs[ja] = (configs, cfg(budget, True, Q_INV + ["QSkippedIsWhole"], PROPS, emit=ea), dict(workers=1 if ea else 4))
        jobs[ji] = (configs, cfg(1, False, Q_INV, PROPS, emit=ei), dict(workers=1 if ei else 4))
        if ea or ei:
            gsrc[tag] = ja if ea else ji
    tag0, budget0, configs0 = suites[0]
    jobs["MCPublish_%s_inplace_f2_refuted" % tag0] = (configs0, cfg(2, False, Q_INV, PROPS), dict(workers=1, expect_violation=True, count=False))
    if not ctx.quick:
        jobs["MCPublish_observer_atomic"] = (configs0, cfg(budget0, True, ["IndexImpliesAll", "PublishedImpliesAll", "SkippedIsWhole"], []), dict(workers=2))
        jobs["MCPublish_observer_inplace_refuted"] = (configs0, cfg(1, False, ["IndexImpliesAll"], []), dict(workers=1, expect_violation=True, count=False))
        jobs["MCPublish_whole_inplace_f1_refuted"] = (configs0, cfg(1, False, ["QSkippedIsWhole"], []), dict(workers=1, expect_violation=True, count=False))
    with ThreadPoolExecutor(4) as ex:
        futs = {k: ex.submit(tlc, k, v[0], v[1], **v[2]) for k, v in jobs.items()}
        gfuts = {tag: ex.submit(dump_graph, ctx, tlc, configs, budget, atomic,
                                "MCPublish_%s_graph_%s_f%d" % (tag, "atomic" if atomic else "inplace", budget), None, 1 if ctx.quick else 3)
                 for tag, budget, configs in suites if tag not in gsrc}
        res = {k: f.result() for k, f in futs.items()}
        graphs = {k: f.result() for k, f in gfuts.items()}
    for tag, budget, configs in suites:
        if tag in gsrc:
            graphs[tag] = dump_graph(ctx, tlc, configs, budget, atomic, gsrc[tag], r=res[gsrc[tag]], full=1 if ctx.quick else 3)
    r2 = res["MCPublish_%s_inplace_f2_refuted" % tag0]
    if r2.violated not in ("QIndexImpliesAll", "QRefreshSafe"):
        ctx.machinery("TLC was expected to refute QIndexImpliesAll for the in-place store with 2 faults, it reports %r" % (r2.violated,))
    th = {}
    for tag, budget, configs in suites:
        th["%s: atomic store, %d faults" % (tag, budget)] = ("all invariants, action properties and liveness hold (%d distinct states)"
                                                             % res["MCPublish_%s_atomic_f%d" % (tag, budget)].distinct)
        th["%s: in-place store, 1 fault" % tag] = "all hold (%d distinct states)" % res["MCPublish_%s_inplace_f1" % tag].distinct
    th["%s: in-place store, 2 faults" % tag0] = "%s REFUTED by TLC (counterexample of %d states)" % (r2.violated, r2.output.count("\nState "))
    ctx.note("tlc_theorems", th)
    if not ctx.quick:
        ctx.note("not_claimed_variants", {
            "observer during a run, atomic store": "IndexImpliesAll/PublishedImpliesAll/SkippedIsWhole hold in every state",
            "observer during a run, in-place store": "refuted (%s)" % res["MCPublish_observer_inplace_refuted"].violated,
            "index.wtml itself whole when refresh skips, in-place store, 1 fault": "refuted (%s)" % res["MCPublish_whole_inplace_f1_refuted"].violated,
        })
    gnote, rnote = {}, {}
    for tag, budget, configs in suites:
        graph = graphs[tag]
        gnote[tag] = {"store_model": "atomic" if atomic else "inplace", "fault_budget": budget, "states": len(graph.state),
                      "labelled_edges": graph.nedges, "configs": [{i: sorted(fs) for i, fs in c.items()} for c in configs]}
        agg = replay_graph(ctx, graph, atomic, True, tag)
        rnote[tag] = {"runs_of_real_publish": agg["runs"], "complete_paths_covered": agg["paths"],
                      "distinct_nodes (spec idle state, disk contents)": agg["nodes"], "runs_with_drift": agg["ndrift"],
                      "runs_leaving_stray_store_entries": agg["stray"],
                      "store_fault_variants_not_applicable (put_item renames nothing)": agg["na"],
                      "quiescent_states_where_refresh_skips_an_image_whose_index_itself_is_truncated (not claimed by the property)": agg["weak_whole"]}
    long_name_scenario(ctx)
    ctx.note("graph", gnote)
    ctx.note("replay", rnote)
    ctx.exhaustive = True
    ctx.assume("paths that reach the same spec state with a byte-identical work dir and store share the replay of their continuation "
               "(publish() is a function of the directory contents, the listing order and the fault); every path is counted")
    ctx.assume("a crash is modelled as a BaseException raised at a put_item boundary or from the source stream (buffers are flushed by "
               "the with-statement; loss of OS buffers on power failure is outside the model)")
    ctx.assume("only the local store backend is exercised; the Azure backend is assumed to replace an item atomically")
    ctx.assume("a single publisher: no two publish() runs at the same time; image directories contain plain files")
