"""C04 - TOAST tiles partition the sphere, nest exactly, and are route-independent.

Spec: spec/ToastLattice.tla.  TLC checks (ASSUME theorems over the bounded lattice) that the code's level-1 table
is the documented layout, that _div4 / create_single_tile / the post-order generator produce exactly the canonical
tiles *including the pair each new point is the midpoint of* (so the diagonal choice is visible), that the tiles of a
level partition the square, four children tile their parent, the defining pairs respect the fold of the boundary;
and explores the point-lookup descent as a state machine.  TLC emits the tile table, the Def table and the anchors.
Binding: psi (lattice -> sphere, built from TLC's anchors and Def) is compared with the corners the real code
reports through all four construction routes, in both coordinate systems; shared lattice points across tiles,
levels and the fold must be the same sphere point; areas must add up.

Areas below the enumerated depth: spec/ToastArea.tla.  TLC (R = 20 / 22) is handed offsets along the fold lines of the
square (the level-1 cross and the boundary = the meridians lon 0 / 90 / 180 / 270, where a longitude has two names)
and emits, per depth, the tiles within two tiles of those lines with their children, and for some of them the five
generations below; it checks for each that the children's cells partition the parent's cell (T_Nest as arithmetic on
rectangles, tied to the unit-square form by T_RectIsUnits / T_ChainIsUnits at small R).  The real toast_tile_area of
the parts must add up to that of the whole, in both coordinate systems.
"""
import json
import os

import numpy as np

from lib import repo, lattice, tla
from checks import toastlat

TOL = 1e-9        # sphere points, spec-derived vs real (observed agreement ~1e-15)
XTOL = 1e-12      # the same corner obtained through different routes / tiles

# toast_tile_area takes each side of a tile out of an arccos, so the relative error of an area grows fourfold per level.
# Measured on the unchanged code (80 000 tiles at depths 4..22, half of them next to the fold lines, both coordinate
# systems): |sum of the four children - parent| / parent <= 0.94e-16 * 4^n for a parent at depth n, at every depth;
# the sum of a whole generation j levels below a tile differs from the tile by no more than that bound taken at the
# depth of the generation's parents.  The tolerance is 100 times that envelope (and never below the 1e-9 of the
# enumerated levels): 6.6e-10 at depth 8, 1.1e-5 at 15, 4.3e-5 at 16, 2.7e-3 at 19.
AREA_ENVELOPE = 1e-16
AREA_MARGIN = 100.0


def area_tol(n):
    """Relative tolerance for 'the children of tiles at depth n add up'."""
    return max(1e-9, AREA_MARGIN * AREA_ENVELOPE * 4.0 ** n)


JVM_SMALL = ["-XX:TieredStopAtLevel=1"]      # short constant evaluations: do not spend CPU on the optimising compiler

AREA_THM_CFG = """CONSTANTS
 R = %(R)d
 MaxDepth = %(D)d
 K = 1
"""


def area_theorems(ctx, R, D):
    """ToastArea's theorems where the lattice can be enumerated."""
    mod = tla.module("MCToastAreaThm", ["ToastArea"], ["ASSUME T_RectIsUnits", "ASSUME T_ChainIsUnits", "ASSUME T_BandTouches", "ASSUME T_FoldLinesClosed"])
    ctx.tlc("MCToastAreaThm", extra={"MCToastAreaThm.tla": mod}, cfg_text=AREA_THM_CFG % dict(R=R, D=D), workers=1, timeout=1200, count=False, jvm_opts=JVM_SMALL)


def area_cases(ctx, R, nest_cases, chain_cases, w):
    """Hand TLC the offsets; it returns the tiles near the fold lines with their children / generations, having checked
    that the parts partition the whole on the lattice."""
    outp = os.path.join(ctx.scratch, "toast-area-%d.json" % R)
    defs = [
        "NestCases == %s" % tla.lit([list(c) for c in nest_cases]),
        "ChainCases == %s" % tla.lit([list(c) for c in chain_cases]),
        "W == %d" % w,
        "NestTable == [i \\in DOMAIN NestCases |-> LET c == NestCases[i] ps == NearFoldSeq(c[1], c[2], W) IN"
        " [n |-> c[1], off |-> c[2], tiles |-> [j \\in DOMAIN ps |-> LET t == TileAt(ps[j]) d == Div4(t) IN"
        " [pos |-> ps[j], touch |-> TouchesFold(t), kids |-> [m \\in 1..4 |-> d[m].pos]]]]]",
        "ChainRoot(c) == NearFoldSeq(c[1], c[2], 1)[c[3]]",
        "ChainTable == [i \\in DOMAIN ChainCases |-> LET c == ChainCases[i] t == TileAt(ChainRoot(c)) lv == Levels(t, c[4]) IN"
        " [root |-> t.pos, touch |-> TouchesFold(t), levels |-> [j \\in DOMAIN lv |-> [m \\in DOMAIN lv[j] |-> lv[j][m].pos]]]]",
        "ASSUME \\A i \\in DOMAIN NestCases : LET c == NestCases[i] ps == NearFoldSeq(c[1], c[2], W) IN \\A j \\in DOMAIN ps : ValidPos(ps[j]) /\\ NestsLocal(TileAt(ps[j]))",
        "ASSUME \\A i \\in DOMAIN ChainCases : LET c == ChainCases[i] IN ValidPos(ChainRoot(c)) /\\ c[1] + c[4] <= R /\\ TouchesFold(TileAt(ChainRoot(c))) /\\ ChainNests(TileAt(ChainRoot(c)), c[4])",
        "ASSUME JsonSerialize(IOEnv.OUT, [nest |-> NestTable, chain |-> ChainTable])",
    ]
    mod = tla.module("MCToastArea", ["ToastArea", "Json", "IOUtils"], defs)
    ctx.tlc("MCToastArea", extra={"MCToastArea.tla": mod}, cfg_text=AREA_THM_CFG % dict(R=R, D=1), env={"OUT": outp}, workers=1, timeout=1200, count=False, jvm_opts=JVM_SMALL)
    return json.load(open(outp))


def _area(toast, tile):
    a = float(toast.toast_tile_area(tile))
    return a if np.isfinite(a) else float("nan")


def _rel(parts, whole):
    if not (whole > 0) or not np.isfinite(parts):
        return float("inf")
    return abs(parts - whole) / whole


def _two_branches(tile):
    lons = [float(c[0]) for c in tile.corners]
    return max(lons) - min(lons) > np.pi


def deep_area_start(ctx, adepth):
    """Draw the inputs and start ToastArea's two TLC runs (constant evaluation, one worker each) next to the main run."""
    from concurrent.futures import ThreadPoolExecutor
    q = ctx.quick
    W = 2
    G = 5                              # generations in a chain: 4^5 = 1024 descendants
    nmax = 19 if q else 21             # deepest parents (their children: depth 20 / 22)
    R = nmax + 1
    # inputs (Python picks offsets along the lines, one in each half of the square per depth; TLC makes the tiles)
    nest_cases = []
    for n in range(max(adepth, 3), nmax + 1):
        h = 2 ** (n - 1)
        for _rep in range(1 if q else 6):
            nest_cases.append((n, ctx.rng.randrange(h)))
            nest_cases.append((n, h + ctx.rng.randrange(h)))
    strata = [(idx, half) for idx in range(1, 9) for half in (0, 1)]      # which line and side, which half of it
    ctx.rng.shuffle(strata)
    chain_cases = []
    for idx, half in (strata if q else strata + strata):
        n = ctx.rng.randint(max(adepth, 9), nmax + 1 - G)          # leaves at depth 14 .. 20 / 22
        h = 2 ** (n - 1)
        chain_cases.append((n, half * h + ctx.rng.randrange(h), idx, G))
    pool = ThreadPoolExecutor(2)
    f_thm = pool.submit(area_theorems, ctx, 4 if q else 5, 3)
    f_tab = pool.submit(area_cases, ctx, R, nest_cases, chain_cases, W)
    pool.shutdown(wait=False)
    return f_thm, f_tab


def deep_areas(ctx, toast, Pos, started, worst):
    """Nesting of areas for tiles TLC picks next to the fold lines, from the enumerated depth down to depth 20 / 22."""
    started[0].result()
    tab = started[1].result()
    csl = toastlat.coordsystems()
    stats = {"tiles": 0, "touching_a_fold_line": 0, "corners_on_two_longitude_branches": 0, "chains": 0, "chain_tiles": 0, "deepest_tile": 0}
    wd = {}
    # ---- four children add up to their parent
    for ci, case in enumerate(tab["nest"]):
        n = case["n"]
        tol = area_tol(n)
        for ti, rec in enumerate(case["tiles"]):
            pos = tuple(rec["pos"])
            kpos = [tuple(k) for k in rec["kids"]]
            for csname, cs in csl:
                parent = toast.create_single_tile(Pos(*pos), coordsys=cs)
                if (ci + ti) % 2 == 0:
                    kids = list(toast._div4(parent))
                    if [tuple(k.pos) for k in kids] != kpos:
                        ctx.violation("C04:div4:order", "children of %s [%s] are %s, expected %s" % (pos, csname, [tuple(k.pos) for k in kids], kpos), {"pos": pos, "cs": csname})
                        continue
                else:
                    kids = [toast.create_single_tile(Pos(*k), coordsys=cs) for k in kpos]
                a = _area(toast, parent)
                s = sum(_area(toast, k) for k in kids)
                rel = _rel(s, a)
                ctx.count(5)
                ctx.trace_ok()
                ctx.distinct((csname, pos, "area"))
                stats["tiles"] += 1
                stats["touching_a_fold_line"] += bool(rec["touch"])
                stats["corners_on_two_longitude_branches"] += any(_two_branches(k) for k in kids + [parent])
                stats["deepest_tile"] = max(stats["deepest_tile"], n + 1)
                if np.isfinite(rel):
                    wd[n] = max(wd.get(n, 0.0), rel)
                if rel > tol:
                    ctx.violation("C04:area:deep-nesting", "tile %s [%s]: area %.9e but its four children sum to %.9e (relative difference %.2e; the formula's own "
                                  "rounding at this depth stays below %.1e, tolerance %.1e)" % (pos, csname, a, s, rel, AREA_ENVELOPE * 4.0 ** n, tol),
                                  {"pos": pos, "cs": csname, "children": kpos, "touches_fold_line": rec["touch"]})
    # ---- generations: the 4, 16, ... 1024 descendants of a tile add up to it, and every tile on the way to its children
    for case in tab["chain"]:
        root = tuple(case["root"])
        n = root[0]
        for csname, cs in csl:
            gens = [[toast.create_single_tile(Pos(*root), coordsys=cs)]]
            ok = True
            for j in range(1, len(case["levels"])):
                nxt = [kid for t_ in gens[-1] for kid in toast._div4(t_)]
                if [tuple(k.pos) for k in nxt] != [tuple(p_) for p_ in case["levels"][j]]:
                    ctx.violation("C04:div4:order", "generation %d below %s [%s] is not the expected sequence of positions" % (j, root, csname), {"pos": root, "cs": csname, "generation": j})
                    ok = False
                    break
                gens.append(nxt)
            if not ok:
                continue
            areas = [[_area(toast, t_) for t_ in g] for g in gens]
            ctx.count(sum(len(g) for g in gens))
            ctx.trace_ok()
            stats["chains"] += 1
            stats["chain_tiles"] += sum(len(g) for g in gens)
            stats["corners_on_two_longitude_branches"] += sum(_two_branches(t_) for g in gens for t_ in g)
            stats["deepest_tile"] = max(stats["deepest_tile"], n + len(gens) - 1)
            a0 = areas[0][0]
            for j in range(1, len(gens)):
                tol = area_tol(n + j - 1)
                rel = _rel(sum(areas[j]), a0)
                if np.isfinite(rel):
                    wd[n + j - 1] = max(wd.get(n + j - 1, 0.0), rel)
                if rel > tol:
                    ctx.violation("C04:area:deep-generations", "tile %s [%s]: area %.9e but the %d tiles %d levels below it sum to %.9e (relative difference %.2e, tolerance %.1e)"
                                  % (root, csname, a0, len(gens[j]), j, sum(areas[j]), rel, tol), {"pos": root, "cs": csname, "generation": j})
                    break
            bad = None
            for j in range(len(gens) - 1):
                tol = area_tol(n + j)
                for i, t_ in enumerate(gens[j]):
                    rel = _rel(sum(areas[j + 1][4 * i: 4 * i + 4]), areas[j][i])
                    if np.isfinite(rel):
                        wd[n + j] = max(wd.get(n + j, 0.0), rel)
                    if rel > tol and bad is None:
                        bad = (tuple(t_.pos), areas[j][i], sum(areas[j + 1][4 * i: 4 * i + 4]), rel, tol)
            if bad is not None:
                ctx.violation("C04:area:deep-nesting", "tile %s [%s] (a descendant of %s): area %.9e but its four children sum to %.9e (relative difference %.2e, tolerance %.1e)"
                              % (bad[0], csname, root, bad[1], bad[2], bad[3], bad[4]), {"pos": bad[0], "cs": csname, "root": root})
    ctx.note("deep_area", stats)
    ctx.note("deep_area_worst_relative_difference_by_parent_depth", {str(k): float("%.3g" % v) for k, v in sorted(wd.items())})
    ctx.note("deep_area_tolerance", "children vs parent at depth n: max(1e-9, %g x %g x 4^n) - %g x the measured rounding envelope of toast_tile_area's arccos formula "
             "(<= 0.94e-16 x 4^n over 80 000 tiles at depths 4..22 on the unchanged code); a generation j levels below a tile at depth n: the same at n + j - 1"
             % (AREA_MARGIN, AREA_ENVELOPE, AREA_MARGIN))
    if tab["nest"]:
        c0 = tab["nest"][-1]
        ctx.sample({"deep_area_case": {"depth": c0["n"], "offset": c0["off"], "tile": c0["tiles"][4]["pos"], "touches_fold_line": c0["tiles"][4]["touch"], "children": c0["tiles"][4]["kids"]}})
    worst["area_deep_vs_tolerance"] = max([v / area_tol(k) for k, v in wd.items()] or [0.0])


def run(ctx):
    repo.setup(ctx)
    from toasty import toast
    from toasty.pyramid import Pos, Pyramid
    q = ctx.quick
    ctx.rule = ("every tile position to the stated depth, both coordinate systems, four construction routes; TLC enumerates the lattice, checks the theorems and "
                "emits tiles/Def/anchors; distinct = distinct (coordinate system, position); non-trivial = every tile (each has 4 corners compared); areas below the "
                "enumerated depth: Python draws one offset per half of the square and depth, TLC (ToastArea) makes the tiles within two tiles of the fold lines, their children "
                "and generations, and checks that the parts partition the whole on the lattice")
    R, D, K = (5, 3, 1) if q else (6, 4, 1)
    adepth = 4 if q else 6             # whole levels are summed to here; single tiles' parts from here down
    started = deep_area_start(ctx, adepth)
    t = toastlat.run_tlc(ctx, R, D, K)
    ctx.note("def_points_validated", t.ndef)
    deep = 5 if q else 7
    expected_tiles = {x["pos"]: x for x in t.tiles}
    worst = {"corner": 0.0, "route": 0.0, "shared": 0.0, "area": 0.0}
    reals = {}
    pyramids = []
    for csname, cs in toastlat.coordsystems():
        psi = toastlat.psi_for(t, csname)
        ctx.note("grid_selfcheck_" + csname, toastlat.selfcheck_grid(psi, ctx.rng))
        # ---- route 1: full enumeration
        real = {}
        order = []
        for tile in toast.generate_tiles(deep, bottom_only=False, coordsys=cs):
            real[tuple(tile.pos)] = tile
            order.append(tuple(tile.pos))
        npos = sum(4 ** n for n in range(1, deep + 1))
        if len(real) != npos or len(order) != npos:
            ctx.violation("C04:generate_tiles:count", "generate_tiles(%d) yields %d tiles (%d distinct), expected %d [%s]" % (deep, len(order), len(real), npos, csname), {"cs": csname})
        shared = {}
        for pos, tile in real.items():
            n, x, y = pos
            ctx.count()
            ctx.distinct((csname, pos))
            v = toastlat.tile_vecs(tile)
            exp = np.array(psi.corners(n, x, y))
            err = float(np.abs(v - exp).max())
            worst["corner"] = max(worst["corner"], err)
            if err > TOL:
                ctx.violation("C04:generate_tiles:corners", "tile %s [%s]: corners differ from the midpoint subdivision of the documented layout by %.2e" % (pos, csname, err),
                              {"pos": pos, "cs": csname, "real": v.tolist(), "expected": exp.tolist()})
            if bool(tile.increasing) != lattice.inc(n, x, y):
                ctx.violation("C04:generate_tiles:increasing", "tile %s [%s]: diagonal orientation %s, expected %s" % (pos, csname, tile.increasing, lattice.inc(n, x, y)), {"pos": pos, "cs": csname})
            if pos in expected_tiles:
                e = expected_tiles[pos]
                s = 2 ** (t.R - n)
                if [(x * s, y * s), ((x + 1) * s, y * s), ((x + 1) * s, (y + 1) * s), (x * s, (y + 1) * s)] != e["c"] or e["inc"] != lattice.inc(n, x, y):
                    ctx.machinery("harness corner convention disagrees with TLC's tile table at %s" % (pos,))
                ctx.trace_ok()
            # collect the sphere point of every lattice point as seen from every tile that owns it
            for k, (ci, cj) in enumerate([(x, y), (x + 1, y), (x + 1, y + 1), (x, y + 1)]):
                shared.setdefault(lattice.Psi.canon(ci, cj, n), []).append((pos, v[k]))
        # neighbouring tiles at equal or different depths share corner points (same lattice point => same sphere point)
        for key, lst in shared.items():
            base = lst[0][1]
            for pos, vv in lst[1:]:
                d = float(np.abs(vv - base).max())
                worst["shared"] = max(worst["shared"], d)
                if d > XTOL:
                    ctx.violation("C04:shared-corner", "lattice point %s [%s]: tiles %s and %s disagree on it by %.2e" % (key, csname, lst[0][0], pos, d), {"cs": csname, "point": key})
                    break
        # ... also across the fold of the square's boundary (TLC's fold table, scaled to the deepest level)
        nf = 0
        for a, b in t.fold:
            ka, kb = lattice.Psi.canon(a[0], a[1], t.R), lattice.Psi.canon(b[0], b[1], t.R)
            if ka in shared and kb in shared:
                d = float(np.abs(shared[ka][0][1] - shared[kb][0][1]).max())
                nf += 1
                if d > XTOL:
                    ctx.violation("C04:fold", "boundary points %s and %s [%s] are sewn together but the real tiles put them %.2e apart" % (a, b, csname, d), {"cs": csname})
        corners4 = [shared[k][0][1] for k in (lattice.Psi.canon(0, 0, 1), lattice.Psi.canon(2, 0, 1), lattice.Psi.canon(0, 2, 1), lattice.Psi.canon(2, 2, 1)) if k in shared]
        for c in corners4[1:]:
            if float(np.abs(c - corners4[0]).max()) > XTOL:
                ctx.violation("C04:fold", "the four corners of the square are not one point [%s]" % csname, {"cs": csname})
        ctx.note("fold_pairs_checked_" + csname, nf)
        # each tile is exactly tiled by its four children: children share the parent's corners / edge midpoints
        for pos, tile in real.items():
            if pos[0] >= deep:
                continue
            kids = toast._div4(tile)
            n, x, y = pos
            for i, kid in enumerate(kids):
                kp = (n + 1, 2 * x + (i % 2), 2 * y + (i // 2))
                if tuple(kid.pos) != kp:
                    ctx.violation("C04:div4:order", "child %d of %s is %s, expected %s" % (i, pos, tuple(kid.pos), kp), {"pos": pos})
                rk = real.get(kp)
                if rk is not None:
                    d = float(np.abs(toastlat.tile_vecs(kid) - toastlat.tile_vecs(rk)).max())
                    if d > XTOL:
                        ctx.violation("C04:div4:corners", "child %s of %s differs from the enumerated tile by %.2e [%s]" % (kp, pos, d, csname), {"pos": pos, "cs": csname})
        # ---- route 2: filtered enumeration (filters from the quadtree family; must report identical tiles)
        for trial in range(3 if q else 12):
            pr = ctx.rng.choice([0.5, 0.7, 0.9])
            rnd = {}

            def flt(tile, rnd=rnd, pr=pr):
                k = tuple(tile.pos)
                if k not in rnd:
                    rnd[k] = ctx.rng.random() < pr
                return rnd[k]
            fd = min(deep, 4)
            for tile in toast.generate_tiles_filtered(fd, flt, bottom_only=False, coordsys=cs):
                ctx.count()
                ref = real[tuple(tile.pos)]
                d = float(np.abs(toastlat.tile_vecs(tile) - toastlat.tile_vecs(ref)).max())
                worst["route"] = max(worst["route"], d)
                if d > XTOL or bool(tile.increasing) != bool(ref.increasing):
                    ctx.violation("C04:route:filtered", "tile %s [%s] from filtered enumeration differs from full enumeration (%.2e)" % (tuple(tile.pos), csname, d), {"pos": tuple(tile.pos), "cs": csname})
        reals[csname] = real
        pd = 3
        # ... and the constructors of Pyramid (they must hand the coordinate system down too): the objects of BOTH coordinate
        # systems are constructed first and enumerated afterwards, in mixed order (see below), so that nothing a later
        # construction sets can reach an object constructed earlier
        pyramids.append((csname, "filtered", "C04:route:pyramid-filtered", Pyramid.new_toast_filtered(pd, lambda t_: (t_.pos.x + t_.pos.y) % 3 != 2 or t_.pos.n < 2, coordsys=cs)))
        pyramids.append((csname, "subpyramid", "C04:route:pyramid-subpyramid", Pyramid.new_toast(pd, coordsys=cs).subpyramid(Pos(2, 1, 2))))
        pyramids.append((csname, "subpyramid of a filtered", "C04:route:pyramid-subpyramid", Pyramid.new_toast_filtered(pd, lambda t_: True, coordsys=cs).subpyramid(Pos(1, 0, 1))))
        pyramids.append((csname, "plain", "C04:route:pyramid", Pyramid.new_toast(pd, coordsys=cs)))
        # ---- areas: each level sums to the sphere, each parent equals the sum of its children
        areas = {}
        for pos, tile in real.items():
            if pos[0] <= adepth:
                areas[pos] = float(toast.toast_tile_area(tile))
        for n in range(1, adepth + 1):
            tot = sum(a for p, a in areas.items() if p[0] == n)
            rel = abs(tot - 4 * np.pi) / (4 * np.pi)
            worst["area"] = max(worst["area"], rel)
            if rel > 1e-9:
                ctx.violation("C04:area:level-sum", "level %d [%s]: tile areas sum to %.12f, the sphere is %.12f" % (n, csname, tot, 4 * np.pi), {"level": n, "cs": csname})
        for pos, a in areas.items():
            n, x, y = pos
            if n < adepth:
                s = sum(areas[(n + 1, 2 * x + i, 2 * y + j)] for i in (0, 1) for j in (0, 1))
                rel = abs(s - a) / a
                worst["area"] = max(worst["area"], rel)
                if rel > 1e-9:
                    ctx.violation("C04:area:nesting", "tile %s [%s]: area %.6e but its children sum to %.6e" % (pos, csname, a, s), {"pos": pos, "cs": csname})
    # ---- areas below the enumerated depth (spec/ToastArea.tla): tiles chosen on the lattice next to the fold lines
    deep_areas(ctx, toast, Pos, started, worst)
    # ---- the Pyramid objects constructed above, enumerated now (generator and leaf visit), newest first and oldest first
    for order in (list(reversed(pyramids)), pyramids):
        for csname, label, key, pyr in order:
            real = reals[csname]
            seenp = []
            for ppos, ptile in pyr._generator():
                if ptile is None:
                    continue
                ctx.count()
                d = float(np.abs(toastlat.tile_vecs(ptile) - toastlat.tile_vecs(real[tuple(ppos)])).max())
                if d > XTOL or tuple(ptile.pos) != tuple(ppos):
                    ctx.violation(key, "%s Pyramid generator tile %s [%s] differs from enumeration (%.2e)" % (label, tuple(ppos), csname, d), {"pos": tuple(ppos), "cs": csname})
                    break

            def leaf(ppos, ptile, real=real, key=key, label=label, csname=csname):
                ctx.count()
                d = float(np.abs(toastlat.tile_vecs(ptile) - toastlat.tile_vecs(real[tuple(ppos)])).max())
                if d > XTOL or tuple(ptile.pos) != tuple(ppos):
                    ctx.violation(key + ":leaf-visit", "%s Pyramid leaf visit hands out tile %s [%s] with corners differing from enumeration (%.2e)" % (label, tuple(ppos), csname, d), {"pos": tuple(ppos), "cs": csname})
            from lib import simrun as _sr
            with _sr.quiet():
                pyr.visit_leaves(leaf, parallel=1)
    # ---- route 3: single-tile construction; route 4: point lookup of the centre - with the two coordinate systems
    # INTERLEAVED call by call, so that any state kept between calls (a memo keyed without the coordinate system ...) shows
    sample = list(reals["astronomical"])
    if q:
        sample = [p for p in sample if p[0] <= 3] + ctx.rng.sample([p for p in sample if p[0] > 3], 300)
    csl = toastlat.coordsystems()
    psis = {n_: toastlat.psi_for(t, n_) for n_, _c in csl}
    # ... and each reported tile then lives on: it is shown to the library's own consumers of tiles (footprint filters,
    # area, pixel grid) and must still be the same tile afterwards; finally its caller, who owns it, overwrites it in place,
    # which must not reach any tile reported later (state shared between what different calls return)
    cons = toastlat.library_consumers()
    refvecs = {n_: {p_: (toastlat.tile_vecs(reals[n_][p_]).copy(), bool(reals[n_][p_].increasing)) for p_ in sample} for n_, _c in csl}

    def lives_on(tile, rv, route, pos, csname):
        toastlat.hand_to_consumers(tile, cons)
        d = float(np.abs(toastlat.tile_vecs(tile) - rv).max())
        ctx.count()
        if d > XTOL:
            ctx.violation("C04:route:%s:after-consumers" % route, "tile %s [%s] from %s no longer has the corners of the enumerated tile (%.2e) once the library's own "
                          "footprint filters / area / pixel-grid functions have looked at it" % (pos, csname, route, d), {"pos": pos, "cs": csname, "route": route})
        toastlat.scribble(tile)
    for pos in sample:
        order = csl if ctx.rng.random() < 0.5 else csl[::-1]
        for csname, cs in order:
            real = reals[csname]
            psi = psis[csname]
            if True:
                rv, rinc = refvecs[csname][pos]
                ref = real[pos]
                one = toast.create_single_tile(Pos(*pos), coordsys=cs)
                ctx.count()
                d = float(np.abs(toastlat.tile_vecs(one) - rv).max())
                worst["route"] = max(worst["route"], d)
                if d > XTOL or bool(one.increasing) != rinc or tuple(one.pos) != pos:
                    ctx.violation("C04:route:single", "create_single_tile(%s) [%s] differs from enumeration (%.2e, increasing %s vs %s)" % (pos, csname, d, one.increasing, ref.increasing), {"pos": pos, "cs": csname})
                else:
                    lives_on(one, rv, "single", pos, csname)
                cen = psi.centre(*pos)
                lon, lat = lattice.vec_to_lonlat(cen)
                try:
                    lk = toast.toast_tile_for_point(pos[0], float(lat), float(lon), coordsys=cs)
                except Exception as e:  # noqa
                    ctx.violation("C04:route:lookup", "toast_tile_for_point raised %r for the centre of %s [%s]" % (e, pos, csname), {"pos": pos, "cs": csname})
                    continue
                ctx.count()
                if tuple(lk.pos) != pos:
                    ctx.violation("C04:route:lookup", "point lookup of the centre of tile %s [%s] returns tile %s" % (pos, csname, tuple(lk.pos)), {"pos": pos, "cs": csname})
                else:
                    d = float(np.abs(toastlat.tile_vecs(lk) - rv).max())
                    if d > XTOL or bool(lk.increasing) != rinc:
                        ctx.violation("C04:route:lookup", "tile %s [%s] from point lookup has different corners than enumeration (%.2e)" % (pos, csname, d), {"pos": pos, "cs": csname})
                    else:
                        lives_on(lk, rv, "lookup", pos, csname)
    # seeded deep positions (corners and orientation through single-tile construction vs psi)
    def special(n):
        h = 2 ** (n - 1)
        return ctx.rng.choice([0, 1, 2, 2 ** n - 1, 2 ** n - 2, h - 2, h - 1, h, h + 1, ctx.rng.randrange(2 ** n)])
    for k in range(90 if q else 2000):
        if k % 3 == 0:
            # very deep tiles next to the poles, the square's corners, its centre cross and its edges, where coordinates are
            # closest to singular values
            n = ctx.rng.randint(21, 30)
            x, y = special(n), special(n)
        else:
            n = ctx.rng.randint(6, 20)
            x, y = ctx.rng.randrange(2 ** n), ctx.rng.randrange(2 ** n)
        csname, cs = ctx.rng.choice(toastlat.coordsystems())
        psi = toastlat.psi_for(t, csname)
        # positions as they come out of user code: Python ints, or NumPy integers of any width that holds the value (rows of
        # an index table, loop variables of np.arange ...)
        rep = ctx.rng.choice(["py", "py", "i64", "i32", "narrow", "unsigned"])
        if rep == "py":
            pn, px, py_ = n, x, y
        elif rep == "i64":
            pn, px, py_ = np.int64(n), np.int64(x), np.int64(y)
        elif rep == "i32":
            pn, px, py_ = np.int32(n), np.int32(x), np.int32(y)
        elif rep == "narrow":
            pn, px, py_ = np.int8(n), np.int32(x), np.int32(y)
        else:
            pn, px, py_ = np.uint8(n), np.uint32(x), np.uint32(y)
        one = toast.create_single_tile(Pos(pn, px, py_), coordsys=cs)
        exp = np.array(psi.corners(n, x, y))
        err = float(np.abs(toastlat.tile_vecs(one) - exp).max())
        ctx.count()
        ctx.distinct((csname, (n, x, y)))
        worst["corner"] = max(worst["corner"], err)
        tol_deep = min(TOL, 0.02 * 2 * np.pi / 2 ** n)          # a fiftieth of a tile width, for the deepest tiles
        if err > tol_deep or bool(one.increasing) != lattice.inc(n, x, y):
            ctx.violation("C04:single:deep", "create_single_tile((%d, %d, %d)) [%s, integers given as %s] is %.2e away from the subdivision of the documented layout" % (n, x, y, csname, rep, err), {"pos": (n, x, y), "cs": csname, "ints": rep})
        if k % 2 == 0 and n <= 28:
            # route 4 at this depth: the point lookup of the tile's centre (psi) names this tile (to depth 28: beyond that the
            # lookup's double-precision arithmetic gives out - a recorded finding of C12, see known_findings.txt)
            cen = psi.centre(n, x, y)
            clon, clat = (float(v_) for v_ in lattice.vec_to_lonlat(cen))
            try:
                lk = toast.toast_tile_for_point(n, clat, clon, coordsys=cs)
                ctx.count()
                if tuple(lk.pos) != (n, x, y):
                    ctx.violation("C04:route:lookup-deep", "point lookup of the centre of tile (%d, %d, %d) [%s] returns tile %s" % (n, x, y, csname, tuple(lk.pos)), {"pos": (n, x, y), "cs": csname})
                elif float(np.abs(toastlat.tile_vecs(lk) - toastlat.tile_vecs(one)).max()) > XTOL:
                    ctx.violation("C04:route:lookup-deep", "tile (%d, %d, %d) [%s] from point lookup and from single-tile construction have different corners" % (n, x, y, csname), {"pos": (n, x, y), "cs": csname})
            except Exception as e:  # noqa
                ctx.violation("C04:route:lookup-deep", "toast_tile_for_point raised %r for the centre of (%d, %d, %d) [%s]" % (e, n, x, y, csname), {"pos": (n, x, y), "cs": csname})
        if n < 30:
            # nesting at this depth: the four children tile the parent (shared corners / edge midpoints identical)
            ov = toastlat.tile_vecs(one)
            for i, kid in enumerate(toast._div4(one)):
                kv = toastlat.tile_vecs(kid)
                if float(np.abs(kv[i if i < 2 else (5 - i)] - ov[i if i < 2 else (5 - i)]).max()) > 1e-15 * 64:
                    ctx.violation("C04:div4:deep-nesting", "child %d of tile (%d, %d, %d) [%s] does not keep the parent's corner" % (i, n, x, y, csname), {"pos": (n, x, y), "cs": csname})
                    break
    ctx.note("worst_deviation", worst)
    ctx.sample({"tile": list(t.tiles[len(t.tiles) // 2]["pos"]), "lattice_corners": t.tiles[len(t.tiles) // 2]["c"], "increasing": t.tiles[len(t.tiles) // 2]["inc"], "R": t.R})
    ctx.sample({"def_table_entry": t.defs[len(t.defs) // 3]})
    ctx.assume("normalize(a + b) is the great-circle midpoint of two unit vectors (the only numeric primitive connecting the lattice to the sphere)")
    ctx.assume("lib/lattice.def_pair is validated against TLC's Def table for the whole lattice at refinement R on every run and used in closed form deeper")
    ctx.assume("area clause: whole levels are summed against 4 pi to depth 4 (quick) / 6 (thorough) only (4^n tiles); below that the parts of single tiles are summed "
               "(children, and generations to 1024 descendants) for tiles TLC picks next to the fold lines, to depth 20 / 22, with a tolerance that follows the measured "
               "rounding of toast_tile_area's arccos-based formula (fourfold per level; see deep_area_tolerance) - beyond depth ~22 that formula has no digits left")
