"""G01 - growth specification (DESIGN.md section 7): the whole ingest pipeline workflow.

Spec: spec/Pipeline.tla - the life cycle of an image id across the work-directory areas (candidates, cache_todo,
cache_done, rejects, processed, approved, published) and the destination store (data files, index.wtml, skip.flag)
as a state machine whose actions are the `toasty pipeline` command lines (refresh, fetch ID, process-todos, approve ID,
publish, ignore-rejects), the documented manual re-queue (mv cache_done/ID cache_todo/ID) and the source offering a
new image.  Each command is the fold of its per-image step over the images it visits, in visiting order; a step that
raises ends the run.  publish is one atomic step per image here (spec/Publish.tla, property C18, is what happens inside).
Constants: Careful (operator discipline = my reading of the documented order of work), RejectAtRefresh ("recorded" =
the evident intention of refresh_impl's NotActionableError handler, "aborts" = what it does as written), ListingOrder.

TLC (a) proves for the careful operator: the core sentences (TodoHasCandidate, OutputWasFetched, PublishedInStore,
RejectsApart, OnlyRejectsFlagged, OnlyActionablePublished, DirsExist, OnlyOffered, Idempotent), the exclusivity
sentences (ExclusiveCache, ExclusiveOutput, NoRework, PublishedNotRequeued, NeverWedged), the action property Flow
(nothing approved before processed, published before approved; NoComeback: refresh never records an image whose
index.wtml / skip.flag is in the store; the store and published/ only grow) and liveness under fairness of the
operator's commands (OkPublished, RejectFlagged); (b) proves the core sentences and Flow for EVERY interleaving of
commands (Careful = FALSE) and dumps that complete graph: every state with every command line that can be typed in
it, the command's outcome and successor; (c) is expected to REFUTE OkPublished for the unrestricted operator (fixed
listing order) and for refresh_impl as written - the counterexamples are read back and replayed on the real code.

Binding (spec -> code, complete for the tier's id sets): the graph of (b) is walked level by level; a node is
(spec state, byte contents of work dir + store + feed); from every node EVERY outgoing command is executed by the real
code (cli.refresh_impl / fetch_impl / approve_impl, cli.pipeline_impl for process-todos / publish / ignore-rejects) in
a scratch work dir created by the real `pipeline init`, with a local store and a fake image source implemented here
(feed file; save() / fetch_candidate() raising NotActionableError for the not-actionable kinds; process() tiling a
real 8x8 image through the real Builder); os.listdir returns cache_todo/ and approved/ in the order of the
behaviour.  After every command the projection of the real directories and of the real store, and the command's
outcome (returned / raised), are compared with TLC's successor state (difference = CONFORMANCE-DRIFT, path not
continued).  The documented promises of each command (docs/cli/pipeline-*.rst) are evaluated on the REAL directories
after every command - these are the VIOLATION monitors (keys below).  `./check G01 --replay FILE` re-executes one
recorded command sequence.
"""
import contextlib
import hashlib
import io
import json
import os
import pickle
import re
import shutil
import types
import xml.etree.ElementTree as ET

from lib import repo, tla

AREAS = ["candidates", "cache_todo", "cache_done", "rejects", "processed", "approved", "published"]
FILE_AREAS = ("candidates", "rejects")
PREFIX = "http://example.org/feed/"
SRC = "_g01_fake"
PIPE_CFG = "toasty-pipeline-config.yaml"
STORE_CFG = "toasty-store-config.yaml"

# what the documentation promises (docs/cli/pipeline-*.rst), evaluated on the real directories
K_IGNORED_BACK = "G01:refresh:ignored-image-offered-again"          # ignore-rejects.rst "Subsequent invocations of refresh will ignore these images"
K_PUBLISHED_BACK = "G01:refresh:published-image-offered-again"      # pipeline.rst "Query the source for new images"; refresh: "already done"
K_FETCH_REJECT = "G01:fetch:not-actionable-not-rejected"            # fetch.rst "Such candidates will be discarded ... moved into the rejects subdirectory"
K_FETCH_CACHE = "G01:fetch:no-cache-dir"                            # fetch.rst "a sub-subdirectory is created in the cache_todo subdirectory"
K_PROCESS_MOVE = "G01:process-todos:cache-not-moved"                # process-todos.rst "the source image data will be moved to the cache_done directory"
K_PROCESS_OUT = "G01:process-todos:no-processed-output"             # "... the processed data will be populated inside a subfolder of processed"
K_APPROVE_UNPROCESSED = "G01:approve:not-processed-approved"        # approve.rst "The specified images must be in the processed state"
K_APPROVE_MOVE = "G01:approve:not-moved"                            # "the specified images will be moved to the approved state"
K_APPROVE_INDEX = "G01:approve:index-wtml"                          # "will create a index.wtml ... derive from index_rel.wtml but insert the final absolute URLs"
K_PUBLISH_INCOMPLETE = "G01:publish:published-without-upload"       # publish.rst "This will only happen if the image uploads fully"
K_PUBLISH_MOVE = "G01:publish:not-moved"                            # "All images in the approved state will be uploaded ... moved ... to the published state"
K_IGNORE = "G01:ignore-rejects:refresh-still-offers"                # ignore-rejects.rst, the same sentence, probed right after the command

CORE_INV = ["TypeOK", "TodoHasCandidate", "OutputWasFetched", "PublishedInStore", "RejectsApart", "OnlyRejectsFlagged",
            "OnlyActionablePublished", "DirsExist", "OnlyOffered", "Idempotent"]
CAREFUL_INV = ["ExclusiveCache", "ExclusiveOutput", "NoRework", "PublishedNotRequeued", "NeverWedged"]
LIVENESS = ["OkPublished", "RejectFlagged"]


# ------------------------------------------------------------------------------------------------
# TLC side
# ------------------------------------------------------------------------------------------------

def mc_module(name, model):
    """spec/MCPipeline.tla with the module name, the ids, their kinds, the feed order and the fixed listing order replaced."""
    from lib.core import SPEC_DIR
    text = open(os.path.join(SPEC_DIR, "MCPipeline.tla")).read()
    subs = [(r"MODULE MCPipeline\b", "MODULE " + name),
            (r"MCIds == .*", "MCIds == " + tla.lit(set(model["ids"]))),
            (r"MCKind == .*", "MCKind == " + tla.lit({i: model["kind"][i] for i in model["ids"]})),
            (r"MCFeed == .*", "MCFeed == " + tla.lit(list(model["feed"]))),
            (r"MCFixed == .*", "MCFixed == " + tla.lit(list(model.get("fixed") or model["feed"])))]
    for pat, rep in subs:
        text, n = re.subn(pat, lambda m: rep, text, count=1)
        if n != 1:
            raise RuntimeError("spec/MCPipeline.tla does not have the expected shape (%s)" % pat)
    return text


def cfg(careful, reject, fixed=False, invariants=(), properties=(), emit=False, alias=False):
    lines = ["SPECIFICATION Spec", "CONSTANTS", " Ids <- MCIds", " Kind <- MCKind", " Feed <- MCFeed",
             " Careful = %s" % ("TRUE" if careful else "FALSE"), ' RejectAtRefresh = "%s"' % reject,
             " ListingOrder <- %s" % ("MCFixed" if fixed else "MCFree")]
    lines += ["INVARIANT " + i for i in invariants]
    lines += ["PROPERTY " + p for p in properties]
    if emit:
        lines.append("INVARIANT EmitState")
    if alias:
        lines.append("ALIAS TraceAlias")
    lines.append("CHECK_DEADLOCK FALSE")
    return "\n".join(lines) + "\n"


def canon(s):
    return {"offered": sorted(s["offered"]), "area": {a: sorted(s["area"][a]) for a in AREAS},
            "dirs": sorted(s["dirs"]), "store": {i: sorted(s["store"][i]) for i in sorted(s["store"])}}


def skey(s):
    return json.dumps(s, sort_keys=True, separators=(",", ":"))


def cmd_text(c):
    if c["cmd"] in ("fetch", "approve"):
        return "%s %s" % (c["cmd"], c["id"])
    if c["cmd"] == "requeue":
        return "mv cache_done/%s cache_todo/%s" % (c["id"], c["id"])
    if c["cmd"] == "appear":
        return "(source now offers %s)" % c["id"]
    if c["cmd"] in ("process-todos", "publish") and len(c["order"]) > 1:
        return "%s [listing %s]" % (c["cmd"], ",".join(c["order"]))
    return c["cmd"]


class Graph(object):
    """What TLC printed: every distinct state with TLC's evaluation of the sentences in it and, for every command line
    that can be typed in it, the outcome and the successor state."""

    def __init__(self, recs, model):
        self.model = model
        self.state, self.sent, self.succ = {}, {}, {}
        for r in recs:
            s = canon(r["s"])
            k = skey(s)
            self.state[k] = s
            self.sent[k] = r["sent"]
            out = []
            for e in r["succ"]:
                c = {"cmd": e["c"]["cmd"], "id": e["c"]["id"], "order": list(e["c"]["order"])}
                out.append((c, e["out"], skey(canon(e["t"]))))
            out.sort(key=lambda t: (t[0]["cmd"], t[0]["id"], t[0]["order"]))
            self.succ[k] = out
        self.root = skey(canon({"offered": [], "area": {a: [] for a in AREAS}, "dirs": [],
                                "store": {i: [] for i in model["ids"]}}))
        self.nedges = sum(len(v) for v in self.succ.values())

    def check(self, ctx, r):
        if len(self.state) != r.distinct:
            ctx.machinery("state dump incomplete: %d states printed, TLC found %d distinct states" % (len(self.state), r.distinct))
        if self.root not in self.state:
            ctx.machinery("the initial state is not in the dump")
        for k, out in self.succ.items():
            for c, o, t in out:
                if t not in self.state:
                    ctx.machinery("dump: successor of a state is not a printed state")

    def shortest_path(self, pred, edge_ok=None):
        """Command sequence of a shortest path from the initial state to a state satisfying pred(key) (None if none),
        using only the edges for which edge_ok(state, command) holds."""
        seen = {self.root: None}
        queue = [self.root]
        while queue:
            nxt = []
            for k in queue:
                if pred(k):
                    path = []
                    while seen[k] is not None:
                        k, c, o = seen[k]
                        path.append((c, o))
                    return list(reversed(path))
                for c, o, t in self.succ[k]:
                    if t not in seen and (edge_ok is None or edge_ok(self.state[k], c)):
                        seen[t] = (k, c, o)
                        nxt.append(t)
            queue = nxt
        return None

    def label(self, a, b):
        """The command lines that lead from state a to state b."""
        return [(c, o) for c, o, t in self.succ.get(a, ()) if t == b]


def _follow(g, cmds):
    k = g.root
    for c in cmds:
        k = [t for cc, o, t in g.succ[k] if cc == c][0]
    return k


def parse_trace(output):
    """The states of a TLC counterexample printed through ALIAS TraceAlias, and where the lasso closes."""
    states, back = [], None
    for line in output.splitlines():
        m = re.match(r'\s*(?:/\\ )?json = (".*")\s*$', line)
        if m:
            states.append(skey(canon(json.loads(json.loads(m.group(1))))))
            continue
        m = re.match(r"Back to state (\d+)", line)
        if m:
            back = int(m.group(1))
        elif re.match(r"State \d+: Stuttering", line):
            back = "stuttering"
    return states, back


# ------------------------------------------------------------------------------------------------
# real-code side
# ------------------------------------------------------------------------------------------------

_SRC = {"feed": None, "saved": None}


def _register_source():
    from toasty import pipeline
    if SRC in pipeline.IMAGE_SOURCE_CLASS_LOADERS:
        return

    class Cand(pipeline.CandidateInput):
        def __init__(self, uid, kind):
            self.uid, self.kind = uid, kind

        def get_unique_id(self):
            return self.uid

        def save(self, stream):
            if _SRC["saved"] is not None:
                _SRC["saved"].append(self.uid)
            if self.kind == "nosave":
                raise pipeline.NotActionableError("cannot ingest images in non-TAN projections")
            stream.write(json.dumps({"id": self.uid, "kind": self.kind}).encode())

    class Source(pipeline.ImageSource):
        @classmethod
        def get_config_key(cls):
            return SRC

        @classmethod
        def deserialize(cls, data):
            return cls()

        def query_candidates(self):
            with open(_SRC["feed"]) as f:
                feed = json.load(f)
            for uid, kind in feed:
                yield Cand(uid, kind)

        def fetch_candidate(self, unique_id, cand_data_stream, cachedir):
            info = json.load(cand_data_stream)
            if info["kind"] != "ok":
                raise pipeline.NotActionableError("image does not have full WCS")      # before anything is downloaded
            import numpy as np
            from PIL import Image
            Image.fromarray(np.full((8, 8, 3), 200, dtype=np.uint8)).save(os.path.join(cachedir, "image.png"))

        def process(self, unique_id, cand_data_stream, cachedir, builder):
            from toasty.image import ImageLoader
            json.load(cand_data_stream)
            img = ImageLoader().load_path(os.path.join(cachedir, "image.png"))
            builder.tile_base_as_study(img)
            builder.make_thumbnail_from_other(img)
            builder.set_name(unique_id)

    pipeline.IMAGE_SOURCE_CLASS_LOADERS[SRC] = lambda: Source


def _read(p):
    with open(p, "rb") as f:
        return f.read()


class Bench(object):
    """A scratch work dir (made by the real `pipeline init`), a local store and a feed file, on which single commands
    of the real pipeline are executed."""

    def __init__(self, root, model, via_entrypoint=False):
        repo.setup()
        from toasty import cli, pipeline
        from toasty.pipeline import cli as pcli
        _register_source()
        self.cli, self.pipeline, self.pcli = cli, pipeline, pcli
        self.model = model
        self.via_entrypoint = via_entrypoint
        self.root = root
        self.work = os.path.join(root, "work")
        self.store = os.path.join(root, "store")
        self.feed = os.path.join(root, "feed.json")
        os.makedirs(self.store)
        with open(os.path.join(self.store, PIPE_CFG), "w") as f:
            f.write("source_type: %s\npublish_url_prefix: %s\n%s:\n  note: the feed is a file of the harness\n" % (SRC, PREFIX, SRC))
        with open(self.feed, "w") as f:
            f.write("[]")
        with self._quiet():
            if via_entrypoint:
                cli.entrypoint(["pipeline", "init", "--local", self.store, self.work])
            else:
                pcli.init_impl(types.SimpleNamespace(local=self.store, workdir=self.work, azure_conn_env=None,
                                                     azure_container=None, azure_path_prefix=None))
        self._listdir = os.listdir
        self.current = None
        self.dirty = True
        self.snapshot()

    @staticmethod
    @contextlib.contextmanager
    def _quiet():
        with contextlib.redirect_stdout(io.StringIO()), contextlib.redirect_stderr(io.StringIO()):
            yield

    # ---- disk state --------------------------------------------------------------------------
    def _constant(self, rel):
        return rel in ("work/" + STORE_CFG, "store/" + PIPE_CFG)

    def snapshot(self):
        snap = {"feed.json": _read(self.feed)}
        for top in ("work", "store"):
            base = os.path.join(self.root, top)
            for dp, dns, fns in os.walk(base):
                rel = os.path.relpath(dp, self.root)
                if dp != base:
                    snap[rel] = None
                for fn in fns:
                    r = rel + "/" + fn
                    if not self._constant(r):
                        snap[r] = _read(os.path.join(dp, fn))
        self.current = dict(snap)
        self.dirty = False
        return snap

    def restore(self, snap):
        if self.dirty:
            self.snapshot()
        cur = self.current
        for rel in sorted(cur, reverse=True):
            if rel not in snap or (snap[rel] is None) != (cur[rel] is None):
                p = os.path.join(self.root, rel)
                if cur[rel] is None:
                    os.rmdir(p)
                else:
                    os.remove(p)
        for rel in sorted(snap):
            if rel in cur and cur[rel] == snap[rel] and (snap[rel] is None) == (cur[rel] is None):
                continue
            p = os.path.join(self.root, rel)
            if snap[rel] is None:
                os.makedirs(p, exist_ok=True)
            else:
                with open(p, "wb") as f:
                    f.write(snap[rel])
        self.current = dict(snap)

    @staticmethod
    def digest(snap):
        h = hashlib.sha1()
        for k in sorted(snap):
            h.update(k.encode())
            h.update(b"\0" if snap[k] is None else b"\1" + snap[k])
            h.update(b"\n")
        return h.hexdigest()

    # ---- projection of the real directories and store onto the spec's variables -----------------
    def _local_files(self, area, uid):
        d = os.path.join(self.work, area, uid)
        if not os.path.isdir(d):
            return None
        return {fn: _read(os.path.join(d, fn)) for fn in self._listdir(d) if os.path.isfile(os.path.join(d, fn))}

    def store_complete(self, uid, area):
        """Every file of <area>/<uid> is in the store, byte for byte; returns the list of the ones that are not."""
        files = self._local_files(area, uid) or {}
        bad = []
        for fn, data in sorted(files.items()):
            p = os.path.join(self.store, uid, fn)
            if not os.path.isfile(p) or _read(p) != data:
                bad.append(fn)
        return bad

    def project(self):
        with open(self.feed) as f:
            offered = sorted(uid for uid, kind in json.load(f))
        area, dirs = {}, []
        for a in AREAS:
            d = os.path.join(self.work, a)
            area[a] = []
            if os.path.isdir(d):
                dirs.append(a)
                for e in sorted(self._listdir(d)):
                    isdir = os.path.isdir(os.path.join(d, e))
                    area[a].append(e if isdir == (a not in FILE_AREAS) else e + ("/" if isdir else " (a file)"))
        store = {i: [] for i in self.model["ids"]}
        for e in sorted(self._listdir(self.store)):
            if e == PIPE_CFG:
                continue
            d = os.path.join(self.store, e)
            if not os.path.isdir(d):
                store[e + " (a file)"] = []
                continue
            names = set(self._listdir(d))
            items = []
            if "index.wtml" in names:
                items.append("index")
            if "skip.flag" in names:
                items.append("flag")
            others = names - {"index.wtml", "skip.flag"}
            if others:
                ok = False
                for a in ("published", "approved", "processed"):
                    loc = self._local_files(a, e)
                    if loc is not None:
                        loc.pop("index.wtml", None)
                        if set(loc) == others and all(_read(os.path.join(d, fn)) == loc[fn] for fn in loc):
                            ok = True
                            break
                items.append("data" if ok else "other: " + ",".join(sorted(others)))
            store[e] = sorted(items)
        return {"offered": offered, "area": area, "dirs": sorted(dirs), "store": store}

    # ---- one command ------------------------------------------------------------------------------
    def run_cmd(self, c):
        """Execute one command line on the real code; returns {'out', 'error', 'saved', 'listing'}."""
        NS = types.SimpleNamespace
        res = {"out": "ok", "error": None, "saved": None, "listing": None}
        cmd = c["cmd"]
        self.dirty = True
        if cmd == "appear":
            with open(self.feed) as f:
                offered = {uid for uid, kind in json.load(f)} | {c["id"]}
            with open(self.feed, "w") as f:
                json.dump([[i, self.model["kind"][i]] for i in self.model["feed"] if i in offered], f)
            return res
        if cmd == "requeue":
            try:
                os.rename(os.path.join(self.work, "cache_done", c["id"]), os.path.join(self.work, "cache_todo", c["id"]))
            except OSError as e:       # only when the real directories have already left the spec
                res["out"], res["error"] = "error", "%s: mv failed" % type(e).__name__
            return res
        _SRC["feed"] = self.feed
        _SRC["saved"] = saved = []
        target = {"process-todos": "cache_todo", "publish": "approved"}.get(cmd)
        target = os.path.normpath(os.path.join(self.work, target)) if target else None
        real_listdir = self._listdir

        def listdir(path="."):
            real = real_listdir(path)
            try:
                p = os.path.normpath(os.fspath(path))
            except TypeError:
                return real
            if p == target:
                if sorted(real) == sorted(c["order"]) and res["listing"] is None:
                    res["listing"] = "imposed"
                    return list(c["order"])
                res["listing"] = "differs: real %s, behaviour %s" % (sorted(real), list(c["order"]))
            return real
        os.listdir = listdir
        try:
            with self._quiet():
                if self.via_entrypoint:
                    argv = ["pipeline", cmd, "--workdir", self.work] + ([c["id"]] if cmd in ("fetch", "approve") else [])
                    self.cli.entrypoint(argv)
                elif cmd == "refresh":
                    self.pcli.refresh_impl(NS(workdir=self.work))
                elif cmd == "fetch":
                    self.pcli.fetch_impl(NS(workdir=self.work, cand_ids=[c["id"]]))
                elif cmd == "approve":
                    self.pcli.approve_impl(NS(workdir=self.work, cand_ids=[c["id"]]))
                elif cmd in ("process-todos", "publish", "ignore-rejects"):
                    self.pcli.pipeline_impl(NS(workdir=self.work, pipeline_command=cmd))
                else:
                    raise RuntimeError("unknown command %r" % (c,))
        except SystemExit as e:
            res["out"], res["error"] = "error", "exit status %s" % (e.code,)
        except Exception as e:  # noqa - the command died
            res["out"], res["error"] = "error", "%s: %s" % (type(e).__name__, str(e).replace(self.work + os.sep, "").replace(self.root, "<root>"))
        finally:
            os.listdir = real_listdir
            _SRC["saved"] = None
        res["saved"] = saved
        return res

    # ---- the documented promises, on the real directories ---------------------------------------------
    def monitors(self, c, res, pre, post):
        kind = self.model["kind"]
        cmd, uid = c["cmd"], c["id"]
        alarms = []

        def has(state, a, i):
            return i in state["area"][a]
        if cmd == "refresh":
            ignored = [i for i in res["saved"] if has(pre, "rejects", i) and "flag" in pre["store"].get(i, ())]
            if ignored:
                alarms.append((K_IGNORED_BACK, "refresh examined %s again as a candidate although ignore-rejects marked %s (rejects/ entry and "
                               "skip.flag in the store)" % (ignored, "it" if len(ignored) == 1 else "them")))
            again = [i for i in res["saved"] if has(pre, "published", i) and not self.store_complete(i, "published")]
            if again:
                alarms.append((K_PUBLISHED_BACK, "refresh recorded %s as a candidate although it is published (all its files and index.wtml are in the store)" % again))
        elif cmd == "fetch" and has(pre, "candidates", uid):
            if kind.get(uid) == "ok":
                if res["out"] == "ok" and not has(post, "cache_todo", uid):
                    alarms.append((K_FETCH_CACHE, "fetch %s returned but there is no directory cache_todo/%s" % (uid, uid)))
            elif has(post, "candidates", uid) or has(post, "cache_todo", uid) or not has(post, "rejects", uid):
                alarms.append((K_FETCH_REJECT, "fetch of the not-actionable candidate %s left candidates=%s cache_todo=%s rejects=%s"
                               % (uid, post["area"]["candidates"], post["area"]["cache_todo"], post["area"]["rejects"])))
        elif cmd == "process-todos" and res["out"] == "ok":
            queued = pre["area"]["cache_todo"]
            left = [i for i in queued if has(post, "cache_todo", i) or not has(post, "cache_done", i)]
            if left or post["area"]["cache_todo"]:
                alarms.append((K_PROCESS_MOVE, "process-todos returned; of the queued %s, cache_todo still holds %s and cache_done holds %s"
                               % (queued, post["area"]["cache_todo"], post["area"]["cache_done"])))
            noout = [i for i in queued if not os.path.isfile(os.path.join(self.work, "processed", i, "index_rel.wtml"))]
            if noout:
                alarms.append((K_PROCESS_OUT, "process-todos returned but processed/%s/index_rel.wtml does not exist" % noout[0]))
        elif cmd == "approve":
            new = [i for i in post["area"]["approved"] if not has(pre, "approved", i)]
            bad = [i for i in new if not has(pre, "processed", i)]
            if bad or (res["out"] == "ok" and not has(pre, "processed", uid)):
                alarms.append((K_APPROVE_UNPROCESSED, "approve %s %s while processed/ held %s: approved/ now holds %s"
                               % (uid, "returned" if res["out"] == "ok" else "raised", pre["area"]["processed"], post["area"]["approved"])))
            elif res["out"] == "ok":
                if not has(post, "approved", uid) or has(post, "processed", uid):
                    alarms.append((K_APPROVE_MOVE, "approve %s returned; processed=%s approved=%s" % (uid, post["area"]["processed"], post["area"]["approved"])))
                else:
                    why = self.index_derivation(uid)
                    if why:
                        alarms.append((K_APPROVE_INDEX, "approve %s: %s" % (uid, why)))
        elif cmd == "publish":
            for i in post["area"]["published"]:
                bad = self.store_complete(i, "published") if os.path.isdir(os.path.join(self.work, "published", i)) else []
                if bad:
                    alarms.append((K_PUBLISH_INCOMPLETE, "after publish the directory of %s is in published/ while %s of it %s not (or not completely) in the store"
                                   % (i, bad, "is" if len(bad) == 1 else "are")))
            if res["out"] == "ok":
                left = [i for i in pre["area"]["approved"] if has(post, "approved", i) or not has(post, "published", i)]
                if left:
                    alarms.append((K_PUBLISH_MOVE, "publish returned; approved/ held %s, now approved=%s published=%s"
                                   % (pre["area"]["approved"], post["area"]["approved"], post["area"]["published"])))
        elif cmd == "ignore-rejects" and res["out"] == "ok" and pre["area"]["rejects"]:
            keep = self.snapshot()
            probe = self.run_cmd({"cmd": "refresh", "id": "-", "order": []})
            self.restore(keep)
            back = [i for i in probe["saved"] if has(pre, "rejects", i)]
            if back:
                alarms.append((K_IGNORE, "ignore-rejects returned with rejects/ holding %s; the next refresh examined %s as a candidate again"
                               % (pre["area"]["rejects"], back)))
        return alarms

    def index_derivation(self, uid):
        """approved/<uid>/index.wtml = index_rel.wtml with every relative URL made absolute below <prefix><uid>/."""
        d = os.path.join(self.work, "approved", uid)
        try:
            rel = ET.parse(os.path.join(d, "index_rel.wtml")).getroot()
            ab = ET.parse(os.path.join(d, "index.wtml")).getroot()
        except (OSError, ET.ParseError) as e:
            return "approved/%s has no readable index.wtml / index_rel.wtml (%s)" % (uid, type(e).__name__)
        ra, aa = list(rel.iter()), list(ab.iter())
        if [e.tag for e in ra] != [e.tag for e in aa]:
            return "index.wtml does not have the elements of index_rel.wtml"
        nurl = 0
        for r, a in zip(ra, aa):
            pairs = [(k, r.attrib.get(k), a.attrib.get(k)) for k in sorted(set(r.attrib) | set(a.attrib))]
            pairs.append(("text", (r.text or "").strip(), (a.text or "").strip()))
            for k, rv, av in pairs:
                is_url = k in ("Url", "Thumbnail") or (k == "text" and r.tag == "ThumbnailUrl")
                if is_url and rv:
                    nurl += 1
                    if av != PREFIX + uid + "/" + rv:
                        return "%s %s of index.wtml is %r, index_rel.wtml has %r (prefix %s)" % (r.tag, k, av, rv, PREFIX)
                elif rv != av:
                    return "%s %s differs between index.wtml (%r) and index_rel.wtml (%r)" % (r.tag, k, av, rv)
        if nurl == 0:
            return "index_rel.wtml carries no URL"
        return None


def compare(real, spec, res, spec_out):
    """None, or how the real post-state / outcome differs from TLC's successor."""
    if real != spec:
        diffs = []
        for k in ("offered", "dirs"):
            if real[k] != spec[k]:
                diffs.append("%s real %s spec %s" % (k, real[k], spec[k]))
        for a in AREAS:
            if real["area"][a] != spec["area"][a]:
                diffs.append("%s/ real %s spec %s" % (a, real["area"][a], spec["area"][a]))
        for i in sorted(set(real["store"]) | set(spec["store"])):
            if real["store"].get(i) != spec["store"].get(i):
                diffs.append("store %s real %s spec %s" % (i, real["store"].get(i), spec["store"].get(i)))
        return "; ".join(diffs)
    if res["out"] != spec_out:
        return "the command %s, spec outcome is %r" % ("returned" if res["out"] == "ok" else "died (%s)" % res["error"], spec_out)
    if res["listing"] is not None and res["listing"] != "imposed":
        return "directory listing " + res["listing"]
    return None


# ------------------------------------------------------------------------------------------------
# the walk over every edge of the graph
# ------------------------------------------------------------------------------------------------

_G = {}          # gid -> Graph (set before the pool forks)
_W = {}          # per process: gid -> Bench
_SNAPS = {}      # per process cache: digest -> snapshot


def _snap_path(base, dg):
    return os.path.join(base, "snaps", dg + ".pkl")


def _load_snap(base, dg):
    s = _SNAPS.get((base, dg))
    if s is None:
        with open(_snap_path(base, dg), "rb") as f:
            s = pickle.load(f)
        if len(_SNAPS) > 4000:
            _SNAPS.clear()
        _SNAPS[(base, dg)] = s
    return s


def _save_snap(base, dg, snap):
    if (base, dg) in _SNAPS:
        return
    p = _snap_path(base, dg)
    if not os.path.exists(p):
        tmp = "%s.%d" % (p, os.getpid())
        with open(tmp, "wb") as f:
            pickle.dump(snap, f, protocol=4)
        os.replace(tmp, p)
    _SNAPS[(base, dg)] = snap


def _graph(gid, base):
    g = _G.get(gid)
    if g is None:
        with open(os.path.join(base, "graph.pkl"), "rb") as f:
            g = _G[gid] = pickle.load(f)
    return g


def _bench(gid, base):
    b = _W.get(gid)
    if b is None:
        b = _W[gid] = Bench(os.path.join(base, "w-%s-%d" % (gid, os.getpid())), _graph(gid, base).model)
    return b


def _expand(args):
    """Execute every outgoing command of the node (spec state key, disk digest) on the real code."""
    gid, base, key, dg = args
    g = _graph(gid, base)
    b = _bench(gid, base)
    snap = _load_snap(base, dg)
    out = {"runs": 0, "children": [], "drifts": [], "alarms": [], "errors": {}, "flags": []}
    pre = None
    for n, (c, spec_out, tkey) in enumerate(g.succ[key]):
        b.restore(snap)
        if pre is None:
            pre = b.project()
        res = b.run_cmd(c)
        out["runs"] += 1
        post = b.project()
        for k, msg in b.monitors(c, res, pre, post):
            out["alarms"].append((n, k, msg, post))
        why = compare(post, g.state[tkey], res, spec_out)
        if why:
            out["drifts"].append((n, why))
            continue
        if res["out"] == "error":
            e = "%s: %s" % (c["cmd"], re.sub(r"'[^']*'", "'...'", res["error"]))
            out["errors"][e] = out["errors"].get(e, 0) + 1
        after = b.snapshot()
        d2 = Bench.digest(after)
        if (tkey, d2) != (key, dg):
            _save_snap(base, d2, after)
            out["children"].append((n, tkey, d2))
    return out


_FAST = {}


def fast_tmp(ctx, name):
    """A scratch directory for the work dirs / stores the real commands run on.  The commands are all file-system
    operations and /tmp (ext4, discard) needs ~3 ms per mkdir/rmdir here against 0.04 ms on tmpfs: when /dev/shm is
    usable the directory is made there (removed at the end of run(), and at interpreter exit), else under ctx.scratch."""
    if "root" not in _FAST:
        import atexit
        import tempfile
        root = None
        if os.path.isdir("/dev/shm") and os.access("/dev/shm", os.W_OK):
            try:
                root = tempfile.mkdtemp(prefix="verif-g01-", dir="/dev/shm")
                atexit.register(shutil.rmtree, root, True)
            except OSError:
                root = None
        _FAST["root"] = root
    if _FAST["root"] is None:
        return ctx.mkdtemp(name)
    import tempfile
    return tempfile.mkdtemp(prefix=name + "-", dir=_FAST["root"])


def fast_cleanup():
    root = _FAST.pop("root", None)
    if root:
        shutil.rmtree(root, ignore_errors=True)


def walk(ctx, pool, gid, graph, tag):
    """Level-synchronised walk over the product of the spec graph and the real disk contents."""
    base = fast_tmp(ctx, "walk-" + gid)
    os.makedirs(os.path.join(base, "snaps"))
    with open(os.path.join(base, "graph.pkl"), "wb") as f:
        pickle.dump(graph, f, protocol=4)
    b0 = Bench(os.path.join(base, "root"), graph.model)
    snap0 = b0.snapshot()
    d0 = Bench.digest(snap0)
    _save_snap(base, d0, snap0)
    real0 = b0.project()
    if real0 != graph.state[graph.root]:
        ctx.drift("%s: after `pipeline init` the work dir projects to %s, the spec's initial state is %s" % (tag, real0, graph.state[graph.root]))
    pred = {(graph.root, d0): None}
    frontier = [(graph.root, d0)]
    agg = {"runs": 0, "nodes": 0, "levels": 0, "drift_edges": 0, "error_outcomes": {},
           "spec_states_reached": set(), "edges_covered": set()}
    found = {}

    def path_to(node, upto=None):
        cmds = []
        while pred[node] is not None:
            node, c = pred[node]
            cmds.append(c)
        return list(reversed(cmds))

    while frontier:
        agg["levels"] += 1
        agg["nodes"] += len(frontier)
        results = pool.map(_expand, [(gid, base, k, dg) for k, dg in frontier], chunksize=4)
        nxt = []
        for node, r in zip(frontier, results):
            agg["runs"] += r["runs"]
            agg["spec_states_reached"].add(node[0])
            edges = graph.succ[node[0]]
            for n in range(len(edges)):
                agg["edges_covered"].add((node[0], n))
            for e, cnt in r["errors"].items():
                agg["error_outcomes"][e] = agg["error_outcomes"].get(e, 0) + cnt
            for n, why in r["drifts"]:
                agg["drift_edges"] += 1
                cmds = path_to(node) + [edges[n][0]]
                ctx.drift("%s: after [%s] %s" % (tag, "; ".join(cmd_text(c) for c in cmds), why))
            for n, k, msg, post in r["alarms"]:
                f = found.get(k)
                if f is None:
                    cmds = path_to(node) + [edges[n][0]]
                    found[k] = [1, "%s (after: %s)" % (msg, "; ".join(cmd_text(c) for c in cmds)),
                                {"model": graph.model, "commands": cmds, "observed": post}]
                else:
                    f[0] += 1
            for n, tkey, d2 in r["children"]:
                child = (tkey, d2)
                if child not in pred:
                    pred[child] = (node, edges[n][0])
                    nxt.append(child)
        frontier = sorted(nxt)
    for k in sorted(found):
        n, msg, rep = found[k]
        rep["edges_with_this_finding"] = n
        ctx.violation(k, msg, rep)
    ctx.count(agg["runs"])
    ctx.trace_ok(agg["runs"])
    return agg, pred


def replay_commands(ctx, root, model, cmds, graph=None, via_entrypoint=False, verbose=False, judge=True):
    """Execute a command sequence on a fresh work dir; with a graph, follow the spec alongside.  Returns the steps."""
    b = Bench(root, model, via_entrypoint=via_entrypoint)
    key = graph.root if graph is not None else None
    steps = []
    synced = graph is not None
    for c in cmds:
        pre = b.project()
        res = b.run_cmd(c)
        ctx.count()
        post = b.project()
        alarms = b.monitors(c, res, pre, post) if judge else []
        step = {"cmd": cmd_text(c), "outcome": res["out"] if res["out"] == "ok" else "died: %s" % res["error"], "alarms": alarms}
        if synced:
            nxt = [(o, t) for cc, o, t in graph.succ[key] if cc == c]
            if not nxt:
                step["spec"] = "not a command of the spec in this state"
                synced = False
            else:
                why = compare(post, graph.state[nxt[0][1]], res, nxt[0][0])
                step["spec"] = why or "agrees"
                key = nxt[0][1]
                if why:
                    synced = False
        steps.append(step)
        if verbose:
            print("%-40s -> %s" % (step["cmd"], step["outcome"]))
            print("     real: %s" % json.dumps({"area": {a: v for a, v in post["area"].items() if v}, "store": {i: v for i, v in post["store"].items() if v}}, sort_keys=True))
            if "spec" in step:
                print("     spec: %s" % step["spec"])
    return b, steps, synced


def probe_refresh_reject(ctx):
    """What does the real refresh do with a candidate whose save() raises NotActionableError, followed by another one?"""
    model = {"ids": ["imgC", "imgA"], "kind": {"imgC": "nosave", "imgA": "ok"}, "feed": ["imgC", "imgA"]}
    b = Bench(os.path.join(fast_tmp(ctx, "probe"), "p"), model)
    for i in model["feed"]:
        b.run_cmd({"cmd": "appear", "id": i, "order": []})
    res = b.run_cmd({"cmd": "refresh", "id": "-", "order": []})
    ctx.count()
    post = b.project()
    seen = {"outcome": res["out"], "error": res["error"], "candidates": post["area"]["candidates"], "rejects": post["area"]["rejects"],
            "save_called_for": res["saved"]}
    if res["out"] == "ok" and post["area"]["rejects"] == ["imgC"] and post["area"]["candidates"] == ["imgA"]:
        return "recorded", seen
    if res["out"] == "error" and post["area"]["rejects"] == [] and post["area"]["candidates"] == []:
        return "aborts", seen
    return "other", seen


def probe_skip_flags(ctx):
    """ignore-rejects with two rejects: what is written into the two skip.flag items?"""
    model = {"ids": ["imgB", "imgE"], "kind": {"imgB": "nofetch", "imgE": "nofetch"}, "feed": ["imgB", "imgE"]}
    cmds = [{"cmd": "appear", "id": i, "order": []} for i in model["feed"]] + [{"cmd": "refresh", "id": "-", "order": []}]
    cmds += [{"cmd": "fetch", "id": i, "order": []} for i in model["feed"]] + [{"cmd": "ignore-rejects", "id": "-", "order": []}]
    b, steps, _ = replay_commands(ctx, os.path.join(fast_tmp(ctx, "flags"), "f"), model, cmds)
    out = {}
    for i in model["ids"]:
        p = os.path.join(b.store, i, "skip.flag")
        out[i] = _read(p).decode(errors="replace") if os.path.isfile(p) else None
    return out, steps, model, cmds


# ------------------------------------------------------------------------------------------------

def models(quick):
    A, B, C, D = "imgA", "imgB", "imgC", "imgD"
    three = {"ids": [A, B, C], "kind": {A: "ok", B: "nofetch", C: "nosave"}, "feed": [A, C, B]}
    two = {"ids": [A, D], "kind": {A: "ok", D: "ok"}, "feed": [A, D]}
    mix = {"ids": [A, D, B], "kind": {A: "ok", D: "ok", B: "nofetch"}, "feed": [A, B, D]}
    four = {"ids": [A, B, C, D], "kind": {A: "ok", B: "nofetch", C: "nosave", D: "ok"}, "feed": [A, C, B, D]}
    if quick:
        return [("g3", three)]
    return [("g4", four), ("g3b", mix), ("g2", two), ("g3", three)]


def run(ctx):
    try:
        _run(ctx)
    finally:
        fast_cleanup()


def _run(ctx):
    repo.setup(ctx)
    from concurrent.futures import ThreadPoolExecutor
    ctx.rule = ("TLC dumps the complete graph of spec/Pipeline.tla for the unrestricted operator (every state, every command line "
                "that can be typed in it - refresh, fetch ID, process-todos and publish with every listing order, approve ID, "
                "ignore-rejects, manual re-queue, the source offering a new image - with outcome and successor); from every node "
                "(spec state, byte contents of work dir + store) every outgoing command is executed by the real toasty.pipeline code "
                "on a scratch work dir with a local store and a fake image source, and the projection of the real directories and "
                "store plus the outcome are compared with TLC's successor; the documented promises of each command are evaluated on "
                "the real directories. distinct = distinct (spec state, command line) pairs executed")

    import multiprocessing as mp
    import toasty.pipeline.cli  # noqa - imported before the workers fork
    import toasty.builder  # noqa
    import toasty.image  # noqa

    def tlc(name, model, cfg_text, **kw):
        return ctx.tlc(name, extra={name + ".tla": mc_module(name, model)}, cfg_text=cfg_text, timeout=3000, **kw)

    if ctx.replay_path:
        rep = json.load(open(ctx.replay_path))["replay"]
        b, steps, _ = replay_commands(ctx, os.path.join(fast_tmp(ctx, "replay"), "r"), rep["model"], rep["commands"], verbose=True)
        for st in steps:
            for k, msg in st["alarms"]:
                ctx.violation(k, "%s (replayed: %s)" % (msg, "; ".join(cmd_text(c) for c in rep["commands"])), rep)
        ctx.trace_ok(1)
        return

    real_model, seen = probe_refresh_reject(ctx)
    ctx.note("refresh_with_a_candidate_whose_save_raises_NotActionableError", {"model": real_model, "observed": seen})
    flags, fsteps, fmodel, fcmds = probe_skip_flags(ctx)
    for st in fsteps:
        for k, msg in st["alarms"]:
            ctx.violation(k, "%s (after: %s)" % (msg, "; ".join(cmd_text(c) for c in fcmds)), {"model": fmodel, "commands": fcmds})
    pool = mp.get_context("fork").Pool(8)       # forked before any TLC thread exists
    try:
        _main(ctx, pool, tlc, real_model, seen, flags)
    finally:
        pool.terminate()


def _jobs(ctx, suites, main, reject, other, wedge, abort):
    jobs = {}
    for tag, model in suites:
        jobs["graph_" + tag] = (model, cfg(False, reject, invariants=CORE_INV, properties=["Flow"], emit=True), dict(workers=1))
    # the intended workflow: careful operator, refresh records its rejects - every sentence, liveness included
    jobs["careful_recorded"] = (main, cfg(True, "recorded", invariants=CORE_INV + CAREFUL_INV, properties=["Flow"] + LIVENESS), dict(workers=3))
    jobs["careful_aborts"] = (main, cfg(True, "aborts", invariants=CORE_INV + CAREFUL_INV, properties=["Flow"]), dict(workers=2))
    jobs["any_" + other] = (main, cfg(False, other, invariants=CORE_INV, properties=["Flow"]), dict(workers=2))
    # expected refutations (liveness): any operator with a fixed listing order; refresh_impl as written
    jobs["refute_any"] = (wedge, cfg(False, "recorded", fixed=True, properties=["OkPublished"], emit=True, alias=True),
                          dict(workers=1, expect_violation=True, count=False))
    jobs["refute_aborts"] = (abort, cfg(True, "aborts", fixed=True, properties=["OkPublished"], emit=True, alias=True),
                             dict(workers=1, expect_violation=True, count=False))
    if not ctx.quick:
        jobs["careful_recorded_fixed_order"] = (main, cfg(True, "recorded", fixed=True, invariants=CORE_INV + CAREFUL_INV, properties=["Flow"] + LIVENESS), dict(workers=4))
        jobs["careful_recorded_g3b"] = (suites[1][1], cfg(True, "recorded", invariants=CORE_INV + CAREFUL_INV, properties=["Flow"] + LIVENESS), dict(workers=4))

    return jobs


def _main(ctx, pool, tlc, real_model, seen, flags):
    from concurrent.futures import ThreadPoolExecutor
    reject = "recorded" if real_model == "recorded" else "aborts"
    other = "aborts" if reject == "recorded" else "recorded"
    suites = models(ctx.quick)
    main_tag, main = suites[0]
    A, C, D = "imgA", "imgC", "imgD"
    wedge = {"ids": [A, D], "kind": {A: "ok", D: "ok"}, "feed": [A, D], "fixed": [A, D]}
    abort = {"ids": [C, A], "kind": {C: "nosave", A: "ok"}, "feed": [C, A], "fixed": [C, A]}
    jobs = _jobs(ctx, suites, main, reject, other, wedge, abort)
    ex = ThreadPoolExecutor(5)
    rank = ["graph_" + main_tag, "careful_recorded", "refute_any", "refute_aborts"]
    order = sorted(jobs, key=lambda k: (rank.index(k) if k in rank else len(rank), k))
    futs = {k: ex.submit(tlc, "MCPipeline_" + k, jobs[k][0], jobs[k][1], **jobs[k][2]) for k in order}

    # ---- the walk (while the theorem jobs are still running) ----------------------------------------------
    gnote, wnote, graphs = {}, {}, {}
    complete = True
    for tag, model in suites:
        r = futs["graph_" + tag].result()
        g = Graph(r.json_lines("S"), model)
        g.check(ctx, r)
        graphs[tag] = g
        gnote[tag] = {"ids": model["kind"], "feed_order": model["feed"], "operator": "any", "refresh_reject_model": reject,
                      "states": len(g.state), "command_edges": g.nedges}
        import time
        t0 = time.time()
        agg, pred = walk(ctx, pool, tag, g, tag)
        wall = round(time.time() - t0, 1)
        for k, n in agg["edges_covered"]:
            ctx.distinct((tag, k, n))
        missed = len(g.state) - len(agg["spec_states_reached"])
        wnote[tag] = {"commands_executed_on_real_code": agg["runs"], "nodes (spec state, disk contents)": agg["nodes"],
                      "spec_states_reached": len(agg["spec_states_reached"]), "spec_states_not_reached_because_of_drift": missed,
                      "edges_with_drift": agg["drift_edges"], "levels": agg["levels"], "wall_s": wall, "started_at_s": round(t0 - ctx.t0, 1),
                      "commands_that_died_as_the_spec_says": dict(sorted(agg["error_outcomes"].items()))}
        complete = complete and missed == 0 and agg["drift_edges"] == 0
    pool.close()
    pool.join()
    ctx.exhaustive = complete
    ctx.note("graph", gnote)
    ctx.note("walk", wnote)

    res = {k: f.result() for k, f in futs.items()}
    ex.shutdown()
    th = {}
    for k in sorted(res):
        if k.startswith("refute_"):
            continue
        th[k] = "all hold (%d distinct states, %d transitions)" % (res[k].distinct, res[k].generated)
    ctx.note("tlc_theorems", th)

    # ---- observations: intended sentences that the code does not guarantee ---------------------------------
    obs = {}
    g = graphs[main_tag]
    for name in CAREFUL_INV:
        path = g.shortest_path(lambda k: g.sent[k][name] is False)
        if path is None:
            continue
        cmds = [c for c, o in path]
        b, steps, synced = replay_commands(ctx, os.path.join(fast_tmp(ctx, "obs"), "o"), g.model, cmds, graph=g, judge=False)
        real = b.project()
        obs[name] = {"refuted_by_TLC_for": "Careful = FALSE (%d states of %s)" % (sum(1 for k in g.sent if g.sent[k][name] is False), "the dumped graph"),
                     "shortest_command_sequence": [s["cmd"] + ("" if s["outcome"] == "ok" else "  -> " + s["outcome"]) for s in steps],
                     "real_code_follows_the_spec_along_it": synced,
                     "real_state": {"area": {a: v for a, v in real["area"].items() if v}, "store": {i: v for i, v in real["store"].items() if v}}}
    ctx.note("sentences_that_need_the_careful_operator", obs)

    # the documented way to reprocess (mv cache_done/ID cache_todo/ID) applied to an image that is already published:
    # the only departure from the careful operator allowed on this path is the re-queue itself
    def documented(s, c):
        if c["cmd"] == "fetch":
            return c["id"] not in s["area"]["cache_todo"] + s["area"]["cache_done"]
        if c["cmd"] == "approve":
            return c["id"] not in s["area"]["cache_todo"]
        return True

    def publish_dies(k):
        return "approved" in g.state[k]["dirs"] and any(c["cmd"] == "publish" and o == "error" for c, o, t in g.succ[k])
    path = g.shortest_path(publish_dies, documented)
    requeue = None
    if path is not None:
        cmds = [c for c, o in path]
        cmds.append([c for c, o, t in g.succ[_follow(g, cmds)] if c["cmd"] == "publish" and o == "error"][0])
        b, steps, synced = replay_commands(ctx, os.path.join(fast_tmp(ctx, "obs"), "o"), g.model, cmds, graph=g, judge=False)
        requeue = {"commands": [s["cmd"] + ("" if s["outcome"] == "ok" else "  -> " + s["outcome"]) for s in steps],
                   "real_code_follows_the_spec_along_it": synced}
        ctx.note("documented_requeue_of_a_published_image", requeue)

    live = {}
    for job, model, what in (("refute_any", wedge, "any operator, listings always in the order %s" % wedge["fixed"]),
                             ("refute_aborts", abort, "careful operator, refresh_impl's NotActionableError handler as written")):
        r = res[job]
        if "Temporal property OkPublished was violated" not in r.output and r.violated != "temporal":
            ctx.machinery("TLC was expected to refute OkPublished for %s, it reports %r" % (what, r.violated))
        gg = Graph(r.json_lines("S"), model)
        states, back = parse_trace(r.output)
        if len(states) < 2 or back is None:
            ctx.machinery("cannot read TLC's counterexample of %s back" % job)
        # the lasso TLC found: its stem is replaced by a shortest path of the same graph to the state where the lasso
        # closes (the stem TLC prints depends on its fingerprint seed and is padded with commands that change nothing)
        start = len(states) - 1 if back == "stuttering" else back - 1
        for a, b_ in zip(states, states[1:]):
            if not gg.label(a, b_):
                ctx.machinery("counterexample of %s: no command relates two consecutive states" % job)
        stem = gg.shortest_path(lambda k: k == states[start])
        if stem is None:
            ctx.machinery("counterexample of %s: the lasso state is not in the dumped graph" % job)
        cmds = [c for c, o in stem] + [gg.label(a, b_)[0][0] for a, b_ in zip(states[start:], states[start + 1:])]
        last = states[-1]
        dead = [(c, o) for c, o, t in gg.succ[last] if c["cmd"] in ("refresh", "process-todos", "publish")]
        bench, steps, synced = replay_commands(ctx, os.path.join(fast_tmp(ctx, "live"), "l"), model, cmds + [c for c, o in dead], graph=gg, judge=False)
        real = bench.project()
        live[job] = {"model": what, "ids": model["kind"], "TLC": "OkPublished refuted, counterexample of %d states ending in %s"
                     % (len(states), "stuttering" if back == "stuttering" else "a loop back to state %s" % back),
                     "commands": [s["cmd"] + ("" if s["outcome"] == "ok" else "  -> " + s["outcome"]) for s in steps[:len(cmds)]],
                     "then_every_further": [s["cmd"] + ("" if s["outcome"] == "ok" else "  -> " + s["outcome"]) for s in steps[len(cmds):]],
                     "real_code_follows_the_spec_along_it": synced,
                     "never_published": [i for i in model["ids"] if model["kind"][i] == "ok" and i not in real["area"]["published"]]}
    ctx.note("liveness_refutations_replayed", live)
    w = live["refute_any"]
    ctx.drift("OBSERVATION (intended workflow, not promised by the docs): nothing removes candidates/<id> of an image that was fetched, and "
              "directories are moved with os.rename - a second `fetch` of such an image wedges the pipeline: [%s]; then every further [%s]; %s never published. "
              "TLC proves OkPublished for the careful operator and refutes it for the unrestricted one%s"
              % ("; ".join(w["commands"]), "; ".join(w["then_every_further"]), w["never_published"],
                 "" if w["real_code_follows_the_spec_along_it"] else " (the real code did NOT follow this counterexample)"))
    if requeue is not None and requeue["commands"][-1].startswith("publish  -> died"):
        ctx.drift("OBSERVATION (docs/cli/pipeline-process-todos.rst: 'to reprocess an image, all you have to do is move its data folder from the "
                  "cache_done directory back to cache_todo'): for an image that is already published the reprocessed result can be approved but never "
                  "published - [%s], and so on every later publish, which never reaches the images listed after it%s"
                  % ("; ".join(requeue["commands"]), "" if requeue["real_code_follows_the_spec_along_it"] else " (the real code did NOT follow this path)"))
    if real_model == "aborts":
        a = live["refute_aborts"]
        ctx.drift("OBSERVATION (intended: CandidateInput.save may raise NotActionableError, refresh_impl's handler means to touch rejects/<id> and go on): "
                  "[source offers imgC (save raises), imgA; refresh] dies with %s - open(os.path.join(rej_dir, uniq_id, 'wb')) has the mode inside the path - "
                  "with candidates/ = %s, rejects/ = %s: the candidates after it in the feed are never recorded and the image never gets a skip.flag, on every "
                  "later refresh again. TLC proves OkPublished / RejectFlagged for the handler as intended and refutes OkPublished for the handler as written "
                  "(counterexample of %s replayed on the real code: %s never published)"
                  % (seen["error"], seen["candidates"], seen["rejects"], a["TLC"].split("counterexample of ")[1], a["never_published"]))
    elif real_model == "other":
        ctx.drift("refresh with a candidate whose save() raises NotActionableError implements neither model of the spec: %s" % (seen,))
    fresh = sorted(e for t in wnote.values() for e in t["commands_that_died_as_the_spec_says"] if "FileNotFoundError" in e)
    ctx.note("other_observations", {
        "commands_that_raise_instead_of_doing_nothing_on_a_work_dir_where_their_directory_was_never_created": fresh,
        "skip_flag_contents_after_ignore_rejects_with_two_rejects": flags,
        "note": "ignore_rejects passes one BytesIO(b'{}') to every put_item: when the items differ, every skip.flag after the first of a run is "
                "written empty (refresh only tests for existence, so the workflow is not affected)" if len(set(flags.values())) > 1 else "all alike"})

    # ---- the documented order of work once more, through the real command line parser ------------------------
    g = graphs[main_tag]
    ok = [i for i in main["ids"] if main["kind"][i] == "ok"][0]
    script = [{"cmd": "appear", "id": i, "order": []} for i in main["feed"] if main["kind"][i] != "nosave" or real_model == "recorded"]
    script += [{"cmd": "refresh", "id": "-", "order": []}]
    script += [{"cmd": "fetch", "id": i, "order": []} for i in main["ids"] if main["kind"][i] != "nosave"]
    todo = sorted(i for i in main["ids"] if main["kind"][i] == "ok")
    script += [{"cmd": "process-todos", "id": "-", "order": todo}]
    script += [{"cmd": "approve", "id": i, "order": []} for i in todo]
    script += [{"cmd": "publish", "id": "-", "order": todo}, {"cmd": "ignore-rejects", "id": "-", "order": []},
               {"cmd": "refresh", "id": "-", "order": []}, {"cmd": "process-todos", "id": "-", "order": []},
               {"cmd": "publish", "id": "-", "order": []}]
    bench, steps, synced = replay_commands(ctx, os.path.join(fast_tmp(ctx, "cli"), "c"), main, script, graph=g, via_entrypoint=True)
    for st in steps:
        for k, msg in st["alarms"]:
            ctx.violation(k, "%s (through toasty.cli.entrypoint: %s)" % (msg, "; ".join(cmd_text(c) for c in script)), {"model": main, "commands": script})
    if not synced:
        bad = [s for s in steps if s.get("spec") not in (None, "agrees")]
        ctx.drift("documented order of work through toasty.cli.entrypoint: after %s: %s" % (bad[0]["cmd"], bad[0]["spec"]) if bad else "entrypoint replay left the spec")
    ctx.trace_ok(1)
    ctx.sample({"documented_order_of_work_through_cli_entrypoint": [s["cmd"] + " -> " + s["outcome"] + " / spec " + s.get("spec", "-") for s in steps],
                "real_state_at_the_end": bench.project()})
    ctx.assume("publish is one atomic step per image here; interrupted transfers are the subject of C18 (spec/Publish.tla)")
    ctx.assume("one command at a time; one explicit id per fetch / approve invocation (glob arguments are not exercised)")
    ctx.assume("the fake source downloads one file into the cache directory and tiles it into three files: cache and output "
               "directories are never empty (so os.rename onto an existing one fails, as with any real source)")
    ctx.assume("only the local store backend is exercised")
